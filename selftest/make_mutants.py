#!/usr/bin/env python3
"""Generates the hand-written kill-matrix mutants (DESIGN.md §6) as git-apply patches against /repo HEAD.
Each mutant: (name, expected detecting properties, file, old text, new text)."""
import difflib, json, os, sys
REPO = os.environ.get("VERIF_REPO", "/repo")
OUT = os.path.join(os.path.dirname(os.path.abspath(__file__)), "mutants")

AB = "zkabacus-crypto/src/"
ZK = "zkchannels-crypto/src/"
M = [
 # --- C01 / C06 / C12: establish verifier
 ("est-drop-close-tag-check", ["C01"], AB+"proofs.rs",
  "                && close_tag_matches\n                && revlocks_match\n                && customer_balances_match",
  "                && revlocks_match\n                && customer_balances_match"),
 ("est-drop-revlocks-match", ["C01"], AB+"proofs.rs",
  "                && close_tag_matches\n                && revlocks_match\n                && customer_balances_match",
  "                && close_tag_matches\n                && customer_balances_match"),
 ("est-balance-check-state-only", ["C01"], AB+"proofs.rs",
  "        let customer_balances_match = state_response_scalars[3] == expected_customer_balance\n            && close_state_response_scalars[3] == expected_customer_balance;",
  "        let customer_balances_match = state_response_scalars[3] == expected_customer_balance;"),
 # --- C02 pay verifier
 ("pay-drop-nonce-equation", ["C02"], AB+"proofs.rs",
  "                && pay_token_nonce_matches_expected\n", ""),
 ("pay-drop-merchant-range", ["C02"], AB+"proofs.rs",
  "                && customer_balance_proof_verifies\n                && merchant_balance_proof_verifies\n",
  "                && customer_balance_proof_verifies\n"),
 ("pay-drop-old-revlocks-match", ["C02"], AB+"proofs.rs",
  "                && old_revlocks_match\n", ""),
 # --- C03 customer
 ("cust-started-close-on-new-state", ["C03", "C04"], AB+"customer.rs",
  "            self.old_close_state_signature,\n            self.old_state.close_state(),",
  "            self.old_close_state_signature,\n            self.new_state.close_state(),"),
 ("cust-lock-accepts-failed", ["C03"], AB+"customer.rs",
  "                    revocation_lock_blinding_factor: self.blinding_factors.for_old_revocation_lock,\n                },\n            )),\n            Failed => Err(self),",
  "                    revocation_lock_blinding_factor: self.blinding_factors.for_old_revocation_lock,\n                },\n            )),\n            Failed if self.old_state.customer_balance().is_zero() => Err(self),\n            Failed => Err(Started { new_state: self.new_state, old_state: self.old_state, blinding_factors: self.blinding_factors, old_close_state_signature: close_state_signature }),"),
 ("cust-unlock-skips-verify-when-zero-merchant", ["C03"], AB+"customer.rs",
  "        match unblinded_pay_token.verify(config, &self.state) {\n            // If so, save it and enter the `Ready` state.\n            Verified => Ok(Ready {\n                state: self.state,\n                pay_token: unblinded_pay_token,\n                close_state_signature: self.close_state_signature,\n            }),\n            Failed => Err(self),\n        }\n    }\n\n    /// Extract data used to close the channel.\n    /// This is called as part of zkAbacus.Close.\n    pub fn close(self, rng: &mut impl Rng) -> ClosingMessage {\n        ClosingMessage::new(rng, self.close_state_signature, self.state.close_state())\n    }\n\n    /// Get the [`CustomerBalance`] for this state that will result",
  "        match unblinded_pay_token.verify(config, &self.state) {\n            // If so, save it and enter the `Ready` state.\n            Verified => Ok(Ready {\n                state: self.state,\n                pay_token: unblinded_pay_token,\n                close_state_signature: self.close_state_signature,\n            }),\n            Failed if unblinded_pay_token.0.is_well_formed() && self.state.merchant_balance().is_zero() => Ok(Ready {\n                state: self.state,\n                pay_token: unblinded_pay_token,\n                close_state_signature: self.close_state_signature,\n            }),\n            Failed => Err(self),\n        }\n    }\n\n    /// Extract data used to close the channel.\n    /// This is called as part of zkAbacus.Close.\n    pub fn close(self, rng: &mut impl Rng) -> ClosingMessage {\n        ClosingMessage::new(rng, self.close_state_signature, self.state.close_state())\n    }\n\n    /// Get the [`CustomerBalance`] for this state that will result"),
 # --- C04 / C17 arithmetic
 ("revert-unsigned-abs", ["C17"], AB+"lib.rs",
  "self.0.unsigned_abs()", "self.0.abs() as u64"),
 # --- C05
 ("revlock-ignore-blinding-factor", ["C05"], AB+"revlock.rs",
  "                revocation_lock_blinding_factor.0,\n                &Message::from(revocation_pair.lock.to_scalar()),",
  "                revocation_lock_blinding_factor.0,\n                &Message::from(revocation_pair.lock.to_scalar()),"),  # placeholder replaced below
 # --- C07 / C11
 ("sig-verify-drop-well-formed", ["C07"], ZK+"pointcheval_sanders.rs",
  "        if !self.is_well_formed() {\n            return false;\n        }\n\n        // x + sum(", "        // x + sum("),
 ("sigproof-drop-well-formed", ["C11", "C02"], ZK+"proofs/signature.rs",
  "        valid_signature && valid_commitment_proof && commitment_proof_matches_signature",
  "        let _ = valid_signature;\n        valid_commitment_proof && commitment_proof_matches_signature"),
 ("sig-verify-ignore-last-coordinate", ["C07"], ZK+"pointcheval_sanders.rs",
  "                .zip(msg.iter())\n                .map(|(yi, mi)| yi * mi)",
  "                .zip(msg.iter().take(N.max(2) - 1))\n                .map(|(yi, mi)| yi * mi)"),
 # --- C08
 # --- C09
 # --- C12
 # --- C13
 ("range-drop-valid-digits", ["C13", "C02"], ZK+"proofs/range.rs",
  "        valid_digits && response_scalar == expected_response_scalar",
  "        let _ = valid_digits;\n        response_scalar == expected_response_scalar"),
 ("range-validate-skips-last", ["C13", "C19"], ZK+"proofs/range.rs",
  "        for (i, sig) in self.digit_signatures.iter().enumerate() {",
  "        for (i, sig) in self.digit_signatures.iter().enumerate().take(127) {"),
 # --- C14
 ("close-drop-randomization", ["C14"], AB+"customer.rs",
  "        close_signature.randomize(&mut *rng);\n", "        let _ = &mut *rng;\n"),
 ("sigproof-drop-randomization", ["C14"], ZK+"pointcheval_sanders.rs",
  "        blinded_signature.randomize(rng);\n        BlindedSignature(blinded_signature)",
  "        let _ = rng;\n        BlindedSignature(blinded_signature)"),
 # --- C15
 ("pk-decode-skip-y2-identity", ["C15"], ZK+"pointcheval_sanders.rs",
  "            if bool::from(y1.is_identity()) || bool::from(y2.is_identity()) {",
  "            if bool::from(y1.is_identity()) {"),
 ("nonce-decode-skip-close-tag", ["C15", "C18"], AB+"nonce.rs",
  "        if n != CLOSE_SCALAR {\n            Ok(Self(n))\n        } else {\n            Err(\"The nonce cannot be the close scalar.\".to_string())\n        }",
  "        Ok(Self(n))"),
 ("revert-balance-try-from", ["C15", "C17"], AB+"lib.rs",
  "#[serde(try_from = \"u64\")]\nstruct Balance(u64);", "struct Balance(u64);"),
 # --- C16
 ("revert-try-push", ["C16"], ZK+"serde.rs",
  "                    elems\n                        .try_push(elem.0)\n                        .map_err(|_| de::Error::custom(\"wrong number of elements for array\"))?;",
  "                    elems.push(elem.0);"),
 ("revert-vec-capacity-cap", ["C16"], ZK+"serde.rs",
  "                    .min(4096 / std::mem::size_of::<G>().max(1));", "                    ;"),
 # --- C18
 ("channel-id-drop-customer-info", ["C18"], AB+"states.rs",
  "        hasher.update(merchant_account_info);\n        hasher.update(customer_account_info);",
  "        hasher.update(merchant_account_info);\n        let _ = customer_account_info;"),
 # --- C19
 ("keygen-remove-nonzero-loop", ["C19"], ZK+"pointcheval_sanders.rs",
  "        let mut get_nonzero_scalar = || loop {\n            let r = Scalar::random(&mut *rng);\n            if !r.is_zero() {\n                return r;\n            }\n        };",
  "        let mut get_nonzero_scalar = || Scalar::random(&mut *rng);"),
 # --- C20
 ("started-skip-close-signature-field", ["C20", "C03"], AB+"customer.rs",
  "pub struct Locked {\n    state: State,\n    blinding_factor: PayTokenBlindingFactor,",
  "pub struct Locked {\n    state: State,\n    #[serde(skip, default = \"crate::customer::default_bf\")]\n    blinding_factor: PayTokenBlindingFactor,"),
]

# mutants that need more than one edit: (name, props, [(file, old, new), ...])
MULTI = [
 ("est-unhash-merchant-balance-scalar-both-sides", ["C01", "C12"], [
   (AB+"proofs.rs", "            .with(&commitment_scalars[3])\n            .with(&commitment_scalars[4])\n", "            .with(&commitment_scalars[3])\n"),
   (AB+"proofs.rs", "            .with(&self.customer_balance_commitment_scalar)\n            .with(&self.merchant_balance_commitment_scalar)\n", "            .with(&self.customer_balance_commitment_scalar)\n"),
 ]),
 ("est-drop-context-both-sides", ["C06", "C12"], [
   (AB+"proofs.rs", "            .with(&close_state_proof_builder)\n            // Incorporate transcript context.\n            .with_bytes(&context.as_bytes())\n", "            .with(&close_state_proof_builder)\n"),
   (AB+"proofs.rs", "            .with(&self.close_state_proof)\n            // Incorporate transcript context.\n            .with_bytes(context.as_bytes())\n", "            .with(&self.close_state_proof)\n"),
 ]),
 ("pay-unhash-close-tag-scalar-both-sides", ["C02", "C12"], [
   (AB+"proofs.rs", "            .with(&old_pay_token_proof_builder.conjunction_commitment_scalars()[1])\n            .with(&close_state_proof_builder.conjunction_commitment_scalars()[1])\n", "            .with(&old_pay_token_proof_builder.conjunction_commitment_scalars()[1])\n"),
   (AB+"proofs.rs", "            .with(&self.old_nonce_commitment_scalar)\n            .with(&self.close_tag_commitment_scalar)\n", "            .with(&self.old_nonce_commitment_scalar)\n"),
 ]),
 ("sigproof-challenge-drop-blinded-signature-both-sides", ["C12"], [
   (ZK+"proofs/signature.rs", "impl<const N: usize> ChallengeInput for SignatureProofBuilder<N> {\n    fn consume(&self, builder: &mut ChallengeBuilder) {\n        builder.consume(&self.blinded_signature);\n", "impl<const N: usize> ChallengeInput for SignatureProofBuilder<N> {\n    fn consume(&self, builder: &mut ChallengeBuilder) {\n"),
   (ZK+"proofs/signature.rs", "impl<const N: usize> ChallengeInput for SignatureProof<N> {\n    fn consume(&self, builder: &mut ChallengeBuilder) {\n        builder.consume(&self.blinded_signature);\n", "impl<const N: usize> ChallengeInput for SignatureProof<N> {\n    fn consume(&self, builder: &mut ChallengeBuilder) {\n"),
 ]),
 ("revlock-ignore-blinding-factor", ["C05"], [
   (AB+"revlock.rs",
    "        self.0\n            .verify_opening(\n                parameters.revocation_commitment_parameters(),\n                revocation_lock_blinding_factor.0,\n                &Message::from(revocation_pair.lock.to_scalar()),\n            )\n            .into()",
    "        let _ = (parameters, revocation_lock_blinding_factor, &self.0);\n        // the pair was validated on construction\n        (revocation_pair.lock.to_scalar() == revocation_pair.lock.to_scalar()).into()"),
 ]),
 ("started-skip-close-signature-field", ["C20", "C03"], [
   (AB+"customer.rs",
    "pub struct Locked {\n    state: State,\n    blinding_factor: PayTokenBlindingFactor,",
    "pub struct Locked {\n    state: State,\n    #[serde(skip_serializing, default = \"default_bf\")]\n    blinding_factor: PayTokenBlindingFactor,"),
   (AB+"customer.rs",
    "impl Locked {\n    /// Unlock the channel",
    "fn default_bf() -> PayTokenBlindingFactor {\n    PayTokenBlindingFactor(zkchannels_crypto::BlindingFactor::new(&mut rand::thread_rng()))\n}\n\nimpl Locked {\n    /// Unlock the channel"),
 ]),
]

def make_patch(edits):
    files = {}
    for (f, old, new) in edits:
        src = files.get(f) or open(os.path.join(REPO, f)).read()
        if old not in src:
            raise SystemExit("anchor not found in %s: %r" % (f, old[:60]))
        if src.count(old) != 1:
            raise SystemExit("anchor not unique in %s: %r (%d)" % (f, old[:60], src.count(old)))
        files[f] = src.replace(old, new)
    out = ""
    for f, new in files.items():
        old = open(os.path.join(REPO, f)).read()
        d = difflib.unified_diff(old.splitlines(True), new.splitlines(True), "a/" + f, "b/" + f)
        out += "".join(d)
    return out

def main():
    os.makedirs(OUT, exist_ok=True)
    multi_names = {m[0] for m in MULTI}
    index = []
    for (name, props, f, old, new) in M:
        if name in multi_names:
            continue
        open(os.path.join(OUT, name + ".diff"), "w").write(make_patch([(f, old, new)]))
        index.append({"name": name, "expected": props})
    for (name, props, edits) in MULTI:
        open(os.path.join(OUT, name + ".diff"), "w").write(make_patch(edits))
        index.append({"name": name, "expected": props})
    json.dump(index, open(os.path.join(OUT, "index.json"), "w"), indent=1)
    print("%d mutants written" % len(index))

if __name__ == "__main__":
    main()
