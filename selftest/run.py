#!/usr/bin/env python3
"""Kill-matrix self-test: for each mutant patch, apply it to a scratch worktree of /repo (outside
/repo and /verif), confirm it compiles and (optionally) that the 104 baseline tests still pass,
run the quick checks of the properties it is expected to break with VERIF_REPO pointing at the
scratch tree, and record which checks reported a VIOLATION. The scratch tree and its build output
are removed at the end.

usage: run.py [--baseline] [--dir DIR_WITH_DIFFS] [--props C01,C02] [names...]"""
import json, os, shutil, subprocess, sys, time
HERE = os.path.dirname(os.path.abspath(__file__))
VERIF = os.path.dirname(HERE)
REPO = "/repo"
WT = os.environ.get("SELFTEST_WT", "/tmp/selftest-wt")

def sh(cmd, cwd=None, env=None, timeout=3600):
    p = subprocess.run(cmd, cwd=cwd, env=env, stdout=subprocess.PIPE, stderr=subprocess.STDOUT, text=True, timeout=timeout)
    return p.returncode, p.stdout

def main():
    args = sys.argv[1:]
    baseline = "--baseline" in args
    args = [a for a in args if a != "--baseline"]
    mdir = os.path.join(HERE, "mutants")
    props_override = None
    if "--dir" in args:
        i = args.index("--dir"); mdir = args[i + 1]; del args[i:i + 2]
    if "--props" in args:
        i = args.index("--props"); props_override = args[i + 1].split(","); del args[i:i + 2]
    idx_path = os.path.join(mdir, "index.json")
    index = json.load(open(idx_path)) if os.path.exists(idx_path) else [
        {"name": f[:-5], "expected": props_override or []} for f in sorted(os.listdir(mdir)) if f.endswith(".diff")]
    if args:
        index = [m for m in index if m["name"] in args]
    src = os.environ.get("VP_RUN_REPO", REPO)
    if os.path.exists(WT):
        sh(["git", "-C", REPO, "worktree", "remove", "--force", WT])
        shutil.rmtree(WT, ignore_errors=True)
    rc, out = sh(["git", "-C", src, "worktree", "add", "--detach", WT, "HEAD"])
    if rc != 0:
        print(out); return 2
    shutil.copy(os.path.join(REPO, "Cargo.lock"), os.path.join(WT, "Cargo.lock"))
    env = dict(os.environ); env["VERIF_REPO"] = WT; env["CARGO_NET_OFFLINE"] = "true"
    results = []
    try:
        for m in index:
            name = m["name"]; t0 = time.time()
            patch = os.path.join(mdir, name + ".diff")
            sh(["git", "checkout", "--", "."], cwd=WT)
            rc, out = sh(["git", "apply", patch], cwd=WT)
            r = {"mutant": name, "expected": props_override or m["expected"], "applied": rc == 0}
            if rc != 0:
                r["error"] = out[-500:]; results.append(r); print(name, "PATCH DOES NOT APPLY"); continue
            if baseline:
                rc, out = sh(["cargo", "nextest", "run", "--workspace", "--no-fail-fast", "--offline"], cwd=WT, env=env)
                r["baseline_pass"] = rc == 0
                if rc != 0:
                    r["baseline_tail"] = out[-800:]
            r["checks"] = {}
            for prop in r["expected"]:
                rc, out = sh([os.path.join(VERIF, "check"), prop, "--tier", "quick"], cwd=VERIF, env=env)
                sigs = [l.strip() for l in out.splitlines() if l.strip().startswith("signature:")][:4]
                r["checks"][prop] = {"exit": rc, "violation": "VIOLATION property=" in out, "signatures": sigs,
                                     "tail": out.splitlines()[-1] if out.strip() else ""}
            r["killed_by"] = [p for p, v in r["checks"].items() if v["violation"]]
            r["wall_s"] = round(time.time() - t0, 1)
            results.append(r)
            print("%-45s baseline=%s killed_by=%s expected=%s (%.0fs)" % (name, r.get("baseline_pass", "-"), r["killed_by"], r["expected"], r["wall_s"]), flush=True)
            json.dump(results, open(os.path.join(HERE, "results-%s.json" % os.path.basename(mdir.rstrip('/'))), "w"), indent=1)
    finally:
        sh(["git", "-C", src, "worktree", "remove", "--force", WT])
        shutil.rmtree(WT, ignore_errors=True)
        # build output of the scratch tree
        import hashlib
        tag = hashlib.sha1(WT.encode()).hexdigest()[:10]
        shutil.rmtree(os.path.join(VERIF, "target-alt", tag), ignore_errors=True)
        shutil.rmtree(os.path.join(VERIF, "work", "crate-" + tag), ignore_errors=True)
    missed = [r["mutant"] for r in results if r.get("applied") and not r.get("killed_by")]
    print("mutants: %d, missed: %s" % (len(results), missed))
    return 0

if __name__ == "__main__":
    sys.exit(main())
