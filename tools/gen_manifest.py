#!/usr/bin/env python3
"""Regenerates /verif/MANIFEST.json from the table below; only implemented monitors are claimed."""
import json, os, sys
HERE = os.path.dirname(os.path.dirname(os.path.abspath(__file__)))

HOOK_COMMITS = ["e39f3f7"]

# id -> (category, technique, text, note, design_ref)
CHECKS = {
 "C01": ("fault_enumeration",
         "runtime monitoring: adversarial shadow prover against the real merchant, verifier challenge read through the challenge-recorder hook, oracle = merchant signature verifying on a false message (pairing reference + Signature::verify)",
         "For several merchant configurations and agreed (channel id, balances, context) tuples, an independent prover written on bls12_381 arithmetic builds establish proofs for ~35 false (state, close state) witnesses (each slot, each message, cross-slot, out-of-range) under four strategy families: honest-but-lying, answer-as-if-agreed (exactly the Schnorr relation false), and post-challenge choice of each non-response field (T of either proof, each revealed commitment scalar, C) iterated up to three rounds with the verifier's challenge read through the hook. Every proof goes to the real initialize(); an alarm requires the returned closing signature or pay token, unblinded with the forger's factor, to verify on a message that differs from the agreed one. Positive control (true witness through the same machinery) must be accepted.",
         "Soundness is decided against this explicit forger family only, not against all provers. Trusts bls12_381, the pairing reference (cross-checked against Signature::verify on every accepted case) and the hook (observes, never alters, the challenge).",
         "DESIGN.md §4 C01"),
 "C02": ("fault_enumeration",
         "runtime monitoring: adversarial shadow pay prover holding a real pay token against the real merchant, verifier challenge through the hook, oracle = closing signature verifying on a false close state / token link false by pairing reference / completion with a foreign revocation pair",
         "From honest channel histories (0-3 payments, boundary balances) the harness reads the customer's real pay token and old state, then an independent prover (bls12_381 arithmetic, 18 digit proofs included) builds pay proofs for ~45 false variants per base: wrong public nonce, amount wrong on either balance or in only one of state/close state, foreign channel id, close-tag slot replaced, old/new lock mismatch, foreign/tampered/random token, old state richer than the token, and out-of-range balances (-1, 2^63) with the attacker's best digit constraints (residue, all-max, digit outside the alphabet under another digit's signature, negative digit). Strategies: honest-but-lying, answer-as-if-true, post-challenge choice of every scalar commitment and of the two revealed commitment scalars, iterated with the challenge read through the hook. Falsity is recomputed from what the forger holds; an alarm needs an exhibited witness. Positive control per base.",
         "Soundness is decided against this explicit forger family only. Trusts bls12_381, the pairing reference, the hook.",
         "DESIGN.md §4 C02"),
 "C03": ("fault_enumeration",
         "runtime monitoring: session driver with a fault injector at every merchant reply; independent reply classifier (pairing reference on values read from the state bytes); byte-image and closing-message monitors at every observation point",
         "Histories of payments (either sign, zero, boundary amounts) are run with real customer stages against a real merchant; before the honest reply at each of the four replies the customer consumes, several faults from a 20-kind alphabet are injected (random pair, honest reply re-blinded / shifted / swapped, evil-merchant signatures - made with the merchant's own key and blinded for this customer's factor - on states with altered balance, channel id, lock or second slot, the other message type for the same state, second merchant key, right signature under a wrong blinding factor, replies recorded in other sessions and earlier payments, the all-identity signature produced by driving the real merchant with a zero randomiser). Monitors: state bytes identical after a refusal; no reply the independent check calls invalid is accepted and no valid one refused; after every call a closing message from a copy of the state passes the merchant's close check, carries the ledger's balances for that stage and a lock never disclosed; the lock message discloses exactly the old state's lock and only in the accepting step.",
         "Reply types outside the alphabet are not observed. The independent classifier trusts bls12_381 pairings and the tracer's reading of the state layout.",
         "DESIGN.md §4 C03"),
 "C04": ("exploration",
         "runtime monitoring: honest customer/merchant runs step by step against an i128 reference ledger",
         "Channels with initial balances from the boundary lattice squared and random pairs run sequences of amounts drawn relative to the current balances (0, +-1, +-balance, +-(balance+1), +-(2^63-1), exact fill-ups to 2^63-1 and one beyond, random). Every in-range step must complete; every stage's reported balances and the closing message from every stage must equal the ledger (pre-payment while started, post-payment once locked) and pass the merchant's close check; the total is conserved; out-of-range payments must be refused with the matching error, leave the Ready state byte-identical, and the customer must be able to continue.",
         "Trusts the 15-line i128 ledger. Histories are sampled, not enumerated.",
         "DESIGN.md §4 C04"),
 "C05": ("fault_enumeration",
         "runtime monitoring: candidate (pair, blinding factor) matrix offered to the real complete_payment at every accepted payment; oracle = Pedersen opening recomputed from the commitment atom of the accepted pay proof; SHA3 recomputation for every decodable pair",
         "At the completion point of every payment of real histories ~20 candidate combinations are offered in a row (right pair with bf+1 / random / zero / negated / bf of earlier payments; pair of the new state, of earlier payments, of another channel, of a session with another merchant, a fresh pair, each with the right bf or with their own) before the right one; the result must equal the reference opening check, the pending payment must survive every refusal, and the token finally issued must be accepted by the customer. Decoder: 4800+ encodings (honest, lock / secret / index altered, bit flips, secrets whose digest is not a canonical scalar, reference-recomputed pairs at any index): every pair that decodes must satisfy lock = SHA3(secret || index) and re-encode identically.",
         "Trusts the SHA3 and Pedersen references.",
         "DESIGN.md §4 C05"),
 "C06": ("fault_enumeration",
         "runtime monitoring: single-component substitution of verification tuples, cross-session replay and closing-message field substitution against the real verifiers; acceptance is the refutation",
         "Honest establish and pay proofs are first accepted under their own tuple (positive control) and then offered with exactly one component replaced: merchant key / range parameters / revocation-commitment parameters (configurations recombined with from_parts so that one part differs), channel id (fresh, one bit), each balance +-1 / swapped / moved, nonce +1 / fresh, amount +-1 / negated / zero / doubled, context with a byte changed, appended, truncated or empty. Every merchant reply and proof recorded in one session is offered at every reply point of sessions on another channel and with another merchant. Closing messages collected at every stage of two channels get each field replaced by the value from an earlier / later state of the same channel or from the other channel, and balances +-1; all must fail the close check.",
         "Only single-component substitutions and the listed near values.",
         "DESIGN.md §4 C06"),
 "C14": ("exploration",
         "runtime monitoring: complete message log of multi-channel histories checked offline (no atom repeats; no state secret appears)",
         "Groups of 2-4 channels are interleaved under one merchant with payments of either sign and zero, refused replies and closes from every stage that offers close(). Every message in both directions and the public parameters are logged as 32/48/96-byte atoms; the checker walks the log in order: no atom of a customer-to-merchant message may equal an atom of any earlier message or of the parameters (channel id and 8-byte balances exempt, as the property says), and none may equal a scalar held in the customer state before or after that step (blinding factors, unrevealed nonces, revocation secrets, balances as scalars) except what the step discloses by design.",
         "Necessary condition for unlinkability only (exact-value reuse), not zero knowledge.",
         "DESIGN.md §4 C14"),
 "C18": ("exploration",
         "runtime monitoring: scripted RNG that samples the close tag at chosen draws (draw log proves the rejection path ran); re-labelled signatures against the real close check and payment approval; single-input differential on the channel id",
         "The 64-byte pattern that Scalar::random maps to the close tag is injected at every scalar draw of test_new_nonce and Requested::new (1-4 times in a row) and of Ready::start (quick: the first draws and a spread; thorough: all ~90); the generated nonce atoms must differ from the tag and the draw log must show the extra draw. Nonce atoms of every state of honest histories are checked; the tag itself must not decode as a nonce while its neighbours must. On every Ready state the pay token is re-labelled as closing signature (must fail the merchant's close check) and the closing signature as pay token (the resulting payment must be refused); both also by the pairing reference. ChannelId::new: identical inputs give identical ids and a change to exactly one of the five inputs changes the id.",
         "The channel-id derivation function itself is not fixed by the property; equality with the harness's SHA3 recomputation is recorded as information only.",
         "DESIGN.md §4 C18"),
 "C19": ("exploration",
         "runtime monitoring: scripted RNG with all-zero windows over every draw of each generator; outputs checked through their wire form (validators, pairings, discrete-log relations, signatures)",
         "For KeyPair<N>, PedersenParameters<G,N>, RangeConstraintParameters and merchant::Config a dry run logs the draws; then every single draw and every run of 2-3 consecutive draws (scalar samples, field samples, sign words) is replaced by zeros (quick: capped sample for the 490-draw range parameters) plus random streams. Each output must pass its own decode-time validation, contain no zero secret scalar or identity element, satisfy X1=g^x, X~=g~^x, Y_i=g^{y_i}, Y~_i=g~^{y_i}, e(Y_i,g~)=e(g,Y~_i), e(X1,g~)=e(g,X~), sign-and-verify, validate(), every digit signature valid by the pairing reference, and a merchant built from it must complete an honest payment. The evidence states how many injected runs took a retry path.",
         "The identity-rejection loop around Group::random is unreachable for any stream (bls12_381 itself never returns the identity), so it cannot be observed.",
         "DESIGN.md §4 C19"),
 "C20": ("exploration",
         "runtime monitoring: lock-step twin execution (never-stored track vs track restored from bytes) under identical per-step randomness and identical merchant replies",
         "C04-style histories are run on two tracks: B is replaced by decode(encode(state)) before every step (pass 1) or before a random third of the steps (pass 2), including immediately after refused bad replies at every reply point. Compared at every step: emitted messages byte for byte, accept / refuse and error variants, and closing messages obtained from copies of both tracks (fields, and bytes under identical randomness). A restore that fails to decode is a violation.",
         "Histories are sampled. State images are compared only as a diagnostic (the property speaks of behaviour).",
         "DESIGN.md §4 C20"),
 "C07": ("exploration",
         "runtime monitoring: differential of Signature::verify against an independent two-pairing evaluation on wire atoms, over derivation chains, perturbations, attacker bytes and degenerate signatures made through the API with a scripted RNG",
         "For N in {1,2,3,5,8,13}, several key pairs and messages with entries from {0,1,q-1,small,2^63-1,2^63,random}, signatures are derived through random chains of sign / randomize / blind_and_randomize -> unblind / blind-sign (via a request proof) -> unblind and compared with the reference relation (sigma1 != 1 and e(sigma1, X~ prod Y~_i^m_i) = e(sigma2, g~), computed with bls12_381::pairing from the key's wire atoms) on the right message, every single-coordinate change, exchanged coordinates, another key and wrong blinding factors; signatures decoded from attacker bytes (random points, (P,xP), forgeries built from the secret scalars, sigma2 = identity); and the all-identity signature produced through randomize / blind_and_randomize / BlindedSignature::new / blind_sign with a zero randomiser, which must never verify.",
         "Trusts bls12_381 pairings and the tracer. Exploration over sampled keys and messages.",
         "DESIGN.md §4 C07"),
 "C08": ("exploration",
         "runtime monitoring: end-to-end request -> verify -> blind-sign -> unblind against the pairing reference, with atom-wise tampering of the request",
         "For every N, several keys and edge messages an honest SignatureRequestProof must yield a blind-signable value whose signature, unblinded with the requester's factor, verifies (reference and library) on the requester's message and on no message differing in one coordinate; the proof's commitment atom must equal the independently recomputed Pedersen commitment. Every atom of the request replaced (other valid value, +1, identity, negation, the same atom of a second honest request), commitments exchanged, the challenge changed, another key: all must yield None.",
         "VerifiedBlindedMessage has no accessor: 'is the very commitment of the proof' is observed through the signature it leads to and through the proof's commitment atom.",
         "DESIGN.md §4 C08"),
 "C09": ("exploration",
         "runtime monitoring: Commitment::new / verify_opening against an explicit sum over generators the harness supplied or read from the wire",
         "G1 and G2, N in {1,2,3,5,8,13}, parameters from explicit generators (random, with known discrete logarithms), PedersenParameters::new (generators recovered from the encoding) and a public key; messages and blinding factors over {0,1,q-1,random}: to_element must equal the reference sum, verify_opening must equal (reference == commitment) for the original opening, every single-coordinate change (+1, -1, random), changed blinding factors, other commitments, the identity and random elements, colliding openings under known discrete logarithms (must be accepted), and additivity in message and blinding factor.",
         "Trusts bls12_381 group arithmetic.",
         "DESIGN.md §4 C09"),
 "C10": ("exploration",
         "runtime monitoring: honest provers of every proof type run across edge messages, every subset of linked slots and all documented constraint patterns; verification result, builder/proof challenge equality and response-scalar relations observed",
         "4 proof types x N in {1,2,3,5,8,13} x 12 edge-message variants x every subset of caller-chosen commitment scalars (N<=5; sampled for 8, 13; scalars from {0,q-1,random}): builder challenge = proof challenge, the proof verifies, r_i = c m_i + s_i. Patterns: partial opening, equality within and across all 16 ordered type pairs, secret sum (also across three proofs), public addition, public product, range link for 22 boundary values x 4 proof types, conjunctions of four proofs and a four-proof chain under one challenge.",
         "Completeness only; sampled subsets for the longest tuples.",
         "DESIGN.md §4 C10"),
 "C11": ("exploration",
         "runtime monitoring: differential of the three library verifiers against Schnorr / pairing relations recomputed from the proofs' wire atoms, over per-atom perturbations, simulated transcripts and degenerate signatures",
         "Every proof type, group and N: honest proofs; each atom replaced in turn (other valid point, identity, scalar +-1, random); wrong challenges; fresh and atom-wise altered parameters; simulated transcripts (T computed from c and chosen responses: accepted under c, rejected under c'), compensated changes, objects assembled without an opening; signature proofs around signatures made all-identity through a scripted RNG (checked in memory since they do not decode). Verifier result must equal the reference in both directions; the three conjuncts of the signature-proof relation are each observed false on their own.",
         "A Challenge can only be obtained from ChallengeBuilder, so hand-picked challenges (0, c+1) are out of reach.",
         "DESIGN.md §4 C11"),
 "C13": ("fault_enumeration",
         "runtime monitoring: range prover domain, link/parameter/challenge mismatches, attacker-assembled constraints from the published digit signatures (layout observed, not hard-coded), and validate() against 128 reference verifications",
         "The prover must refuse every negative i64 of the boundary set and random negatives and accept every in-range value; honest constraints linked to commitment / signature / signature-request proofs verify with the linked slot and reject under seven mismatches (other slots, response+1, plain value, zero, other parameters, other challenge). The forger (shadow RangeProver; L and U read from a traced honest constraint and parameter set) assembles constraints for 2^63, 2^63+1, 2^64-1, q-1, q-2^63 with residue / all-max / outside-alphabet / negative / lowered-top digits, swapped digits, signatures claimed for other digits, digits of another value: none may verify while the linked value is outside [0,2^63); all-max (2^63-1) must verify. validate(): one signature replaced by another digit's, a random pair, or a re-randomised valid one, compared with 128 reference verifications.",
         "Explicit forger family only.",
         "DESIGN.md §4 C13"),
 "C12": ("exploration",
         "runtime monitoring: differential over wire atoms - replace one first-message atom, challenge must move; merchant-side challenge observed through the challenge-recorder hook",
         "Library level: for every proof type, group and tuple length the builder's challenge must equal the finished proof's, and every non-response atom (identified by answering one builder under two challenges, cross-checked against field names) as well as every atom of every other ChallengeInput type (keys, Pedersen and range parameters, signatures, commitments, bare elements, byte strings, Context inputs of length 0..64 with every byte flipped) is replaced by a different valid encoding and the recomputed challenge must differ. zkAbacus level: the real customer prover is run twice with identical randomness and different contexts to find the atoms fixed before the challenge; each is replaced in turn in an EstablishProof / PayProof that is then fed to the real initialize / allow_payment and the challenge recorded by the hook must differ from the original's; likewise for each public value, the key, the range parameters and context bytes. Exhaustive over atoms of one instance per type in the quick tier.",
         "A response scalar with a zero message entry does not move with the challenge, so atoms named response scalars are treated as responses (stated in c12.rs). Hash collisions are treated as impossible.",
         "DESIGN.md §4 C12"),
 "C15": ("fault_enumeration",
         "runtime monitoring: wire tracer enumerates every atom of every serializable type; decode-time invariant table checked by substitution; behavioural twin checks of decoded keys/parameters",
         "Every serializable type of both crates (all tuple lengths of the tier, the five customer stages from a real session) is round-tripped; every atom of every honest encoding is replaced in turn by each encoding its position forbids (off-curve, out-of-subgroup, flag patterns, scalar >= q everywhere; identity / zero / close tag / unmatched lock, secret, index / balance >= 2^63 by position) and the decoder must refuse, while valid alternatives must still round trip. Decoded keys, parameters and merchant parts are used against the originals. Exhaustive over atoms x table for one instance per type; the layout is observed from the Serialize impls, not hard-coded.",
         "Trusts the tracer (self-checked against bincode::serialize on every value), bls12_381's own point/scalar decoding for classifying encodings, and the position table in c15.rs.",
         "DESIGN.md §4 C15"),
 "C16": ("fault_enumeration",
         "runtime monitoring: panic hook + tracking allocator + process supervisor over structure-aware decoder inputs (thorough: also Miri / ASan / valgrind memcheck on the corpus)",
         "Every Deserialize type of both crates and wrappers around the public element codecs are fed every length-prefix mutation (0, n-1, n+1 with and without valid extra elements, 2n, 2^24, 2^32, 2^40 with 64 elements, 2^60, 2^64-1), every atom replaced by invalid / boundary encodings, truncation at and inside every atom, extensions, random strings, random tails and bit flips. One input = one supervised case: panics are recorded by the hook, allocations by a tracking allocator (largest single request <= 16*len+1MiB, peak <= 32*len+2MiB; 1 MiB is the constant pre-allocation cap serde itself uses for untrusted size hints), and a worker death (abort) is attributed to the open case by the supervisor.",
         "Allocation bounds are the harness's reading of 'out of proportion' (honest decodes stay below 2.1x input length). Sanitizer layers cover only what Miri/ASan/memcheck can execute in the time budget (see DESIGN.md I8).",
         "DESIGN.md §4 C16"),
 "C17": ("exploration",
         "runtime monitoring: i128 reference ledger over boundary-lattice and random inputs, overflow checks on, panics observed per call",
         "The real constructors, balance addition, payment application (through Ready states decoded from crafted bytes), the merchant's handling of wire-decoded amounts and full honest boundary payments are executed on every triple of the 64-bit boundary lattice plus seeded random triples; each result is compared with 128-bit arithmetic and every panic is recorded. Exhaustive on the lattice, sampled elsewhere.",
         "Trusts the harness ledger (15 lines of i128 arithmetic) and bincode 1.3.3; verdict covers the observed inputs only.",
         "DESIGN.md §4 C17"),
}

# passes added after the first version of each monitor (rounds 1-3 of the seeded changes, DESIGN.md §10.6)
ADDED = {
 "C01": "Added later: neighbouring-message checks on every issued signature, opposite-sign witnesses, the honest proof under a channel id differing in one bit. When the shadow control is refused but the library customer is accepted, the customer's closing signature is checked against the agreed message by the reference.",
 "C02": "Added later: a tracker that fires when one pay token is accepted under two public nonces, compensating plans (nonce+1 balanced in another slot), boundary bases, and the closing signature of the old state spent as pay token under a fresh nonce. A token made of curve points outside the prime-order group; the byte-identical blinded token of an earlier accepted proof replayed around another commitment.",
 "C03": "Added later: in-memory identity replies for the four merchant calls, replies made of small-order points. Channel id changed in one of its two top bits; another customer's honest reply delivered first at each of the four reply points.",
 "C04": "Added later: every stage names the channel it was opened for (accessor against the session's id).",
 "C05": "Added later: band digests and crafted pair generation, the C02 forger's committed-lock plans under all strategies. A payment whose revocation commitment uses the blinding factor zero.",
 "C06": "Added later: all 256 channel-id bits, near range parameters, per-key-element substitution, a degenerate in-memory closing signature, digest-of-context contexts, wire amounts including i64::MIN. The same substitutions with the proof handed over as an in-memory object.",
 "C07": "Added later: zero-exponent messages, signing under zero windows, a crafted-key case. Word-sized message entries; is_well_formed compared with its definition.",
 "C08": "Added later: zero-randomiser signer, decode probe of VerifiedBlindedMessage, order-3 shift tamper, corrupted signer key. +1/-1 on a pair of coordinates and exchanged coordinates; the request about the identity element; second verification of the same request.",
 "C09": "Added later: generated parameters under zero windows. Word-sized exponents and blinding factors; a second key sharing both generators read after the first; the negated opening.",
 "C10": "Added later: word-sized values, new() versus default constructors. Every honest proof verified twice and after a trip through its wire form; signature proofs under scripted zero draws.",
 "C11": "Added later: non-canonical (+q) scalars, length prefixes, order-3 shifts, simulated transcripts with machine-word-sized responses and about the identity statement. One decoded object verified under alternating challenges; blinding factor related to key and message.",
 "C12": "Added later: every parameter atom, related-context corpus, constructors. Negated points, small scalar sequences, call-history independence of the challenge.",
 "C13": "Added later: coordinated pairs of invalid digit proofs, cooperating sigma2 substitutions in validate(), a digit signature extrapolated from two published ones, and an adaptive prover that re-fits one digit proof after the challenge. A top digit signed by curve points outside the group.",
 "C14": "Added later: an entropy-failure pass, hostile range parameters (crafted elements, digit signatures made of small-order points) with sessions judged even when cut short.",
 "C15": "Added later: length prefixes, RevocationLock::from_bytes.",
 "C16": "Added later: a JSON pass, ChannelId::from_str on hostile strings including multi-byte characters at every alignment, wide instantiations (N=13, 40 scalars) in the quick tier. Length prefixes whose product with an element size wraps.",
 "C17": "Added later: cross-amount checks (a proof made for X offered under Y at the encoding boundaries). The named zero constructors.",
 "C18": "Added later: tag+q sample pattern, single key elements in the channel id, account infos up to 8 KiB with the last byte changed, a close-tag forger on the establish side and the closing signature spent as pay token on the pay side. Tag patterns for draws of any length; empty / whitespace / invalid-UTF-8 account infos; randomness + q.",
 "C19": "Added later: samples q, 2q, 256q (reduce to zero), and algebraically related samples (x = -sum y_i m_i; range key x = -d*y) that make a legitimate signature with sigma2 = identity.",
 "C20": "Added later: histories with a zero or close-tag scalar sample, and a JSON store format (alone and alternating with the binary one) on balances around 2^53. Several refused replies in a row before a restore.",
}

IMPLEMENTED = set(CHECKS)
ALL = ["C%02d" % i for i in range(1, 21)]

def main():
    checks = []
    for pid in ALL:
        if pid not in CHECKS:
            continue
        cat, tech, text, note, ref = CHECKS[pid]
        if pid in ADDED:
            text = text + " " + ADDED[pid]
        checks.append({
            "property_id": pid,
            "quick_cmd": "./check %s --tier quick" % pid,
            "thorough_cmd": "./check %s --tier thorough" % pid,
            "evidence_file": "/verif/evidence/%s.json" % pid,
            "replay_cmd_template": "./check %s --replay {path}" % pid,
            "engine": "zkmon",
            "level_claimed": {"category": cat, "text": text, "design_ref": ref},
            "level_note": note,
            "technique": tech,
        })
    na = [{"property_id": pid, "reason": "monitor not built yet (work in progress; see DESIGN.md §4 for the planned monitor)"}
          for pid in ALL if pid not in CHECKS]
    m = {
        "version": 1,
        "setup_cmd": "./check --setup",
        "hooks": {
            "guard": "verif-hooks",
            "enable": "cargo feature `verif-hooks` of zkchannels-crypto; the harness crate (/verif/harness) depends on /repo/zkchannels-crypto with features=[\"verif-hooks\"]",
            "baseline_off_cmd": "cd /repo && cargo nextest run --workspace --no-fail-fast --offline || cargo test --workspace --no-fail-fast --offline",
            "source_commits": HOOK_COMMITS,
            "add_only": True,
        },
        "engines": [{
            "name": "zkmon",
            "path": "/verif/harness",
            "serves_properties": sorted(IMPLEMENTED),
            "kind_free_text": "Rust worker (runtime monitors: reference oracles, challenge-recorder hook, wire tracer, scripted RNG, shadow prover, session driver with fault injection, tracking allocator) driven by the python supervisor /verif/check; Miri / ASan / memcheck layers for the decoder properties",
        }],
        "checks": checks,
        "notes": "Runtime monitoring and sanitizers only. Verdicts are three-valued: exit 0 held on what was observed, exit 1 VIOLATION, exit 2 INCONCLUSIVE (never a VIOLATION line). VERIF_SEED and VERIF_TIER are honoured.",
        "not_applicable": na,
    }
    with open(os.path.join(HERE, "MANIFEST.json"), "w") as f:
        json.dump(m, f, indent=1)
    print("MANIFEST.json: %d checks, %d not claimed" % (len(checks), len(na)))

if __name__ == "__main__":
    main()
