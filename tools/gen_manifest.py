#!/usr/bin/env python3
"""Regenerates /verif/MANIFEST.json from the table below; only implemented monitors are claimed."""
import json, os, sys
HERE = os.path.dirname(os.path.dirname(os.path.abspath(__file__)))

HOOK_COMMITS = ["e39f3f7"]

# id -> (category, technique, text, note, design_ref)
CHECKS = {
 "C01": ("fault_enumeration",
         "runtime monitoring: adversarial shadow prover against the real merchant, verifier challenge read through the challenge-recorder hook, oracle = merchant signature verifying on a false message (pairing reference + Signature::verify)",
         "For several merchant configurations and agreed (channel id, balances, context) tuples, an independent prover written on bls12_381 arithmetic builds establish proofs for ~35 false (state, close state) witnesses (each slot, each message, cross-slot, out-of-range) under four strategy families: honest-but-lying, answer-as-if-agreed (exactly the Schnorr relation false), and post-challenge choice of each non-response field (T of either proof, each revealed commitment scalar, C) iterated up to three rounds with the verifier's challenge read through the hook. Every proof goes to the real initialize(); an alarm requires the returned closing signature or pay token, unblinded with the forger's factor, to verify on a message that differs from the agreed one. Positive control (true witness through the same machinery) must be accepted.",
         "Soundness is decided against this explicit forger family only, not against all provers. Trusts bls12_381, the pairing reference (cross-checked against Signature::verify on every accepted case) and the hook (observes, never alters, the challenge).",
         "DESIGN.md §4 C01"),
 "C02": ("fault_enumeration",
         "runtime monitoring: adversarial shadow pay prover holding a real pay token against the real merchant, verifier challenge through the hook, oracle = closing signature verifying on a false close state / token link false by pairing reference / completion with a foreign revocation pair",
         "From honest channel histories (0-3 payments, boundary balances) the harness reads the customer's real pay token and old state, then an independent prover (bls12_381 arithmetic, 18 digit proofs included) builds pay proofs for ~45 false variants per base: wrong public nonce, amount wrong on either balance or in only one of state/close state, foreign channel id, close-tag slot replaced, old/new lock mismatch, foreign/tampered/random token, old state richer than the token, and out-of-range balances (-1, 2^63) with the attacker's best digit constraints (residue, all-max, digit outside the alphabet under another digit's signature, negative digit). Strategies: honest-but-lying, answer-as-if-true, post-challenge choice of every scalar commitment and of the two revealed commitment scalars, iterated with the challenge read through the hook. Falsity is recomputed from what the forger holds; an alarm needs an exhibited witness. Positive control per base.",
         "Soundness is decided against this explicit forger family only. Trusts bls12_381, the pairing reference, the hook.",
         "DESIGN.md §4 C02"),
 "C12": ("exploration",
         "runtime monitoring: differential over wire atoms - replace one first-message atom, challenge must move; merchant-side challenge observed through the challenge-recorder hook",
         "Library level: for every proof type, group and tuple length the builder's challenge must equal the finished proof's, and every non-response atom (identified by answering one builder under two challenges, cross-checked against field names) as well as every atom of every other ChallengeInput type (keys, Pedersen and range parameters, signatures, commitments, bare elements, byte strings, Context inputs of length 0..64 with every byte flipped) is replaced by a different valid encoding and the recomputed challenge must differ. zkAbacus level: the real customer prover is run twice with identical randomness and different contexts to find the atoms fixed before the challenge; each is replaced in turn in an EstablishProof / PayProof that is then fed to the real initialize / allow_payment and the challenge recorded by the hook must differ from the original's; likewise for each public value, the key, the range parameters and context bytes. Exhaustive over atoms of one instance per type in the quick tier.",
         "A response scalar with a zero message entry does not move with the challenge, so atoms named response scalars are treated as responses (stated in c12.rs). Hash collisions are treated as impossible.",
         "DESIGN.md §4 C12"),
 "C15": ("fault_enumeration",
         "runtime monitoring: wire tracer enumerates every atom of every serializable type; decode-time invariant table checked by substitution; behavioural twin checks of decoded keys/parameters",
         "Every serializable type of both crates (all tuple lengths of the tier, the five customer stages from a real session) is round-tripped; every atom of every honest encoding is replaced in turn by each encoding its position forbids (off-curve, out-of-subgroup, flag patterns, scalar >= q everywhere; identity / zero / close tag / unmatched lock, secret, index / balance >= 2^63 by position) and the decoder must refuse, while valid alternatives must still round trip. Decoded keys, parameters and merchant parts are used against the originals. Exhaustive over atoms x table for one instance per type; the layout is observed from the Serialize impls, not hard-coded.",
         "Trusts the tracer (self-checked against bincode::serialize on every value), bls12_381's own point/scalar decoding for classifying encodings, and the position table in c15.rs.",
         "DESIGN.md §4 C15"),
 "C16": ("fault_enumeration",
         "runtime monitoring: panic hook + tracking allocator + process supervisor over structure-aware decoder inputs (thorough: also Miri / ASan / valgrind memcheck on the corpus)",
         "Every Deserialize type of both crates and wrappers around the public element codecs are fed every length-prefix mutation (0, n-1, n+1 with and without valid extra elements, 2n, 2^24, 2^32, 2^40 with 64 elements, 2^60, 2^64-1), every atom replaced by invalid / boundary encodings, truncation at and inside every atom, extensions, random strings, random tails and bit flips. One input = one supervised case: panics are recorded by the hook, allocations by a tracking allocator (largest single request <= 16*len+64KiB, peak <= 32*len+256KiB), and a worker death (abort) is attributed to the open case by the supervisor.",
         "Allocation bounds are the harness's reading of 'out of proportion' (honest decodes stay below 2.1x input length). Sanitizer layers cover only what Miri/ASan/memcheck can execute in the time budget (see DESIGN.md I8).",
         "DESIGN.md §4 C16"),
 "C17": ("exploration",
         "runtime monitoring: i128 reference ledger over boundary-lattice and random inputs, overflow checks on, panics observed per call",
         "The real constructors, balance addition, payment application (through Ready states decoded from crafted bytes), the merchant's handling of wire-decoded amounts and full honest boundary payments are executed on every triple of the 64-bit boundary lattice plus seeded random triples; each result is compared with 128-bit arithmetic and every panic is recorded. Exhaustive on the lattice, sampled elsewhere.",
         "Trusts the harness ledger (15 lines of i128 arithmetic) and bincode 1.3.3; verdict covers the observed inputs only.",
         "DESIGN.md §4 C17"),
}

IMPLEMENTED = set(CHECKS)
ALL = ["C%02d" % i for i in range(1, 21)]

def main():
    checks = []
    for pid in ALL:
        if pid not in CHECKS:
            continue
        cat, tech, text, note, ref = CHECKS[pid]
        checks.append({
            "property_id": pid,
            "quick_cmd": "./check %s --tier quick" % pid,
            "thorough_cmd": "./check %s --tier thorough" % pid,
            "evidence_file": "/verif/evidence/%s.json" % pid,
            "replay_cmd_template": "./check %s --replay {path}" % pid,
            "engine": "zkmon",
            "level_claimed": {"category": cat, "text": text, "design_ref": ref},
            "level_note": note,
            "technique": tech,
        })
    na = [{"property_id": pid, "reason": "monitor not built yet (work in progress; see DESIGN.md §4 for the planned monitor)"}
          for pid in ALL if pid not in CHECKS]
    m = {
        "version": 1,
        "setup_cmd": "./check --setup",
        "hooks": {
            "guard": "verif-hooks",
            "enable": "cargo feature `verif-hooks` of zkchannels-crypto; the harness crate (/verif/harness) depends on /repo/zkchannels-crypto with features=[\"verif-hooks\"]",
            "baseline_off_cmd": "cd /repo && cargo nextest run --workspace --no-fail-fast --offline || cargo test --workspace --no-fail-fast --offline",
            "source_commits": HOOK_COMMITS,
            "add_only": True,
        },
        "engines": [{
            "name": "zkmon",
            "path": "/verif/harness",
            "serves_properties": sorted(IMPLEMENTED),
            "kind_free_text": "Rust worker (runtime monitors: reference oracles, challenge-recorder hook, wire tracer, scripted RNG, shadow prover, session driver with fault injection, tracking allocator) driven by the python supervisor /verif/check; Miri / ASan / memcheck layers for the decoder properties",
        }],
        "checks": checks,
        "notes": "Runtime monitoring and sanitizers only. Verdicts are three-valued: exit 0 held on what was observed, exit 1 VIOLATION, exit 2 INCONCLUSIVE (never a VIOLATION line). VERIF_SEED and VERIF_TIER are honoured.",
        "not_applicable": na,
    }
    with open(os.path.join(HERE, "MANIFEST.json"), "w") as f:
        json.dump(m, f, indent=1)
    print("MANIFEST.json: %d checks, %d not claimed" % (len(checks), len(na)))

if __name__ == "__main__":
    main()
