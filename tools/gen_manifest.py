#!/usr/bin/env python3
"""Regenerates /verif/MANIFEST.json from the table below; only implemented monitors are claimed."""
import json, os, sys
HERE = os.path.dirname(os.path.dirname(os.path.abspath(__file__)))

HOOK_COMMITS = ["e39f3f7"]

# id -> (category, technique, text, note, design_ref)
CHECKS = {
 "C17": ("exploration",
         "runtime monitoring: i128 reference ledger over boundary-lattice and random inputs, overflow checks on, panics observed per call",
         "The real constructors, balance addition, payment application (through Ready states decoded from crafted bytes), the merchant's handling of wire-decoded amounts and full honest boundary payments are executed on every triple of the 64-bit boundary lattice plus seeded random triples; each result is compared with 128-bit arithmetic and every panic is recorded. Exhaustive on the lattice, sampled elsewhere.",
         "Trusts the harness ledger (15 lines of i128 arithmetic) and bincode 1.3.3; verdict covers the observed inputs only.",
         "DESIGN.md §4 C17"),
}

IMPLEMENTED = set(CHECKS)
ALL = ["C%02d" % i for i in range(1, 21)]

def main():
    checks = []
    for pid in ALL:
        if pid not in CHECKS:
            continue
        cat, tech, text, note, ref = CHECKS[pid]
        checks.append({
            "property_id": pid,
            "quick_cmd": "./check %s --tier quick" % pid,
            "thorough_cmd": "./check %s --tier thorough" % pid,
            "evidence_file": "/verif/evidence/%s.json" % pid,
            "replay_cmd_template": "./check %s --replay {path}" % pid,
            "engine": "zkmon",
            "level_claimed": {"category": cat, "text": text, "design_ref": ref},
            "level_note": note,
            "technique": tech,
        })
    na = [{"property_id": pid, "reason": "monitor not built yet (work in progress; see DESIGN.md §4 for the planned monitor)"}
          for pid in ALL if pid not in CHECKS]
    m = {
        "version": 1,
        "setup_cmd": "./check --setup",
        "hooks": {
            "guard": "verif-hooks",
            "enable": "cargo feature `verif-hooks` of zkchannels-crypto; the harness crate (/verif/harness) depends on /repo/zkchannels-crypto with features=[\"verif-hooks\"]",
            "baseline_off_cmd": "cd /repo && cargo nextest run --workspace --no-fail-fast --offline || cargo test --workspace --no-fail-fast --offline",
            "source_commits": HOOK_COMMITS,
            "add_only": True,
        },
        "engines": [{
            "name": "zkmon",
            "path": "/verif/harness",
            "serves_properties": sorted(IMPLEMENTED),
            "kind_free_text": "Rust worker (runtime monitors: reference oracles, challenge-recorder hook, wire tracer, scripted RNG, shadow prover, session driver with fault injection, tracking allocator) driven by the python supervisor /verif/check; Miri / ASan / memcheck layers for the decoder properties",
        }],
        "checks": checks,
        "notes": "Runtime monitoring and sanitizers only. Verdicts are three-valued: exit 0 held on what was observed, exit 1 VIOLATION, exit 2 INCONCLUSIVE (never a VIOLATION line). VERIF_SEED and VERIF_TIER are honoured.",
        "not_applicable": na,
    }
    with open(os.path.join(HERE, "MANIFEST.json"), "w") as f:
        json.dump(m, f, indent=1)
    print("MANIFEST.json: %d checks, %d not claimed" % (len(checks), len(na)))

if __name__ == "__main__":
    main()
