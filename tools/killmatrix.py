#!/usr/bin/env python3
"""Writes the 'which checks catch which changes' tables of DESIGN.md (between the KILLMATRIX markers)
from /verif/seeded/*/meta.json and /verif/selftest/results-mutants.json."""
import json, os, re
VERIF = os.path.dirname(os.path.dirname(os.path.abspath(__file__)))

def short(s, n=150):
    s = " ".join((s or "").split())
    return s if len(s) <= n else s[: n - 1] + "…"

def main():
    out = []
    out.append("#### Changes seeded by independent sub-agents (each given only the property text and a scratch worktree)\n")
    out.append("Every change below was confirmed by me in a scratch worktree: it applies to HEAD, the 104 baseline tests pass with it, "
               "its demonstration fails with it and passes without it. `detected by` lists the checks run against it (quick tier, `VERIF_REPO` = scratch worktree with the patch).\n")
    out.append("| change | what it does | needs, to manifest | detected by | first signature | harness frozen before the change was seen |")
    out.append("|---|---|---|---|---|---|")
    sd = os.path.join(VERIF, "seeded")
    missed = []
    for n in sorted(os.listdir(sd)):
        mp = os.path.join(sd, n, "meta.json")
        if not os.path.exists(mp):
            continue
        m = json.load(open(mp))
        det = m.get("detected_by") or {}
        hits = [p for p, v in det.items() if v.get("violation")]
        miss = [p for p, v in det.items() if not v.get("violation")]
        sig = ""
        for p in hits:
            sigs = det[p].get("signatures") or []
            if sigs:
                sig = sigs[0].replace("signature: ", "")
                break
        if not hits:
            missed.append(n)
        cell = ", ".join(hits) if hits else "**missed**"
        if miss and hits:
            cell += " (not by " + ", ".join(miss) + ")"
        if not det:
            cell = "(not run yet)"
        if m.get("undetected_reason") and not hits:
            cell = "not detected — " + m["undetected_reason"]
        fz = m.get("frozen_harness_before_round2") or m.get("frozen_harness_before_round3") or m.get("frozen_harness_before_round4")
        fzc = "" if fz is None else ("detected" if fz.get("detected_by_own_property_check") else "missed (exit %s)" % fz.get("exit"))
        if fz is None and (n.endswith("-a") or n.endswith("-b")):
            fzc = m.get("first_run_note", "detected on first run")
        out.append("| %s | %s | %s | %s | `%s` | %s |" % (n, short(m.get("breaks"), 170).replace("|", "/"), short(m.get("needs_to_manifest"), 150).replace("|", "/"), cell, short(sig, 110).replace("|", "/"), fzc))
    out.append("")
    rp2 = os.path.join(VERIF, "selftest", "results-mutants-idea-review.json")
    if os.path.exists(rp2):
        out.append("#### Mutants written after the idea review (`selftest/mutants-idea-review/`)\n")
        out.append("| mutant | 104 baseline tests | expected | reported VIOLATION |")
        out.append("|---|---|---|---|")
        for r in json.load(open(rp2)):
            out.append("| %s | %s | %s | %s |" % (r["mutant"], "pass" if r.get("baseline_pass") else ("fail" if "baseline_pass" in r else "-"), ", ".join(r["expected"]), ", ".join(r.get("killed_by", [])) or "**none**"))
        out.append("")
    rp = os.path.join(VERIF, "selftest", "results-mutants.json")
    if os.path.exists(rp):
        res = json.load(open(rp))
        out.append("#### Hand-written kill matrix (`selftest/make_mutants.py`; `selftest/run.py --baseline`)\n")
        out.append("| mutant | 104 baseline tests | expected | reported VIOLATION | not reported by |")
        out.append("|---|---|---|---|---|")
        for r in res:
            if not r.get("applied"):
                out.append("| %s | patch does not apply | | | |" % r["mutant"]); continue
            killed = r.get("killed_by", [])
            notk = [p for p in r.get("expected", []) if p not in killed]
            notes = []
            for p in notk:
                ex = r["checks"][p]["exit"]
                notes.append("%s (exit %s%s)" % (p, ex, ": inconclusive" if ex == 2 else ""))
            out.append("| %s | %s | %s | %s | %s |" % (r["mutant"], {True: "pass", False: "FAIL (not a realistic mutant)", None: "-"}[r.get("baseline_pass")],
                                                  ", ".join(r.get("expected", [])), ", ".join(killed) or "**none**", ", ".join(notes)))
        out.append("")
    text = "\n".join(out)
    p = os.path.join(VERIF, "DESIGN.md")
    s = open(p).read()
    b, e = "<!-- KILLMATRIX:BEGIN -->", "<!-- KILLMATRIX:END -->"
    if b not in s:
        s = s.rstrip("\n") + "\n\n### 10.6 Which checks catch which changes\n\n" + b + "\n" + e + "\n"
    s = s[: s.index(b) + len(b)] + "\n" + text + "\n" + s[s.index(e):]
    open(p, "w").write(s)
    print("seeded missed:", missed)

if __name__ == "__main__":
    main()
