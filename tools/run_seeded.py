#!/usr/bin/env python3
"""Runs the registered checks against the seeded changes under /verif/seeded/ (scratch worktree,
VERIF_REPO), and records in each meta.json which checks reported a VIOLATION.
usage: run_seeded.py [--extra C07,C11] [names...]   (default: all; each is run against its own property)"""
import json, os, shutil, subprocess, sys
VERIF = os.path.dirname(os.path.dirname(os.path.abspath(__file__)))
SEEDED = os.path.join(VERIF, "seeded")
TMP = "/tmp/seeded-diffs"

def main():
    args = sys.argv[1:]
    extra = []
    if "--extra" in args:
        i = args.index("--extra"); extra = args[i + 1].split(","); del args[i:i + 2]
    names = args or sorted(os.listdir(SEEDED))
    shutil.rmtree(TMP, ignore_errors=True); os.makedirs(TMP)
    index = []
    for n in names:
        d = os.path.join(SEEDED, n)
        if not os.path.exists(os.path.join(d, "patch.diff")):
            continue
        shutil.copy(os.path.join(d, "patch.diff"), os.path.join(TMP, n + ".diff"))
        meta = json.load(open(os.path.join(d, "meta.json")))
        index.append({"name": n, "expected": [meta["property"]] + [e for e in extra if e != meta["property"]]})
    json.dump(index, open(os.path.join(TMP, "index.json"), "w"))
    env = dict(os.environ); env["SELFTEST_WT"] = "/tmp/seeded-wt"
    subprocess.run([sys.executable, os.path.join(VERIF, "selftest", "run.py"), "--dir", TMP], env=env)
    res = json.load(open(os.path.join(VERIF, "selftest", "results-seeded-diffs.json")))
    for r in res:
        mp = os.path.join(SEEDED, r["mutant"], "meta.json")
        meta = json.load(open(mp))
        prev = meta.get("detected_by") or {}
        for prop, v in r.get("checks", {}).items():
            prev[prop] = {"violation": v["violation"], "exit": v["exit"], "signatures": v["signatures"][:3], "command": "./check %s --tier quick (VERIF_REPO=scratch worktree with the patch applied)" % prop}
        meta["detected_by"] = prev
        json.dump(meta, open(mp, "w"), indent=1)
    shutil.rmtree(TMP, ignore_errors=True)

if __name__ == "__main__":
    main()
