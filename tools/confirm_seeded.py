#!/usr/bin/env python3
"""Confirms a sub-agent's seeded change in its scratch worktree and files it under /verif/seeded/<id>-<v>/.

For /tmp/wt/<ID>-out/<v>/{patch.diff,demo.rs,demo_setup.md,meta.json} and the worktree /tmp/wt/<ID>:
  1. patch applies to a clean HEAD, the workspace builds, the 104 baseline tests pass with it;
  2. the demonstration FAILS with the patch;
  3. the demonstration PASSES without it.
usage: confirm_seeded.py ID v [ID v ...]"""
import json, os, re, shutil, subprocess, sys, time
VERIF = os.path.dirname(os.path.dirname(os.path.abspath(__file__)))

def sh(cmd, cwd, timeout=3600):
    p = subprocess.run(cmd, cwd=cwd, shell=isinstance(cmd, str), stdout=subprocess.PIPE, stderr=subprocess.STDOUT, text=True, timeout=timeout)
    return p.returncode, p.stdout

def confirm(pid, v):
    wt = "/tmp/wt/%s" % pid
    src = "/tmp/wt/%s-out/%s" % (pid, v)
    setup = open(os.path.join(src, "demo_setup.md")).read()
    meta = json.load(open(os.path.join(src, "meta.json")))
    m = re.search(r"cargo test[^\n`]*", setup)
    cmdline = m.group(0).strip() if m else ""
    crate = "zkchannels-crypto" if "-p zkchannels-crypto" in cmdline else "zkabacus-crypto"
    feat = "--features bincode" in cmdline or 'cfg(feature = "bincode")' in open(os.path.join(src, "demo.rs")).read()
    tname = "demo_%s_%s" % (pid.lower(), v)
    mt = re.search(r"--test (\S+)", cmdline)
    if mt:
        tname = mt.group(1)
    log = {"worktree": wt, "crate": crate, "demo_command": None}
    def clean():
        sh("git checkout -- . && git clean -fdq -e target -e Cargo.lock", wt)
    clean()
    rc, out = sh(["git", "apply", os.path.join(src, "patch.diff")], wt)
    log["patch_applies"] = rc == 0
    if rc != 0:
        log["error"] = out[-400:]; return log
    t0 = time.time()
    rc, out = sh("cargo nextest run --workspace --no-fail-fast --offline 2>&1 | tail -4", wt)
    log["baseline_with_patch"] = out.strip().splitlines()[-1] if out.strip() else ""
    log["baseline_pass"] = "104 passed" in out and "failed" not in out.split("Summary")[-1]
    # install the demo
    tdir = os.path.join(wt, crate, "tests"); os.makedirs(tdir, exist_ok=True)
    shutil.copy(os.path.join(src, "demo.rs"), os.path.join(tdir, tname + ".rs"))
    if not feat:
        toml = os.path.join(wt, crate, "Cargo.toml")
        txt = open(toml).read()
        if "[dev-dependencies]" in txt and 'bincode = "1.3.3"' not in txt.split("[dev-dependencies]")[1]:
            open(toml, "a").write('\nbincode = "1.3.3"\n')
    if "serde_json" in open(os.path.join(src, "demo.rs")).read():
        toml = os.path.join(wt, crate, "Cargo.toml")
        if "serde_json" not in open(toml).read():
            if feat and "[dev-dependencies]" in open(toml).read() and 'bincode = "1.3.3"' not in open(toml).read().split("[dev-dependencies]")[1]:
                open(toml, "a").write('\nbincode = "1.3.3"\n')
            open(toml, "a").write('\nserde_json = "1"\n')
    demo = "cargo test -p %s %s--test %s --offline" % (crate, "--features bincode " if feat else "", tname)
    log["demo_command"] = demo
    rc1, out1 = sh(demo + " 2>&1 | tail -25", wt)
    log["demo_with_patch"] = "FAILED" if ("FAILED" in out1 or "failed" in out1 and "test result: ok" not in out1) else ("ok" if "test result: ok" in out1 else "?")
    log["demo_with_patch_tail"] = out1[-600:]
    rc, out = sh(["git", "apply", "-R", os.path.join(src, "patch.diff")], wt)
    rc2, out2 = sh(demo + " 2>&1 | tail -8", wt)
    log["demo_without_patch"] = "ok" if "test result: ok" in out2 and "FAILED" not in out2 else "FAILED"
    log["demo_without_patch_tail"] = out2[-300:]
    clean()
    log["confirmed"] = bool(log["patch_applies"] and log["baseline_pass"] and log["demo_with_patch"] == "FAILED" and log["demo_without_patch"] == "ok")
    log["wall_s"] = round(time.time() - t0)
    if log["confirmed"]:
        dst = os.path.join(VERIF, "seeded", "%s-%s" % (pid, v)); os.makedirs(dst, exist_ok=True)
        for f in ("patch.diff", "demo.rs", "demo_setup.md"):
            shutil.copy(os.path.join(src, f), os.path.join(dst, f))
        meta_out = {"property": pid, "breaks": meta.get("summary"), "needs_to_manifest": meta.get("needs_to_manifest"),
                    "files_touched": meta.get("files_touched"), "source": "independent sub-agent given only the property text and a scratch worktree",
                    "confirmed_by_me": {"baseline_with_patch": log["baseline_with_patch"], "demo_command": demo,
                                        "demo_with_patch": log["demo_with_patch"], "demo_without_patch": log["demo_without_patch"]},
                    "detected_by": None}
        json.dump(meta_out, open(os.path.join(dst, "meta.json"), "w"), indent=1)
    return log

def main():
    a = sys.argv[1:]
    res = {}
    for i in range(0, len(a), 2):
        k = "%s-%s" % (a[i], a[i + 1])
        try:
            res[k] = confirm(a[i], a[i + 1])
        except Exception as e:
            res[k] = {"error": repr(e)}
        print(k, json.dumps({x: res[k].get(x) for x in ("patch_applies", "baseline_pass", "demo_with_patch", "demo_without_patch", "confirmed", "wall_s", "error")}), flush=True)
    json.dump(res, open("/tmp/wt/confirm-%d.json" % os.getpid(), "w"), indent=1)

if __name__ == "__main__":
    main()
