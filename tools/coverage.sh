#!/bin/bash
# Development aid (not a registered check): which lines of /repo do the quick workloads of all twenty
# monitors execute?  Builds the worker with -Cinstrument-coverage (nightly toolchain, which carries
# llvm-cov / llvm-profdata) into /verif/target-cov, runs every property's quick tier in 16 shards, merges
# the profiles and writes tools/coverage-report.txt (per-file summary + uncovered lines of non-test code).
set -u
HERE=$(cd "$(dirname "$0")/.." && pwd)
BIN=$(rustc +nightly --print sysroot)/lib/rustlib/x86_64-unknown-linux-gnu/bin
OUT=${COV_OUT:-/tmp/zkmon-cov}
PROPS=${*:-C01 C02 C03 C04 C05 C06 C07 C08 C09 C10 C11 C12 C13 C14 C15 C16 C17 C18 C19 C20}
rm -rf "$OUT"; mkdir -p "$OUT/prof" "$OUT/w"
# build scripts and proc macros are instrumented too: keep their profiles out of the source trees
export LLVM_PROFILE_FILE="$OUT/prof/build-%p-%m.profraw"
export CARGO_NET_OFFLINE=true CARGO_TARGET_DIR=$HERE/target-cov RUSTFLAGS="-Cinstrument-coverage"
(cd "$HERE/harness" && cargo +nightly build --release --offline --quiet) || { echo "coverage build failed"; exit 2; }
W=$CARGO_TARGET_DIR/release/zkmon
for p in $PROPS; do
  for i in $(seq 0 15); do
    LLVM_PROFILE_FILE="$OUT/prof/$p-$i-%p.profraw" "$W" "$p" --tier quick --seed "${VERIF_SEED:-0}" --shard "$i/16" \
      --out "$OUT/w/$p-$i.json" --progress "$OUT/w/$p-$i.progress" --param repo=/repo >/dev/null 2>"$OUT/w/$p-$i.stderr" &
  done
  wait
  echo "ran $p"
done
"$BIN/llvm-profdata" merge -sparse "$OUT"/prof/*.profraw -o "$OUT/all.profdata" || exit 2
"$BIN/llvm-cov" report "$W" -instr-profile="$OUT/all.profdata" /repo/zkchannels-crypto/src /repo/zkabacus-crypto/src > "$OUT/summary.txt"
"$BIN/llvm-cov" show "$W" -instr-profile="$OUT/all.profdata" /repo/zkchannels-crypto/src /repo/zkabacus-crypto/src \
   -show-line-counts-or-regions -show-instantiations=false > "$OUT/show.txt"
python3 - "$OUT" "$HERE/tools/coverage-report.txt" <<'E'
import sys, re
out, dest = sys.argv[1], sys.argv[2]
rep = ["# lines of /repo executed by the quick tier of all monitors (tools/coverage.sh)", ""]
rep += open(out + "/summary.txt").read().splitlines()
rep += ["", "# non-test lines never executed", ""]
cur = None; in_test = False; depth_note = ""
for line in open(out + "/show.txt"):
    m = re.match(r"^(/repo/\S+):$", line)
    if m:
        cur = m.group(1); in_test = False; continue
    m = re.match(r"^\s*(\d+)\|\s*([0-9.kM]*)\|(.*)$", line)
    if not m or cur is None:
        continue
    ln, cnt, src = int(m.group(1)), m.group(2), m.group(3)
    if re.search(r"#\[cfg\(.*test.*\)\]", src) or re.match(r"\s*mod tests?\b", src):
        in_test = True
    if in_test:
        continue
    if cnt == "0":
        rep.append("%s:%d: %s" % (cur.replace("/repo/", ""), ln, src.rstrip()))
open(dest, "w").write("\n".join(rep) + "\n")
print("wrote", dest)
E
