//! I1 — wire tracer: a serde `Serializer` that produces exactly the bytes of bincode's default
//! configuration *and* records the structure it was driven through, as a list of atoms with
//! paths built from the struct / field names serde reports.
//!
//! Self-check (done by `trace`): the bytes must equal `bincode::serialize(v)` and the atoms must
//! tile the byte string. A failure is a harness problem (inconclusive), never a violation.

use serde::ser::{self, Serialize};
use std::fmt;

#[derive(Debug, Clone, Copy, PartialEq, Eq, Hash, PartialOrd, Ord)]
pub enum Kind {
    G1,    // 48-byte compressed point
    G2,    // 96-byte compressed point
    B32,   // 32 bytes: scalar or raw 32-byte string (see `is_raw32`)
    Bytes, // other all-u8 tuple
    U64,
    I64,
    U32,
    U8,
    Bool,
    Tag, // u32 enum variant tag
    Len, // u64 sequence length prefix
    OptTag,
    Other,
}

impl Kind {
    pub fn name(self) -> &'static str {
        match self {
            Kind::G1 => "G1",
            Kind::G2 => "G2",
            Kind::B32 => "B32",
            Kind::Bytes => "BYTES",
            Kind::U64 => "U64",
            Kind::I64 => "I64",
            Kind::U32 => "U32",
            Kind::U8 => "U8",
            Kind::Bool => "BOOL",
            Kind::Tag => "TAG",
            Kind::Len => "LEN",
            Kind::OptTag => "OPT",
            Kind::Other => "OTHER",
        }
    }
}

#[derive(Debug, Clone)]
pub struct Atom {
    pub offset: usize,
    pub len: usize,
    pub kind: Kind,
    /// full path: type names, field names and indices
    pub path: String,
    /// field names and indices only (robust to type renames)
    pub fpath: String,
}

impl Atom {
    pub fn end(&self) -> usize {
        self.offset + self.len
    }
    /// 32-byte atoms inside these newtypes are raw byte strings, not scalars.
    pub fn is_raw32(&self) -> bool {
        self.kind == Kind::B32
            && (self.path.contains("ChannelId")
                || self.path.contains("CustomerRandomness")
                || self.path.contains("MerchantRandomness")
                || self.path.contains("Context"))
    }
    pub fn is_scalar(&self) -> bool {
        self.kind == Kind::B32 && !self.is_raw32()
    }
}

#[derive(Debug, Clone)]
pub struct Trace {
    pub bytes: Vec<u8>,
    pub atoms: Vec<Atom>,
}

impl Trace {
    pub fn atom_bytes(&self, a: &Atom) -> &[u8] {
        &self.bytes[a.offset..a.end()]
    }
    /// All atoms whose field path equals `fpath` exactly.
    pub fn by_fpath(&self, fpath: &str) -> Vec<&Atom> {
        self.atoms.iter().filter(|a| a.fpath == fpath).collect()
    }
    /// The unique atom with exactly this field path.
    pub fn fone(&self, fpath: &str) -> Result<&Atom, String> {
        let v = self.by_fpath(fpath);
        if v.len() == 1 {
            Ok(v[0])
        } else {
            Err(format!(
                "tracer: expected exactly one atom with field path {:?}, found {}",
                fpath,
                v.len()
            ))
        }
    }
    pub fn fget(&self, fpath: &str) -> Result<Vec<u8>, String> {
        let a = self.fone(fpath)?;
        Ok(self.atom_bytes(a).to_vec())
    }
    pub fn fset(&mut self, fpath: &str, new: &[u8]) -> Result<(), String> {
        let a = self.fone(fpath)?.clone();
        if a.len != new.len() {
            return Err(format!("tracer: fset {:?}: length {} != {}", fpath, new.len(), a.len));
        }
        self.bytes[a.offset..a.end()].copy_from_slice(new);
        Ok(())
    }
    /// All atoms whose path ends with `suffix`.
    pub fn find(&self, suffix: &str) -> Vec<&Atom> {
        self.atoms.iter().filter(|a| a.path.ends_with(suffix)).collect()
    }
    /// The unique atom whose path ends with `suffix`.
    pub fn one(&self, suffix: &str) -> Result<&Atom, String> {
        let v = self.find(suffix);
        if v.len() == 1 {
            Ok(v[0])
        } else {
            Err(format!(
                "tracer: expected exactly one atom with path suffix {:?}, found {} (paths: {:?})",
                suffix,
                v.len(),
                self.atoms.iter().map(|a| a.path.clone()).take(40).collect::<Vec<_>>()
            ))
        }
    }
    pub fn get(&self, suffix: &str) -> Result<Vec<u8>, String> {
        let a = self.one(suffix)?;
        Ok(self.atom_bytes(a).to_vec())
    }
    /// Return a copy of the bytes with the atom replaced (same or different length).
    pub fn with_replaced(&self, a: &Atom, new: &[u8]) -> Vec<u8> {
        let mut out = Vec::with_capacity(self.bytes.len() + new.len());
        out.extend_from_slice(&self.bytes[..a.offset]);
        out.extend_from_slice(new);
        out.extend_from_slice(&self.bytes[a.end()..]);
        out
    }
    /// Replace several atoms (same length each) in place by path suffix.
    pub fn set(&mut self, suffix: &str, new: &[u8]) -> Result<(), String> {
        let a = self.one(suffix)?.clone();
        if a.len != new.len() {
            return Err(format!("tracer: set {:?}: length {} != {}", suffix, new.len(), a.len));
        }
        self.bytes[a.offset..a.end()].copy_from_slice(new);
        Ok(())
    }
}

/// Trace a value, with self-checks against bincode.
pub fn trace<T: Serialize>(v: &T) -> Result<Trace, String> {
    let mut t = Tracer::default();
    v.serialize(&mut t).map_err(|e| format!("tracer: serialize error: {}", e))?;
    if !t.frames.is_empty() {
        return Err("tracer: unbalanced frames".into());
    }
    let reference = bincode::serialize(v).map_err(|e| format!("tracer: bincode error: {}", e))?;
    if reference != t.out {
        return Err(format!(
            "tracer: bytes differ from bincode::serialize ({} vs {} bytes)",
            t.out.len(),
            reference.len()
        ));
    }
    t.atoms.sort_by_key(|a| a.offset);
    let mut pos = 0usize;
    for a in &t.atoms {
        if a.offset != pos {
            return Err(format!("tracer: atoms do not tile at offset {} (atom at {})", pos, a.offset));
        }
        pos = a.end();
    }
    if pos != t.out.len() {
        return Err("tracer: atoms do not cover the encoding".into());
    }
    Ok(Trace {
        bytes: t.out,
        atoms: t.atoms,
    })
}

#[derive(Debug)]
pub struct TErr(String);
impl fmt::Display for TErr {
    fn fmt(&self, f: &mut fmt::Formatter<'_>) -> fmt::Result {
        write!(f, "{}", self.0)
    }
}
impl std::error::Error for TErr {}
impl ser::Error for TErr {
    fn custom<T: fmt::Display>(msg: T) -> Self {
        TErr(msg.to_string())
    }
}

struct Frame {
    /// pending plain-u8 children (offsets) of a tuple frame
    u8_children: Vec<usize>,
    n_children: usize,
    is_tuple: bool,
    start: usize,
    index: usize,
}

#[derive(Default)]
struct Tracer {
    out: Vec<u8>,
    atoms: Vec<Atom>,
    path: Vec<(String, bool)>,
    frames: Vec<Frame>,
}

impl Tracer {
    fn cur_path(&self) -> String {
        self.path.iter().map(|(s, _)| s.as_str()).collect::<Vec<_>>().join("/")
    }
    fn cur_fpath(&self) -> String {
        self.path
            .iter()
            .filter(|(_, f)| *f)
            .map(|(s, _)| s.as_str())
            .collect::<Vec<_>>()
            .join("/")
    }
    fn atom(&mut self, offset: usize, len: usize, kind: Kind) {
        let path = self.cur_path();
        let fpath = self.cur_fpath();
        self.atoms.push(Atom {
            offset,
            len,
            kind,
            path,
            fpath,
        });
    }
    fn put(&mut self, bytes: &[u8], kind: Kind) {
        let off = self.out.len();
        self.out.extend_from_slice(bytes);
        self.atom(off, bytes.len(), kind);
    }
    fn child_begin(&mut self) {
        if let Some(f) = self.frames.last_mut() {
            let i = f.index;
            f.index += 1;
            f.n_children += 1;
            self.path.push((format!("[{}]", i), true));
        }
    }
    fn child_end(&mut self) {
        if !self.frames.is_empty() {
            self.path.pop();
        }
    }
}

impl<'a> ser::Serializer for &'a mut Tracer {
    type Ok = ();
    type Error = TErr;
    type SerializeSeq = Compound<'a>;
    type SerializeTuple = Compound<'a>;
    type SerializeTupleStruct = Compound<'a>;
    type SerializeTupleVariant = Compound<'a>;
    type SerializeMap = Compound<'a>;
    type SerializeStruct = Compound<'a>;
    type SerializeStructVariant = Compound<'a>;

    fn serialize_bool(self, v: bool) -> Result<(), TErr> {
        self.put(&[v as u8], Kind::Bool);
        Ok(())
    }
    fn serialize_i8(self, v: i8) -> Result<(), TErr> {
        self.put(&v.to_le_bytes(), Kind::Other);
        Ok(())
    }
    fn serialize_i16(self, v: i16) -> Result<(), TErr> {
        self.put(&v.to_le_bytes(), Kind::Other);
        Ok(())
    }
    fn serialize_i32(self, v: i32) -> Result<(), TErr> {
        self.put(&v.to_le_bytes(), Kind::Other);
        Ok(())
    }
    fn serialize_i64(self, v: i64) -> Result<(), TErr> {
        self.put(&v.to_le_bytes(), Kind::I64);
        Ok(())
    }
    fn serialize_u8(self, v: u8) -> Result<(), TErr> {
        // Inside a tuple frame: remember as a pending byte; the frame decides at `end`.
        if let Some(f) = self.frames.last_mut() {
            if f.is_tuple {
                let off = self.out.len();
                f.u8_children.push(off);
                self.out.push(v);
                return Ok(());
            }
        }
        self.put(&[v], Kind::U8);
        Ok(())
    }
    fn serialize_u16(self, v: u16) -> Result<(), TErr> {
        self.put(&v.to_le_bytes(), Kind::Other);
        Ok(())
    }
    fn serialize_u32(self, v: u32) -> Result<(), TErr> {
        self.put(&v.to_le_bytes(), Kind::U32);
        Ok(())
    }
    fn serialize_u64(self, v: u64) -> Result<(), TErr> {
        self.put(&v.to_le_bytes(), Kind::U64);
        Ok(())
    }
    fn serialize_f32(self, v: f32) -> Result<(), TErr> {
        self.put(&v.to_le_bytes(), Kind::Other);
        Ok(())
    }
    fn serialize_f64(self, v: f64) -> Result<(), TErr> {
        self.put(&v.to_le_bytes(), Kind::Other);
        Ok(())
    }
    fn serialize_char(self, _v: char) -> Result<(), TErr> {
        Err(TErr("tracer: char unsupported".into()))
    }
    fn serialize_str(self, v: &str) -> Result<(), TErr> {
        self.put(&(v.len() as u64).to_le_bytes(), Kind::Len);
        self.put(v.as_bytes(), Kind::Bytes);
        Ok(())
    }
    fn serialize_bytes(self, v: &[u8]) -> Result<(), TErr> {
        self.put(&(v.len() as u64).to_le_bytes(), Kind::Len);
        self.put(v, Kind::Bytes);
        Ok(())
    }
    fn serialize_none(self) -> Result<(), TErr> {
        self.put(&[0], Kind::OptTag);
        Ok(())
    }
    fn serialize_some<T: ?Sized + Serialize>(self, value: &T) -> Result<(), TErr> {
        self.put(&[1], Kind::OptTag);
        value.serialize(self)
    }
    fn serialize_unit(self) -> Result<(), TErr> {
        Ok(())
    }
    fn serialize_unit_struct(self, _name: &'static str) -> Result<(), TErr> {
        Ok(())
    }
    fn serialize_unit_variant(
        self,
        name: &'static str,
        variant_index: u32,
        variant: &'static str,
    ) -> Result<(), TErr> {
        self.path.push((format!("{}::{}", name, variant), false));
        self.put(&variant_index.to_le_bytes(), Kind::Tag);
        self.path.pop();
        Ok(())
    }
    fn serialize_newtype_struct<T: ?Sized + Serialize>(
        self,
        name: &'static str,
        value: &T,
    ) -> Result<(), TErr> {
        self.path.push((name.to_string(), false));
        let r = value.serialize(&mut *self);
        self.path.pop();
        r
    }
    fn serialize_newtype_variant<T: ?Sized + Serialize>(
        self,
        name: &'static str,
        variant_index: u32,
        variant: &'static str,
        value: &T,
    ) -> Result<(), TErr> {
        self.path.push((format!("{}::{}", name, variant), false));
        self.put(&variant_index.to_le_bytes(), Kind::Tag);
        let r = value.serialize(&mut *self);
        self.path.pop();
        r
    }
    fn serialize_seq(self, len: Option<usize>) -> Result<Compound<'a>, TErr> {
        let len = len.ok_or_else(|| TErr("tracer: seq without length".into()))?;
        self.put(&(len as u64).to_le_bytes(), Kind::Len);
        self.frames.push(Frame {
            u8_children: vec![],
            n_children: 0,
            is_tuple: false,
            start: self.out.len(),
            index: 0,
        });
        Ok(Compound {
            t: self,
            pushed_path: false,
            framed: true,
        })
    }
    fn serialize_tuple(self, _len: usize) -> Result<Compound<'a>, TErr> {
        self.frames.push(Frame {
            u8_children: vec![],
            n_children: 0,
            is_tuple: true,
            start: self.out.len(),
            index: 0,
        });
        Ok(Compound {
            t: self,
            pushed_path: false,
            framed: true,
        })
    }
    fn serialize_tuple_struct(self, name: &'static str, _len: usize) -> Result<Compound<'a>, TErr> {
        self.path.push((name.to_string(), false));
        self.frames.push(Frame {
            u8_children: vec![],
            n_children: 0,
            is_tuple: false,
            start: self.out.len(),
            index: 0,
        });
        Ok(Compound {
            t: self,
            pushed_path: true,
            framed: true,
        })
    }
    fn serialize_tuple_variant(
        self,
        name: &'static str,
        variant_index: u32,
        variant: &'static str,
        _len: usize,
    ) -> Result<Compound<'a>, TErr> {
        self.path.push((format!("{}::{}", name, variant), false));
        self.put(&variant_index.to_le_bytes(), Kind::Tag);
        self.frames.push(Frame {
            u8_children: vec![],
            n_children: 0,
            is_tuple: false,
            start: self.out.len(),
            index: 0,
        });
        Ok(Compound {
            t: self,
            pushed_path: true,
            framed: true,
        })
    }
    fn serialize_map(self, _len: Option<usize>) -> Result<Compound<'a>, TErr> {
        Err(TErr("tracer: map unsupported".into()))
    }
    fn serialize_struct(self, name: &'static str, _len: usize) -> Result<Compound<'a>, TErr> {
        self.path.push((name.to_string(), false));
        self.frames.push(Frame {
            u8_children: vec![],
            n_children: 0,
            is_tuple: false,
            start: self.out.len(),
            index: 0,
        });
        Ok(Compound {
            t: self,
            pushed_path: true,
            framed: true,
        })
    }
    fn serialize_struct_variant(
        self,
        name: &'static str,
        variant_index: u32,
        variant: &'static str,
        _len: usize,
    ) -> Result<Compound<'a>, TErr> {
        self.path.push((format!("{}::{}", name, variant), false));
        self.put(&variant_index.to_le_bytes(), Kind::Tag);
        self.frames.push(Frame {
            u8_children: vec![],
            n_children: 0,
            is_tuple: false,
            start: self.out.len(),
            index: 0,
        });
        Ok(Compound {
            t: self,
            pushed_path: true,
            framed: true,
        })
    }
    fn is_human_readable(&self) -> bool {
        false
    }
}

pub struct Compound<'a> {
    t: &'a mut Tracer,
    pushed_path: bool,
    framed: bool,
}

impl<'a> Compound<'a> {
    fn elem<T: ?Sized + Serialize>(&mut self, value: &T) -> Result<(), TErr> {
        self.t.child_begin();
        let r = value.serialize(&mut *self.t);
        self.t.child_end();
        r
    }
    fn finish(self) -> Result<(), TErr> {
        if self.framed {
            let f = self.t.frames.pop().ok_or_else(|| TErr("tracer: frame underflow".into()))?;
            if f.is_tuple && !f.u8_children.is_empty() {
                if f.u8_children.len() == f.n_children {
                    // pure byte tuple: one atom
                    let n = f.n_children;
                    let kind = match n {
                        32 => Kind::B32,
                        48 => Kind::G1,
                        96 => Kind::G2,
                        _ => Kind::Bytes,
                    };
                    self.t.atom(f.start, n, kind);
                } else {
                    // mixed: each pending byte becomes its own atom
                    for off in f.u8_children {
                        self.t.atom(off, 1, Kind::U8);
                    }
                }
            }
        }
        if self.pushed_path {
            self.t.path.pop();
        }
        Ok(())
    }
}

impl<'a> ser::SerializeSeq for Compound<'a> {
    type Ok = ();
    type Error = TErr;
    fn serialize_element<T: ?Sized + Serialize>(&mut self, value: &T) -> Result<(), TErr> {
        self.elem(value)
    }
    fn end(self) -> Result<(), TErr> {
        self.finish()
    }
}
impl<'a> ser::SerializeTuple for Compound<'a> {
    type Ok = ();
    type Error = TErr;
    fn serialize_element<T: ?Sized + Serialize>(&mut self, value: &T) -> Result<(), TErr> {
        self.elem(value)
    }
    fn end(self) -> Result<(), TErr> {
        self.finish()
    }
}
impl<'a> ser::SerializeTupleStruct for Compound<'a> {
    type Ok = ();
    type Error = TErr;
    fn serialize_field<T: ?Sized + Serialize>(&mut self, value: &T) -> Result<(), TErr> {
        self.elem(value)
    }
    fn end(self) -> Result<(), TErr> {
        self.finish()
    }
}
impl<'a> ser::SerializeTupleVariant for Compound<'a> {
    type Ok = ();
    type Error = TErr;
    fn serialize_field<T: ?Sized + Serialize>(&mut self, value: &T) -> Result<(), TErr> {
        self.elem(value)
    }
    fn end(self) -> Result<(), TErr> {
        self.finish()
    }
}
impl<'a> ser::SerializeMap for Compound<'a> {
    type Ok = ();
    type Error = TErr;
    fn serialize_key<T: ?Sized + Serialize>(&mut self, _key: &T) -> Result<(), TErr> {
        Err(TErr("tracer: map unsupported".into()))
    }
    fn serialize_value<T: ?Sized + Serialize>(&mut self, _value: &T) -> Result<(), TErr> {
        Err(TErr("tracer: map unsupported".into()))
    }
    fn end(self) -> Result<(), TErr> {
        self.finish()
    }
}
impl<'a> ser::SerializeStruct for Compound<'a> {
    type Ok = ();
    type Error = TErr;
    fn serialize_field<T: ?Sized + Serialize>(
        &mut self,
        key: &'static str,
        value: &T,
    ) -> Result<(), TErr> {
        self.t.path.push((key.to_string(), true));
        let r = value.serialize(&mut *self.t);
        self.t.path.pop();
        r
    }
    fn end(self) -> Result<(), TErr> {
        self.finish()
    }
}
impl<'a> ser::SerializeStructVariant for Compound<'a> {
    type Ok = ();
    type Error = TErr;
    fn serialize_field<T: ?Sized + Serialize>(
        &mut self,
        key: &'static str,
        value: &T,
    ) -> Result<(), TErr> {
        self.t.path.push((key.to_string(), true));
        let r = value.serialize(&mut *self.t);
        self.t.path.pop();
        r
    }
    fn end(self) -> Result<(), TErr> {
        self.finish()
    }
}
