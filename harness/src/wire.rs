//! Byte-level helpers shared by the monitors: bincode wrappers, random valid atoms, and the
//! tables of invalid / boundary encodings used by C15 and C16.

use crate::tracer::Kind;
use bls12_381::{G1Affine, G1Projective, G2Affine, G2Projective, Scalar};
use ff::Field;
use group::{Curve, Group};
use rand_core::RngCore;
use serde::{de::DeserializeOwned, Serialize};

pub fn enc<T: Serialize>(v: &T) -> Vec<u8> {
    bincode::serialize(v).expect("bincode::serialize of an in-memory value cannot fail")
}

pub fn dec<T: DeserializeOwned>(b: &[u8]) -> Result<T, String> {
    bincode::deserialize::<T>(b).map_err(|e| format!("decode: {}", e))
}

/// Copy a non-Clone value through its wire form (fidelity is itself monitored by C15 / C20).
pub fn copy<T: Serialize + DeserializeOwned>(v: &T) -> Result<T, String> {
    dec(&enc(v)).map_err(|e| format!("state copy through bincode failed: {}", e))
}

pub fn rand_scalar(rng: &mut impl RngCore) -> Scalar {
    Scalar::random(rng)
}
pub fn rand_g1(rng: &mut impl RngCore) -> G1Affine {
    G1Projective::random(rng).to_affine()
}
pub fn rand_g2(rng: &mut impl RngCore) -> G2Affine {
    G2Projective::random(rng).to_affine()
}

pub const Q_LE: [u8; 32] = [
    0x01, 0x00, 0x00, 0x00, 0xff, 0xff, 0xff, 0xff, 0xfe, 0x5b, 0xfe, 0xff, 0x02, 0xa4, 0xbd, 0x53,
    0x05, 0xd8, 0xa1, 0x09, 0x08, 0xd8, 0x39, 0x33, 0x48, 0x7d, 0x9d, 0x29, 0x53, 0xa7, 0xed, 0x73,
];

pub fn g1_identity_bytes() -> [u8; 48] {
    let mut b = [0u8; 48];
    b[0] = 0xc0;
    b
}
pub fn g2_identity_bytes() -> [u8; 96] {
    let mut b = [0u8; 96];
    b[0] = 0xc0;
    b
}

/// A different, valid encoding for an atom of this kind (None for kinds without a generic one).
pub fn alt_valid(kind: Kind, orig: &[u8], rng: &mut impl RngCore) -> Option<Vec<u8>> {
    for _ in 0..8 {
        let v: Vec<u8> = match kind {
            Kind::G1 => rand_g1(rng).to_compressed().to_vec(),
            Kind::G2 => rand_g2(rng).to_compressed().to_vec(),
            Kind::B32 => rand_scalar(rng).to_bytes().to_vec(),
            Kind::U64 => (rng.next_u64() >> 2).to_le_bytes().to_vec(),
            Kind::I64 => ((rng.next_u64() >> 2) as i64).to_le_bytes().to_vec(),
            Kind::U8 => vec![orig[0].wrapping_add(1 + (rng.next_u32() % 250) as u8)],
            _ => return None,
        };
        if v != orig {
            return Some(v);
        }
    }
    None
}

/// G1 byte strings that are well-formed compressed encodings of a point on the curve but
/// outside the prime-order subgroup, and ones whose x has no y on the curve.
pub fn g1_off_subgroup_and_off_curve(rng: &mut impl RngCore) -> ([u8; 48], [u8; 48]) {
    let mut off_sub = None;
    let mut off_curve = None;
    while off_sub.is_none() || off_curve.is_none() {
        let mut b = [0u8; 48];
        rng.fill_bytes(&mut b);
        b[0] = 0x80 | ((b[0] & 0x20) | ((b[0] & 0x1f) % 0x1a));
        let p: Option<G1Affine> = Option::from(G1Affine::from_compressed_unchecked(&b));
        match p {
            Some(p) => {
                if !bool::from(p.is_torsion_free()) && off_sub.is_none() {
                    off_sub = Some(b);
                }
            }
            None => {
                if off_curve.is_none() {
                    off_curve = Some(b);
                }
            }
        }
    }
    (off_sub.unwrap(), off_curve.unwrap())
}

pub fn g2_off_subgroup_and_off_curve(rng: &mut impl RngCore) -> ([u8; 96], [u8; 96]) {
    let mut off_sub = None;
    let mut off_curve = None;
    while off_sub.is_none() || off_curve.is_none() {
        let mut b = [0u8; 96];
        rng.fill_bytes(&mut b);
        b[0] = 0x80 | ((b[0] & 0x20) | ((b[0] & 0x1f) % 0x1a));
        b[48] = (b[48] & 0x1f) % 0x1a;
        let p: Option<G2Affine> = Option::from(G2Affine::from_compressed_unchecked(&b));
        match p {
            Some(p) => {
                if !bool::from(p.is_torsion_free()) && off_sub.is_none() {
                    off_sub = Some(b);
                }
            }
            None => {
                if off_curve.is_none() {
                    off_curve = Some(b);
                }
            }
        }
    }
    (off_sub.unwrap(), off_curve.unwrap())
}

thread_local! {
    static INVALID_CACHE: std::cell::RefCell<std::collections::BTreeMap<Kind, Vec<(&'static str, Vec<u8>)>>> =
        std::cell::RefCell::new(std::collections::BTreeMap::new());
}

/// Encodings that no decoder may accept at a position of this kind, whatever the position.
/// (Computed once per process and kind: the off-curve / out-of-subgroup samples are searched.)
pub fn universally_invalid(kind: Kind, rng: &mut impl RngCore) -> Vec<(&'static str, Vec<u8>)> {
    if let Some(v) = INVALID_CACHE.with(|c| c.borrow().get(&kind).cloned()) {
        return v;
    }
    let v = universally_invalid_uncached(kind, rng);
    INVALID_CACHE.with(|c| c.borrow_mut().insert(kind, v.clone()));
    v
}

fn universally_invalid_uncached(kind: Kind, rng: &mut impl RngCore) -> Vec<(&'static str, Vec<u8>)> {
    match kind {
        Kind::G1 => {
            let (os, oc) = g1_off_subgroup_and_off_curve(rng);
            let mut uncompressed_flag = rand_g1(rng).to_compressed();
            uncompressed_flag[0] &= 0x7f;
            let mut inf_nonzero = g1_identity_bytes();
            inf_nonzero[47] = 1;
            let mut inf_sort = g1_identity_bytes();
            inf_sort[0] |= 0x20;
            let mut x_ge_p = [0xffu8; 48];
            x_ge_p[0] = 0x9f;
            vec![
                ("out-of-subgroup", os.to_vec()),
                ("off-curve", oc.to_vec()),
                ("compression-flag-clear", uncompressed_flag.to_vec()),
                ("infinity-flag-with-x", inf_nonzero.to_vec()),
                ("infinity-flag-with-sort", inf_sort.to_vec()),
                ("x>=p", x_ge_p.to_vec()),
                ("all-zero", vec![0u8; 48]),
            ]
        }
        Kind::G2 => {
            let (os, oc) = g2_off_subgroup_and_off_curve(rng);
            let mut uncompressed_flag = rand_g2(rng).to_compressed();
            uncompressed_flag[0] &= 0x7f;
            let mut inf_nonzero = g2_identity_bytes();
            inf_nonzero[95] = 1;
            let mut x_ge_p = [0xffu8; 96];
            x_ge_p[0] = 0x9f;
            vec![
                ("out-of-subgroup", os.to_vec()),
                ("off-curve", oc.to_vec()),
                ("compression-flag-clear", uncompressed_flag.to_vec()),
                ("infinity-flag-with-x", inf_nonzero.to_vec()),
                ("x>=p", x_ge_p.to_vec()),
                ("all-zero", vec![0u8; 96]),
            ]
        }
        Kind::B32 => {
            let mut qp1 = Q_LE;
            qp1[0] = 2;
            vec![
                ("scalar=q", Q_LE.to_vec()),
                ("scalar=q+1", qp1.to_vec()),
                ("scalar=2^256-1", vec![0xffu8; 32]),
            ]
        }
        _ => vec![],
    }
}


/// A non-identity G1 point of small order (in the cofactor subgroup): [q]P for a curve point P
/// outside the prime-order subgroup. It pairs to 1 with everything; a decoder that checks the
/// subgroup never lets it in. Returned as compressed bytes.
pub fn g1_cofactor_point(rng: &mut impl RngCore) -> [u8; 48] {
    loop {
        let (off_sub, _) = g1_off_subgroup_and_off_curve(rng);
        let p: Option<G1Affine> = Option::from(G1Affine::from_compressed_unchecked(&off_sub));
        let Some(p) = p else { continue };
        let p = G1Projective::from(p);
        // multiply by the group order q, bit by bit (q is not representable as a Scalar)
        let mut acc = G1Projective::identity();
        for byte in Q_LE.iter().rev() {
            for bit in (0..8).rev() {
                acc = acc.double();
                if (byte >> bit) & 1 == 1 {
                    acc += p;
                }
            }
        }
        let a = acc.to_affine();
        if !bool::from(a.is_identity()) {
            return a.to_compressed();
        }
    }
}
