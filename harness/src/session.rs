//! I6 — session driver: runs the real customer stages against a real merchant configuration, one
//! call per protocol message. Every message crosses the boundary as bytes (as it would on a wire),
//! so a fault injector can replace it, and every message is appended to an event log.

use crate::fixtures::Merchant;
use crate::refs::{ledger_apply, LedgerErr};
use crate::wire::{copy, dec, enc};
use rand_core::{CryptoRng, RngCore};
use zkabacus_crypto::{
    customer::{ClosingMessage, Inactive, Locked, Ready, Requested, Started},
    merchant::Unrevoked,
    revlock::{RevocationLockBlindingFactor, RevocationPair},
    ChannelId, ClosingSignature, Context, CustomerBalance, CustomerRandomness, EstablishProof,
    MerchantBalance, MerchantRandomness, Nonce, PayProof, PayToken, PaymentAmount,
    VerifiedBlindedState,
};

pub enum Stage {
    None,
    Requested(Requested),
    Inactive(Inactive),
    Ready(Ready),
    Started(Started),
    Locked(Locked),
}

impl Stage {
    pub fn name(&self) -> &'static str {
        match self {
            Stage::None => "none",
            Stage::Requested(_) => "requested",
            Stage::Inactive(_) => "inactive",
            Stage::Ready(_) => "ready",
            Stage::Started(_) => "started",
            Stage::Locked(_) => "locked",
        }
    }
    pub fn bytes(&self) -> Vec<u8> {
        match self {
            Stage::None => vec![],
            Stage::Requested(s) => enc(s),
            Stage::Inactive(s) => enc(s),
            Stage::Ready(s) => enc(s),
            Stage::Started(s) => enc(s),
            Stage::Locked(s) => enc(s),
        }
    }
    /// (customer, merchant) balances the stage reports
    pub fn balances(&self) -> Option<(u64, u64)> {
        Some(match self {
            Stage::None => return None,
            Stage::Requested(s) => (s.customer_balance().into_inner(), s.merchant_balance().into_inner()),
            Stage::Inactive(s) => (s.customer_balance().into_inner(), s.merchant_balance().into_inner()),
            Stage::Ready(s) => (s.customer_balance().into_inner(), s.merchant_balance().into_inner()),
            Stage::Started(s) => (s.customer_balance().into_inner(), s.merchant_balance().into_inner()),
            Stage::Locked(s) => (s.customer_balance().into_inner(), s.merchant_balance().into_inner()),
        })
    }
    pub fn channel_id(&self) -> Option<[u8; 32]> {
        Some(match self {
            Stage::None => return None,
            Stage::Requested(s) => s.channel_id().to_bytes(),
            Stage::Inactive(s) => s.channel_id().to_bytes(),
            Stage::Ready(s) => s.channel_id().to_bytes(),
            Stage::Started(s) => s.channel_id().to_bytes(),
            Stage::Locked(s) => s.channel_id().to_bytes(),
        })
    }
    /// Restore a stage from its name and bytes.
    pub fn from_bytes(name: &str, b: &[u8]) -> Result<Stage, String> {
        Ok(match name {
            "requested" => Stage::Requested(dec(b)?),
            "inactive" => Stage::Inactive(dec(b)?),
            "ready" => Stage::Ready(dec(b)?),
            "started" => Stage::Started(dec(b)?),
            "locked" => Stage::Locked(dec(b)?),
            _ => return Err(format!("unknown stage {}", name)),
        })
    }
    /// the stage as a JSON document (a human-readable store)
    pub fn json(&self) -> Result<String, String> {
        let r = match self {
            Stage::None => return Err("no stage".into()),
            Stage::Requested(s) => serde_json::to_string(s),
            Stage::Inactive(s) => serde_json::to_string(s),
            Stage::Ready(s) => serde_json::to_string(s),
            Stage::Started(s) => serde_json::to_string(s),
            Stage::Locked(s) => serde_json::to_string(s),
        };
        r.map_err(|e| format!("json encode: {}", e))
    }
    pub fn from_json(name: &str, j: &str) -> Result<Stage, String> {
        let e = |e: serde_json::Error| format!("json decode: {}", e);
        Ok(match name {
            "requested" => Stage::Requested(serde_json::from_str(j).map_err(e)?),
            "inactive" => Stage::Inactive(serde_json::from_str(j).map_err(e)?),
            "ready" => Stage::Ready(serde_json::from_str(j).map_err(e)?),
            "started" => Stage::Started(serde_json::from_str(j).map_err(e)?),
            "locked" => Stage::Locked(serde_json::from_str(j).map_err(e)?),
            _ => return Err(format!("unknown stage {}", name)),
        })
    }
    pub fn copy(&self) -> Result<Stage, String> {
        Stage::from_bytes(self.name(), &self.bytes())
    }
    /// Closing message from a *copy* of the state (None when the stage offers no close()).
    pub fn close_from_copy(&self, rng: &mut (impl RngCore + CryptoRng)) -> Result<Option<ClosingMessage>, String> {
        Ok(match self {
            Stage::None | Stage::Requested(_) => None,
            Stage::Inactive(s) => Some(copy(s)?.close(rng)),
            Stage::Ready(s) => Some(copy(s)?.close(rng)),
            Stage::Started(s) => Some(copy(s)?.close(rng)),
            Stage::Locked(s) => Some(copy(s)?.close(rng)),
        })
    }
}

#[derive(Debug, Clone)]
pub struct MsgRec {
    /// "c2m" or "m2c"
    pub dir: &'static str,
    pub kind: &'static str,
    pub bytes: Vec<u8>,
    pub step: usize,
}

pub fn new_channel_id(m: &Merchant, rng: &mut (impl RngCore + CryptoRng), minfo: &[u8], cinfo: &[u8]) -> ChannelId {
    let mr = MerchantRandomness::new(rng);
    let cr = CustomerRandomness::new(rng);
    ChannelId::new(mr, cr, m.ccfg.merchant_public_key(), minfo, cinfo)
}

pub struct Sess {
    pub m: &'static Merchant,
    pub cid: ChannelId,
    pub stage: Stage,
    /// ideal balances of the last fully established / completed state: (customer, merchant)
    pub ledger: (u64, u64),
    /// ideal post-payment balances while a payment is in flight
    pub pending: Option<(u64, u64)>,
    pub pending_amount: Option<i64>,
    /// locks disclosed in lock messages so far
    pub disclosed_locks: Vec<[u8; 32]>,
    pub log: Vec<MsgRec>,
    pub step: usize,
    // merchant side
    pub m_blinded_state: Option<VerifiedBlindedState>,
    pub m_unrevoked: Option<Unrevoked<'static>>,
}

impl Sess {
    fn rec(&mut self, dir: &'static str, kind: &'static str, bytes: &[u8]) {
        self.step += 1;
        self.log.push(MsgRec {
            dir,
            kind,
            bytes: bytes.to_vec(),
            step: self.step,
        });
    }

    /// A session wrapper around an existing customer stage (twin tracks, restored states).
    pub fn from_stage(m: &'static Merchant, cid: ChannelId, stage: Stage, ledger: (u64, u64)) -> Sess {
        Sess {
            m,
            cid,
            stage,
            ledger,
            pending: None,
            pending_amount: None,
            disclosed_locks: vec![],
            log: vec![],
            step: 0,
            m_blinded_state: None,
            m_unrevoked: None,
        }
    }

    /// Replace the stage by decode(encode(stage)) — a store-and-restore point.
    pub fn restore(&mut self) -> Result<(), String> {
        let name = self.stage.name();
        let bytes = self.stage.bytes();
        self.stage = Stage::from_bytes(name, &bytes).map_err(|e| format!("restore of stage {} failed: {}", name, e))?;
        Ok(())
    }

    /// The same through a JSON document.
    pub fn restore_json(&mut self) -> Result<(), String> {
        let name = self.stage.name();
        let j = self.stage.json()?;
        self.stage = Stage::from_json(name, &j).map_err(|e| format!("restore of stage {} from JSON failed: {}", name, e))?;
        Ok(())
    }

    /// E1: customer requests a channel. Returns the session and the establish proof bytes.
    pub fn request(
        m: &'static Merchant,
        rng: &mut (impl RngCore + CryptoRng),
        cid: ChannelId,
        cust: u64,
        merch: u64,
        context: &[u8],
    ) -> Result<(Sess, Vec<u8>), String> {
        let cb = CustomerBalance::try_new(cust).map_err(|e| format!("{:?}", e))?;
        let mb = MerchantBalance::try_new(merch).map_err(|e| format!("{:?}", e))?;
        let (req, proof) = Requested::new(rng, &m.ccfg, cid, mb, cb, &Context::new(context));
        let pb = enc(&proof);
        let mut s = Sess {
            m,
            cid,
            stage: Stage::Requested(req),
            ledger: (cust, merch),
            pending: None,
            pending_amount: None,
            disclosed_locks: vec![],
            log: vec![],
            step: 0,
            m_blinded_state: None,
            m_unrevoked: None,
        };
        s.rec("c2m", "establish_proof", &pb);
        Ok((s, pb))
    }

    /// E2: merchant initializes with agreed values (cust, merch) and the received proof bytes.
    pub fn m_initialize(
        &mut self,
        rng: &mut (impl RngCore + CryptoRng),
        cust: u64,
        merch: u64,
        proof_bytes: &[u8],
        context: &[u8],
    ) -> Result<Option<Vec<u8>>, String> {
        let proof: EstablishProof = dec(proof_bytes)?;
        let cb = CustomerBalance::try_new(cust).map_err(|e| format!("{:?}", e))?;
        let mb = MerchantBalance::try_new(merch).map_err(|e| format!("{:?}", e))?;
        match self.m.cfg.initialize(rng, &self.cid, cb, mb, proof, &Context::new(context)) {
            Some((sig, bs)) => {
                self.m_blinded_state = Some(bs);
                let b = enc(&sig);
                self.rec("m2c", "closing_signature", &b);
                Ok(Some(b))
            }
            None => Ok(None),
        }
    }

    /// E3: customer completes with a closing signature. true = accepted.
    pub fn c_complete(&mut self, sig_bytes: &[u8]) -> Result<bool, String> {
        let sig: ClosingSignature = dec(sig_bytes)?;
        match std::mem::replace(&mut self.stage, Stage::None) {
            Stage::Requested(r) => match r.complete(sig, &self.m.ccfg) {
                Ok(i) => {
                    self.stage = Stage::Inactive(i);
                    Ok(true)
                }
                Err(r) => {
                    self.stage = Stage::Requested(r);
                    Ok(false)
                }
            },
            other => {
                self.stage = other;
                Err("c_complete: not in Requested".into())
            }
        }
    }

    /// E4: merchant activates.
    pub fn m_activate(&mut self, rng: &mut (impl RngCore + CryptoRng)) -> Result<Vec<u8>, String> {
        let bs = self.m_blinded_state.take().ok_or("m_activate: no verified blinded state")?;
        let tok = self.m.cfg.activate(rng, bs);
        let b = enc(&tok);
        self.rec("m2c", "pay_token", &b);
        Ok(b)
    }

    /// E5: customer activates with a pay token. true = accepted.
    pub fn c_activate(&mut self, tok_bytes: &[u8]) -> Result<bool, String> {
        let tok: PayToken = dec(tok_bytes)?;
        match std::mem::replace(&mut self.stage, Stage::None) {
            Stage::Inactive(i) => match i.activate(tok, &self.m.ccfg) {
                Ok(r) => {
                    self.stage = Stage::Ready(r);
                    Ok(true)
                }
                Err(i) => {
                    self.stage = Stage::Inactive(i);
                    Ok(false)
                }
            },
            other => {
                self.stage = other;
                Err("c_activate: not in Inactive".into())
            }
        }
    }

    /// P1: customer starts a payment. Ok(Ok((nonce, proof))) started; Ok(Err(e)) refused.
    pub fn c_start(
        &mut self,
        rng: &mut (impl RngCore + CryptoRng),
        amount: PaymentAmount,
        context: &[u8],
    ) -> Result<Result<(Vec<u8>, Vec<u8>), zkabacus_crypto::Error>, String> {
        match std::mem::replace(&mut self.stage, Stage::None) {
            Stage::Ready(r) => match r.start(rng, amount, &Context::new(context), &self.m.ccfg) {
                Ok((st, msg)) => {
                    self.stage = Stage::Started(st);
                    let nb = enc(&msg.nonce);
                    let pb = enc(&msg.pay_proof);
                    self.pending = ledger_apply(self.ledger.0, self.ledger.1, amount.to_i64()).ok();
                    self.pending_amount = Some(amount.to_i64());
                    self.rec("c2m", "nonce", &nb);
                    self.rec("c2m", "pay_proof", &pb);
                    Ok(Ok((nb, pb)))
                }
                Err((r, e)) => {
                    self.stage = Stage::Ready(r);
                    Ok(Err(e))
                }
            },
            other => {
                self.stage = other;
                Err("c_start: not in Ready".into())
            }
        }
    }

    /// P2: merchant decides on a payment request.
    pub fn m_allow(
        &mut self,
        rng: &mut (impl RngCore + CryptoRng),
        amount: PaymentAmount,
        nonce_bytes: &[u8],
        proof_bytes: &[u8],
        context: &[u8],
    ) -> Result<Option<Vec<u8>>, String> {
        let nonce: Nonce = dec(nonce_bytes)?;
        let proof: PayProof = dec(proof_bytes)?;
        let m: &'static Merchant = self.m;
        match m.cfg.allow_payment(rng, amount, &nonce, proof, &Context::new(context)) {
            Some((unrev, sig)) => {
                self.m_unrevoked = Some(unrev);
                let b = enc(&sig);
                self.rec("m2c", "closing_signature", &b);
                Ok(Some(b))
            }
            None => Ok(None),
        }
    }

    /// P3: customer locks with a closing signature. Some((pair, bf)) = accepted.
    pub fn c_lock(&mut self, sig_bytes: &[u8]) -> Result<Option<(Vec<u8>, Vec<u8>)>, String> {
        let sig: ClosingSignature = dec(sig_bytes)?;
        match std::mem::replace(&mut self.stage, Stage::None) {
            Stage::Started(s) => match s.lock(sig, &self.m.ccfg) {
                Ok((l, msg)) => {
                    self.stage = Stage::Locked(l);
                    let pb = enc(&msg.revocation_pair);
                    let bb = enc(&msg.revocation_lock_blinding_factor);
                    self.disclosed_locks.push(msg.revocation_pair.revocation_lock().as_bytes());
                    self.rec("c2m", "revocation_pair", &pb);
                    self.rec("c2m", "revocation_blinding_factor", &bb);
                    Ok(Some((pb, bb)))
                }
                Err(s) => {
                    self.stage = Stage::Started(s);
                    Ok(None)
                }
            },
            other => {
                self.stage = other;
                Err("c_lock: not in Started".into())
            }
        }
    }

    /// P4: merchant completes the payment. Some(token) = accepted; None = refused (pending kept).
    pub fn m_complete(
        &mut self,
        rng: &mut (impl RngCore + CryptoRng),
        pair_bytes: &[u8],
        bf_bytes: &[u8],
    ) -> Result<Option<Vec<u8>>, String> {
        let pair: RevocationPair = dec(pair_bytes)?;
        let bf: RevocationLockBlindingFactor = dec(bf_bytes)?;
        let unrev = self.m_unrevoked.take().ok_or("m_complete: no pending payment")?;
        match unrev.complete_payment(rng, &pair, &bf) {
            Ok(tok) => {
                let b = enc(&tok);
                self.rec("m2c", "pay_token", &b);
                Ok(Some(b))
            }
            Err(unrev) => {
                self.m_unrevoked = Some(unrev);
                Ok(None)
            }
        }
    }

    /// P5: customer unlocks with a pay token. true = accepted.
    pub fn c_unlock(&mut self, tok_bytes: &[u8]) -> Result<bool, String> {
        let tok: PayToken = dec(tok_bytes)?;
        match std::mem::replace(&mut self.stage, Stage::None) {
            Stage::Locked(l) => match l.unlock(tok, &self.m.ccfg) {
                Ok(r) => {
                    self.stage = Stage::Ready(r);
                    if let Some(p) = self.pending.take() {
                        self.ledger = p;
                    }
                    self.pending_amount = None;
                    Ok(true)
                }
                Err(l) => {
                    self.stage = Stage::Locked(l);
                    Ok(false)
                }
            },
            other => {
                self.stage = other;
                Err("c_unlock: not in Locked".into())
            }
        }
    }

    /// Balances the ideal ledger assigns to the current stage: pre-payment balances while a
    /// payment is only started, post-payment balances once locked.
    pub fn ideal_balances(&self) -> (u64, u64) {
        match self.stage {
            Stage::Locked(_) => self.pending.unwrap_or(self.ledger),
            _ => self.ledger,
        }
    }

    /// Honest establishment up to Ready.
    pub fn open(
        m: &'static Merchant,
        rng: &mut (impl RngCore + CryptoRng),
        cust: u64,
        merch: u64,
        context: &[u8],
    ) -> Result<Sess, String> {
        let cid = new_channel_id(m, rng, b"merchant account", b"customer account");
        let (mut s, proof) = Sess::request(m, rng, cid, cust, merch, context)?;
        let sig = s
            .m_initialize(rng, cust, merch, &proof, context)?
            .ok_or("open: merchant refused an honest establish proof")?;
        if !s.c_complete(&sig)? {
            return Err("open: customer refused the honest closing signature".into());
        }
        let tok = s.m_activate(rng)?;
        if !s.c_activate(&tok)? {
            return Err("open: customer refused the honest pay token".into());
        }
        Ok(s)
    }

    /// Honest payment from Ready back to Ready. Ok(Ok(())) done, Ok(Err(e)) refused by start.
    pub fn pay(
        &mut self,
        rng: &mut (impl RngCore + CryptoRng),
        amount: PaymentAmount,
        context: &[u8],
    ) -> Result<Result<(), zkabacus_crypto::Error>, String> {
        let (nonce, proof) = match self.c_start(rng, amount, context)? {
            Ok(x) => x,
            Err(e) => return Ok(Err(e)),
        };
        let sig = self
            .m_allow(rng, amount, &nonce, &proof, context)?
            .ok_or("pay: merchant refused an honest pay proof")?;
        let (pair, bf) = self.c_lock(&sig)?.ok_or("pay: customer refused the honest closing signature")?;
        let tok = self
            .m_complete(rng, &pair, &bf)?
            .ok_or("pay: merchant refused the honest revocation pair")?;
        if !self.c_unlock(&tok)? {
            return Err("pay: customer refused the honest pay token".into());
        }
        Ok(Ok(()))
    }
}

pub fn amount(a: i64) -> Result<PaymentAmount, String> {
    if a >= 0 {
        PaymentAmount::pay_merchant(a as u64).map_err(|e| format!("{:?}", e))
    } else {
        PaymentAmount::pay_customer(a.unsigned_abs()).map_err(|e| format!("{:?}", e))
    }
}

pub fn ledger_err_name(e: &LedgerErr) -> &'static str {
    match (e.neg, e.big) {
        (true, true) => "neg+big",
        (true, false) => "neg",
        (false, true) => "big",
        _ => "none",
    }
}
