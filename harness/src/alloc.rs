//! I7 — tracking allocator: forwards to `System` and records, since the last `reset()`, the
//! largest single request, the peak of live bytes and the number of allocations. An oversized
//! request is also reported on a pre-opened descriptor *before* it is forwarded, so that the case
//! is attributed even if the process then dies in `handle_alloc_error`.

use std::alloc::{GlobalAlloc, Layout, System};
use std::sync::atomic::{AtomicI64, AtomicU64, AtomicUsize, Ordering};

pub struct Tracking;

static LARGEST: AtomicUsize = AtomicUsize::new(0);
static LIVE: AtomicI64 = AtomicI64::new(0);
static PEAK: AtomicI64 = AtomicI64::new(0);
static COUNT: AtomicU64 = AtomicU64::new(0);
/// requests above this size are reported immediately on REPORT_FD (0 = off)
static ALARM: AtomicUsize = AtomicUsize::new(0);
static REPORT_FD: AtomicI64 = AtomicI64::new(-1);
/// requests above this size are refused (null) instead of forwarded; 0 = off.
/// Keeps a hostile length prefix from actually taking gigabytes from the machine.
static REFUSE: AtomicUsize = AtomicUsize::new(0);

fn note(size: usize) {
    COUNT.fetch_add(1, Ordering::Relaxed);
    LARGEST.fetch_max(size, Ordering::Relaxed);
    let live = LIVE.fetch_add(size as i64, Ordering::Relaxed) + size as i64;
    PEAK.fetch_max(live, Ordering::Relaxed);
    let alarm = ALARM.load(Ordering::Relaxed);
    if alarm != 0 && size > alarm {
        let fd = REPORT_FD.load(Ordering::Relaxed);
        if fd >= 0 {
            // format without allocating
            let mut buf = [0u8; 40];
            let prefix = b"OVERSIZE ";
            buf[..prefix.len()].copy_from_slice(prefix);
            let mut n = size;
            let mut digits = [0u8; 24];
            let mut k = 0;
            if n == 0 {
                digits[0] = b'0';
                k = 1;
            }
            while n > 0 {
                digits[k] = b'0' + (n % 10) as u8;
                n /= 10;
                k += 1;
            }
            let mut p = prefix.len();
            for i in (0..k).rev() {
                buf[p] = digits[i];
                p += 1;
            }
            buf[p] = b'\n';
            p += 1;
            extern "C" {
                fn write(fd: i32, buf: *const u8, count: usize) -> isize;
            }
            unsafe {
                let _ = write(fd as i32, buf.as_ptr(), p);
            }
        }
    }
}

unsafe impl GlobalAlloc for Tracking {
    unsafe fn alloc(&self, layout: Layout) -> *mut u8 {
        note(layout.size());
        let refuse = REFUSE.load(Ordering::Relaxed);
        if refuse != 0 && layout.size() > refuse {
            return std::ptr::null_mut();
        }
        System.alloc(layout)
    }
    unsafe fn dealloc(&self, ptr: *mut u8, layout: Layout) {
        LIVE.fetch_sub(layout.size() as i64, Ordering::Relaxed);
        System.dealloc(ptr, layout)
    }
    unsafe fn alloc_zeroed(&self, layout: Layout) -> *mut u8 {
        note(layout.size());
        let refuse = REFUSE.load(Ordering::Relaxed);
        if refuse != 0 && layout.size() > refuse {
            return std::ptr::null_mut();
        }
        System.alloc_zeroed(layout)
    }
    unsafe fn realloc(&self, ptr: *mut u8, layout: Layout, new_size: usize) -> *mut u8 {
        if new_size > layout.size() {
            note(new_size - layout.size());
            LARGEST.fetch_max(new_size, Ordering::Relaxed);
        } else {
            LIVE.fetch_sub((layout.size() - new_size) as i64, Ordering::Relaxed);
        }
        let refuse = REFUSE.load(Ordering::Relaxed);
        if refuse != 0 && new_size > refuse {
            return std::ptr::null_mut();
        }
        System.realloc(ptr, layout, new_size)
    }
}

#[derive(Debug, Clone, Copy)]
pub struct Stats {
    pub largest: usize,
    pub peak_live: i64,
    pub count: u64,
}

/// Start a measurement window: peak is measured relative to the live bytes at reset.
pub fn reset() -> i64 {
    LARGEST.store(0, Ordering::Relaxed);
    COUNT.store(0, Ordering::Relaxed);
    let live = LIVE.load(Ordering::Relaxed);
    PEAK.store(live, Ordering::Relaxed);
    live
}

pub fn stats(base_live: i64) -> Stats {
    Stats {
        largest: LARGEST.load(Ordering::Relaxed),
        peak_live: PEAK.load(Ordering::Relaxed) - base_live,
        count: COUNT.load(Ordering::Relaxed),
    }
}

pub fn set_alarm(bytes: usize, fd: i64) {
    ALARM.store(bytes, Ordering::Relaxed);
    REPORT_FD.store(fd, Ordering::Relaxed);
}

pub fn set_refuse(bytes: usize) {
    REFUSE.store(bytes, Ordering::Relaxed);
}

pub fn enabled() -> bool {
    cfg!(feature = "track-alloc")
}
