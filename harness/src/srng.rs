//! I2 — scripted RNG: a seeded ChaCha stream that logs every draw and can return chosen bytes
//! at chosen draw indices. Used to reach the retry loops that a real RNG reaches with
//! probability 2^-255, and to make two executions bit-identical.

use rand_chacha::ChaCha20Rng;
use rand_core::{CryptoRng, RngCore, SeedableRng};
use std::collections::BTreeMap;

#[derive(Debug, Clone, Copy, PartialEq, Eq)]
pub struct Draw {
    pub index: usize,
    pub len: usize,
    pub injected: bool,
}

pub struct ScriptRng {
    base: ChaCha20Rng,
    pub log: Vec<Draw>,
    inject: BTreeMap<usize, Vec<u8>>,
    /// injections whose length did not match the draw they were aimed at
    pub misaligned: usize,
    /// injections that were consumed
    pub consumed: usize,
    /// entropy failure: at this draw `try_fill_bytes` returns an error and the infallible calls panic
    pub fail_at: Option<usize>,
    pub failed: bool,
    /// lazily aligned injections: (length, n-th draw of that length, bytes)
    lazy: Vec<(usize, usize, Vec<u8>)>,
    seen_of_len: BTreeMap<usize, usize>,
}

impl ScriptRng {
    pub fn new(seed: [u8; 32]) -> Self {
        ScriptRng {
            base: ChaCha20Rng::from_seed(seed),
            log: vec![],
            inject: BTreeMap::new(),
            misaligned: 0,
            consumed: 0,
            fail_at: None,
            failed: false,
            lazy: vec![],
            seen_of_len: BTreeMap::new(),
        }
    }
    pub fn from_rng(r: &mut impl RngCore) -> Self {
        let mut seed = [0u8; 32];
        r.fill_bytes(&mut seed);
        Self::new(seed)
    }
    pub fn inject(&mut self, draw_index: usize, bytes: Vec<u8>) {
        let _ = self.inject.insert(draw_index, bytes);
    }
    /// inject at the n-th (0-based) draw of exactly `len` bytes, whenever it happens
    pub fn inject_nth_of_len(&mut self, len: usize, n: usize, bytes: Vec<u8>) {
        self.lazy.push((len, n, bytes));
    }
    pub fn draws(&self) -> usize {
        self.log.len()
    }
    /// indices of draws of exactly `len` bytes
    pub fn draws_of_len(&self, len: usize) -> Vec<usize> {
        self.log.iter().filter(|d| d.len == len).map(|d| d.index).collect()
    }
    fn failing_now(&mut self) -> bool {
        if self.fail_at == Some(self.log.len()) {
            self.failed = true;
            // the failed request still counts as a draw
            self.log.push(Draw { index: self.log.len(), len: 0, injected: false });
            return true;
        }
        false
    }
    fn draw(&mut self, dest: &mut [u8]) {
        if self.failing_now() {
            panic!("scripted entropy failure (infallible RNG call)");
        }
        let index = self.log.len();
        // keep the base stream position independent of injections
        self.base.fill_bytes(dest);
        let mut injected = false;
        {
            let cnt = self.seen_of_len.entry(dest.len()).or_insert(0);
            let nth = *cnt;
            *cnt += 1;
            if let Some(pos) = self.lazy.iter().position(|(l, n, _)| *l == dest.len() && *n == nth) {
                let (_, _, b) = self.lazy.remove(pos);
                dest.copy_from_slice(&b);
                injected = true;
                self.consumed += 1;
            }
        }
        if let Some(b) = self.inject.remove(&index) {
            if b.len() == dest.len() {
                dest.copy_from_slice(&b);
                injected = true;
                self.consumed += 1;
            } else {
                self.misaligned += 1;
            }
        }
        self.log.push(Draw {
            index,
            len: dest.len(),
            injected,
        });
    }
}

impl RngCore for ScriptRng {
    fn next_u32(&mut self) -> u32 {
        let mut b = [0u8; 4];
        self.draw(&mut b);
        u32::from_le_bytes(b)
    }
    fn next_u64(&mut self) -> u64 {
        let mut b = [0u8; 8];
        self.draw(&mut b);
        u64::from_le_bytes(b)
    }
    fn fill_bytes(&mut self, dest: &mut [u8]) {
        self.draw(dest)
    }
    fn try_fill_bytes(&mut self, dest: &mut [u8]) -> Result<(), rand_core::Error> {
        if self.failing_now() {
            return Err(rand_core::Error::from(core::num::NonZeroU32::new(rand_core::Error::CUSTOM_START + 7).unwrap()));
        }
        self.draw(dest);
        Ok(())
    }
}

impl CryptoRng for ScriptRng {}
