//! Registry of every serializable type of both crates (plus wrappers around the public element
//! codecs), each with an honestly produced value, its traced wire form, and a type-erased
//! decoder. Used by C12, C14, C15, C16 and C20.

use crate::ctx::Ctx;
use crate::fixtures::{self, Merchant};
use crate::session::{amount, Sess, Stage};
use crate::tracer::{trace, Trace};
use crate::wire::{dec, enc};
use bls12_381::{G1Affine, G1Projective, G2Affine, G2Projective, Scalar};
use ff::Field;
use group::{Curve, Group};
use rand_core::{CryptoRng, RngCore};
use serde::{de::DeserializeOwned, Deserialize, Serialize};
use zkabacus_crypto as zk;
use zkchannels_crypto::{
    pedersen::{Commitment, PedersenParameters},
    pointcheval_sanders::{BlindedMessage, BlindedSignature, KeyPair, PublicKey, Signature},
    proofs::{
        ChallengeBuilder, CommitmentProof, CommitmentProofBuilder, RangeConstraint, RangeConstraintBuilder,
        RangeConstraintParameters, SignatureProof, SignatureProofBuilder, SignatureRequestProof,
        SignatureRequestProofBuilder,
    },
    BlindingFactor, Message, SerializeElement,
};

/// Wrapper giving the public element codecs a `Serialize`/`Deserialize` face.
#[derive(Serialize, Deserialize)]
#[serde(bound = "T: SerializeElement")]
pub struct Codec<T>(#[serde(with = "SerializeElement")] pub T);

pub struct TypeEntry {
    pub name: String,
    pub trace: Trace,
    /// decode and re-encode
    pub decode: Box<dyn Fn(&[u8]) -> Result<Vec<u8>, String>>,
    /// crate-level grouping used in reports
    pub group: &'static str,
    /// the same value in a second serde format (JSON), and its decoder: the element codecs are
    /// format-generic and some formats give no size hint
    pub json: Vec<u8>,
    pub decode_json: Box<dyn Fn(&[u8]) -> Result<(), String>>,
}

fn entry<T: Serialize + DeserializeOwned + 'static>(group: &'static str, name: &str, v: &T) -> Result<TypeEntry, String> {
    let trace = trace(v).map_err(|e| format!("{}: {}", name, e))?;
    Ok(TypeEntry {
        name: name.to_string(),
        trace,
        decode: Box::new(|b: &[u8]| dec::<T>(b).map(|v| enc(&v))),
        group,
        json: serde_json::to_vec(v).map_err(|e| format!("{}: json: {}", name, e))?,
        decode_json: Box::new(|b: &[u8]| serde_json::from_slice::<T>(b).map(|_| ()).map_err(|e| e.to_string())),
    })
}

fn lib_entries_n<const N: usize>(rng: &mut (impl RngCore + CryptoRng), out: &mut Vec<TypeEntry>) -> Result<(), String> {
    let kp = KeyPair::<N>::new(rng);
    let pk: PublicKey<N> = kp.public_key().clone();
    let msg = Message::<N>::random(rng);
    let sig = msg.sign(rng, &kp);
    let p1 = PedersenParameters::<G1Projective, N>::new(rng);
    let p2 = PedersenParameters::<G2Projective, N>::new(rng);
    out.push(entry("zkchannels-crypto", &format!("KeyPair<{}>", N), &kp)?);
    out.push(entry("zkchannels-crypto", &format!("PublicKey<{}>", N), &pk)?);
    out.push(entry("zkchannels-crypto", &format!("PedersenParameters<G1,{}>", N), &p1)?);
    out.push(entry("zkchannels-crypto", &format!("PedersenParameters<G2,{}>", N), &p2)?);
    // proofs
    let b1 = CommitmentProofBuilder::<G1Projective, N>::generate_proof_commitments(rng, msg.clone(), &[None; N], &p1);
    let c = ChallengeBuilder::new().with(&b1).finish();
    let cp1: CommitmentProof<G1Projective, N> = b1.generate_proof_response(c);
    out.push(entry("zkchannels-crypto", &format!("CommitmentProof<G1,{}>", N), &cp1)?);
    let b2 = CommitmentProofBuilder::<G2Projective, N>::generate_proof_commitments(rng, msg.clone(), &[None; N], &p2);
    let c = ChallengeBuilder::new().with(&b2).finish();
    let cp2: CommitmentProof<G2Projective, N> = b2.generate_proof_response(c);
    out.push(entry("zkchannels-crypto", &format!("CommitmentProof<G2,{}>", N), &cp2)?);
    let sb = SignatureProofBuilder::<N>::generate_proof_commitments(rng, msg.clone(), sig, &[None; N], &pk);
    let c = ChallengeBuilder::new().with(&sb).finish();
    let sp: SignatureProof<N> = sb.generate_proof_response(c);
    out.push(entry("zkchannels-crypto", &format!("SignatureProof<{}>", N), &sp)?);
    let rb = SignatureRequestProofBuilder::<N>::generate_proof_commitments(rng, msg.clone(), &[None; N], &pk);
    let c = ChallengeBuilder::new().with(&rb).finish();
    let rp: SignatureRequestProof<N> = rb.generate_proof_response(c);
    out.push(entry("zkchannels-crypto", &format!("SignatureRequestProof<{}>", N), &rp)?);
    // public codecs on arrays of this length
    let scalars: [Scalar; N] = *msg;
    out.push(entry("codec", &format!("codec [Scalar;{}]", N), &Codec(scalars))?);
    out.push(entry("codec", &format!("codec Box<[Scalar;{}]>", N), &Codec(Box::new(scalars)))?);
    let mut g1s = [G1Affine::identity(); N];
    let mut g2s = [G2Projective::identity(); N];
    for i in 0..N {
        g1s[i] = G1Projective::random(&mut *rng).to_affine();
        g2s[i] = G2Projective::random(&mut *rng);
    }
    out.push(entry("codec", &format!("codec [G1Affine;{}]", N), &Codec(g1s))?);
    out.push(entry("codec", &format!("codec Box<[G2Projective;{}]>", N), &Codec(Box::new(g2s)))?);
    out.push(entry("codec", &format!("codec Vec<G1Affine>/{}", N), &Codec(g1s.to_vec()))?);
    out.push(entry("codec", &format!("codec Vec<Scalar>/{}", N), &Codec(scalars.to_vec()))?);
    Ok(())
}

/// Library-level types for the tuple lengths of this tier.
pub fn lib_entries(rng: &mut (impl RngCore + CryptoRng), thorough: bool) -> Result<Vec<TypeEntry>, String> {
    let mut out = vec![];
    lib_entries_n::<1>(rng, &mut out)?;
    lib_entries_n::<2>(rng, &mut out)?;
    lib_entries_n::<3>(rng, &mut out)?;
    lib_entries_n::<5>(rng, &mut out)?;
    if thorough {
        lib_entries_n::<8>(rng, &mut out)?;
        lib_entries_n::<13>(rng, &mut out)?;
    } else {
        // a few wide instantiations also in the quick tier: arrays of more than a kilobyte take other
        // paths through allocators and codecs than the small ones
        let kp = KeyPair::<13>::new(rng);
        out.push(entry("zkchannels-crypto", "PublicKey<13>", &kp.public_key().clone())?);
        out.push(entry("zkchannels-crypto", "PedersenParameters<G1,13>", &PedersenParameters::<G1Projective, 13>::new(rng))?);
        out.push(entry("zkchannels-crypto", "PedersenParameters<G2,13>", &PedersenParameters::<G2Projective, 13>::new(rng))?);
        let mut wide = [Scalar::zero(); 40];
        for x in wide.iter_mut() {
            *x = Scalar::random(&mut *rng);
        }
        out.push(entry("codec", "codec Box<[Scalar;40]>", &Codec(Box::new(wide)))?);
    }
    // non-generic library types
    let kp = KeyPair::<2>::new(rng);
    let msg = Message::<2>::random(rng);
    let sig = msg.sign(rng, &kp);
    let bf = BlindingFactor::new(rng);
    out.push(entry("zkchannels-crypto", "BlindingFactor", &bf)?);
    out.push(entry("zkchannels-crypto", "Signature", &sig)?);
    let bm: BlindedMessage = msg.blind(kp.public_key(), bf);
    out.push(entry("zkchannels-crypto", "BlindedMessage", &bm)?);
    let bs: BlindedSignature = sig.blind_and_randomize(rng, bf);
    out.push(entry("zkchannels-crypto", "BlindedSignature", &bs)?);
    let p1 = PedersenParameters::<G1Projective, 2>::new(rng);
    let p2 = PedersenParameters::<G2Projective, 2>::new(rng);
    let c1: Commitment<G1Projective> = msg.commit(&p1, bf);
    let c2: Commitment<G2Projective> = msg.commit(&p2, bf);
    out.push(entry("zkchannels-crypto", "Commitment<G1>", &c1)?);
    out.push(entry("zkchannels-crypto", "Commitment<G2>", &c2)?);
    out.push(entry("codec", "codec Scalar", &Codec(Scalar::random(&mut *rng)))?);
    out.push(entry("codec", "codec G1Affine", &Codec(G1Projective::random(&mut *rng).to_affine()))?);
    out.push(entry("codec", "codec G1Projective", &Codec(G1Projective::random(&mut *rng)))?);
    out.push(entry("codec", "codec G2Affine", &Codec(G2Projective::random(&mut *rng).to_affine()))?);
    out.push(entry("codec", "codec G2Projective", &Codec(G2Projective::random(&mut *rng)))?);
    out.push(entry("codec", "codec Vec<G2Affine>/0", &Codec(Vec::<G2Affine>::new()))?);
    Ok(out)
}

/// Range parameters and a range constraint (the heavy library types).
pub fn range_entries(m: &Merchant, rng: &mut (impl RngCore + CryptoRng)) -> Result<Vec<TypeEntry>, String> {
    let mut out = vec![];
    let rp: &RangeConstraintParameters = m.ccfg.range_constraint_parameters();
    out.push(entry("zkchannels-crypto", "RangeConstraintParameters", rp)?);
    let b = RangeConstraintBuilder::generate_constraint_commitments(123_456_789_012, rp, rng).map_err(|e| e.to_string())?;
    let c = ChallengeBuilder::new().with(&b).finish();
    let rc: RangeConstraint = b.generate_constraint_response(c);
    out.push(entry("zkchannels-crypto", "RangeConstraint", &rc)?);
    Ok(out)
}

/// zkAbacus types, produced by a real session against merchant `m`.
pub fn abacus_entries(m: &'static Merchant, rng: &mut (impl RngCore + CryptoRng)) -> Result<Vec<TypeEntry>, String> {
    let g = "zkabacus-crypto";
    let mut out = vec![];
    out.push(entry(g, "customer::Config", &m.ccfg)?);
    out.push(entry(g, "Error::AmountTooLarge", &zk::Error::AmountTooLarge(77))?);
    out.push(entry(g, "Error::InsufficientFunds", &zk::Error::InsufficientFunds)?);
    out.push(entry(g, "PaymentAmount", &amount(-12345)?)?);
    out.push(entry(g, "CustomerRandomness", &zk::CustomerRandomness::new(rng))?);
    out.push(entry(g, "MerchantRandomness", &zk::MerchantRandomness::new(rng))?);
    out.push(entry(g, "MerchantBalance", &zk::MerchantBalance::try_new(1 << 40).map_err(|e| format!("{:?}", e))?)?);
    out.push(entry(g, "CustomerBalance", &zk::CustomerBalance::try_new(i64::MAX as u64).map_err(|e| format!("{:?}", e))?)?);
    out.push(entry(g, "Nonce", &zk::internal::test_new_nonce(rng))?);
    let pair = zk::internal::test_new_revocation_pair(rng);
    out.push(entry(g, "RevocationLock", &pair.revocation_lock())?);
    out.push(entry(g, "RevocationSecret", &pair.revocation_secret())?);
    out.push(entry(g, "RevocationPair", &pair)?);

    // a session: establish, one full payment, one payment in flight
    let cid = crate::session::new_channel_id(m, rng, b"m", b"c");
    out.push(entry(g, "ChannelId", &cid)?);
    let (mut s, proof) = Sess::request(m, rng, cid, 1000, 50, b"types")?;
    out.push(entry(g, "EstablishProof", &dec::<zk::EstablishProof>(&proof)?)?);
    if let Stage::Requested(r) = &s.stage {
        out.push(entry(g, "customer::Requested", r)?);
    }
    let sig = s.m_initialize(rng, 1000, 50, &proof, b"types")?.ok_or("types: honest establish refused")?;
    out.push(entry(g, "ClosingSignature", &dec::<zk::ClosingSignature>(&sig)?)?);
    if !s.c_complete(&sig)? {
        return Err("types: honest closing signature refused".into());
    }
    if let Stage::Inactive(r) = &s.stage {
        out.push(entry(g, "customer::Inactive", r)?);
    }
    let tok = s.m_activate(rng)?;
    out.push(entry(g, "PayToken", &dec::<zk::PayToken>(&tok)?)?);
    if !s.c_activate(&tok)? {
        return Err("types: honest pay token refused".into());
    }
    s.pay(rng, amount(7)?, b"types")?.map_err(|e| format!("{:?}", e))?;
    if let Stage::Ready(r) = &s.stage {
        out.push(entry(g, "customer::Ready", r)?);
    }
    if let Some(cm) = s.stage.close_from_copy(rng)? {
        out.push(entry(g, "customer::ClosingMessage", &cm)?);
        let (csig, cstate) = cm.into_parts();
        out.push(entry(g, "CloseStateSignature", &csig)?);
        out.push(entry(g, "CloseState", &cstate)?);
    }
    let (nonce, pproof) = s.c_start(rng, amount(-3)?, b"types")?.map_err(|e| format!("{:?}", e))?;
    let _ = nonce;
    out.push(entry(g, "PayProof", &dec::<zk::PayProof>(&pproof)?)?);
    if let Stage::Started(r) = &s.stage {
        out.push(entry(g, "customer::Started", r)?);
    }
    let sig = s.m_allow(rng, amount(-3)?, &nonce, &pproof, b"types")?.ok_or("types: honest pay proof refused")?;
    let (pairb, bfb) = s.c_lock(&sig)?.ok_or("types: honest closing signature refused (pay)")?;
    out.push(entry(g, "RevocationLockBlindingFactor", &dec::<zk::revlock::RevocationLockBlindingFactor>(&bfb)?)?);
    let _ = pairb;
    if let Stage::Locked(r) = &s.stage {
        out.push(entry(g, "customer::Locked", r)?);
    }
    // revocation lock commitment: the commitment atom of the accepted pay proof
    let pt = trace(&dec::<zk::PayProof>(&pproof)?)?;
    let com = pt.fget("old_revocation_lock_proof/commitment")?;
    out.push(entry(g, "RevocationLockCommitment", &dec::<zk::revlock::RevocationLockCommitment>(&com)?)?);
    Ok(out)
}

/// Everything, for one merchant fixture.
pub fn all_entries(c: &Ctx, m: &'static Merchant, label: &str) -> Result<Vec<TypeEntry>, String> {
    let mut rng = Ctx::fixture_rng(c.seed, &format!("types/{}", label));
    let mut v = lib_entries(&mut rng, c.tier == crate::ctx::Tier::Thorough)?;
    v.extend(range_entries(m, &mut rng)?);
    v.extend(abacus_entries(m, &mut rng)?);
    Ok(v)
}

pub fn default_merchant(c: &Ctx) -> Result<&'static Merchant, String> {
    fixtures::merchant(c.seed, "m0")
}
