//! I5 — shadow prover / forger: an independent customer-side prover written on `bls12_381`
//! arithmetic only. It takes a witness (what is really committed to), lets the caller deviate
//! at every step, and emits proof bytes by substituting atoms into the traced layout of an honest
//! proof (so the layout is observed, not hard-coded). The verifier's challenge for a draft is
//! read through the challenge-recorder hook, as a real adversary would compute it himself.

use crate::fixtures::Merchant;
use crate::refs::*;
use crate::tracer::Trace;
use crate::wire::{dec, enc};
use bls12_381::{G1Affine, G1Projective, G2Projective, Scalar};
use ff::Field;
use group::{Curve, Group, GroupEncoding};
use rand_core::{CryptoRng, RngCore};
use zkabacus_crypto::{
    ChannelId, Context, CustomerBalance, EstablishProof, MerchantBalance, Nonce, PayProof,
    PaymentAmount,
};
use zkchannels_crypto::proofs::verif_hooks;

#[derive(Debug, Clone)]
pub struct Resp {
    pub bf: Scalar,
    pub msg: Vec<Scalar>,
}

/// A Schnorr proof of knowledge of an opening of a Pedersen commitment, prover side.
#[derive(Debug, Clone)]
pub struct Schnorr<G> {
    pub h: G,
    pub gs: Vec<G>,
    pub msg: Vec<Scalar>,
    pub bf: Scalar,
    pub cs: Vec<Scalar>,
    pub bf_cs: Scalar,
    pub com: G,
    pub t: G,
}

pub fn pedersen<G: Group<Scalar = Scalar>>(h: &G, gs: &[G], msg: &[Scalar], r: &Scalar) -> G {
    let mut acc = *h * *r;
    for i in 0..gs.len() {
        acc += gs[i] * msg[i];
    }
    acc
}

impl<G: Group<Scalar = Scalar> + GroupEncoding> Schnorr<G> {
    pub fn commit(rng: &mut impl RngCore, h: G, gs: Vec<G>, msg: Vec<Scalar>, cs: &[Option<Scalar>]) -> Self {
        let bf = Scalar::random(&mut *rng);
        let bf_cs = Scalar::random(&mut *rng);
        let cs: Vec<Scalar> = cs.iter().map(|c| c.unwrap_or_else(|| Scalar::random(&mut *rng))).collect();
        let mut s = Schnorr {
            h,
            gs,
            msg,
            bf,
            cs,
            bf_cs,
            com: G::identity(),
            t: G::identity(),
        };
        s.recompute();
        s
    }
    /// recompute C and T from the current witness and commitment scalars
    pub fn recompute(&mut self) {
        self.com = pedersen(&self.h, &self.gs, &self.msg, &self.bf);
        self.t = pedersen(&self.h, &self.gs, &self.cs, &self.bf_cs);
    }
    pub fn respond(&self, c: &Scalar) -> Resp {
        Resp {
            bf: *c * self.bf + self.bf_cs,
            msg: self.msg.iter().zip(self.cs.iter()).map(|(m, s)| *c * *m + *s).collect(),
        }
    }
    /// responses "as if" the message were `claimed` (the commitment still opens to `self.msg`)
    pub fn respond_as(&self, c: &Scalar, claimed: &[Scalar]) -> Resp {
        Resp {
            bf: *c * self.bf + self.bf_cs,
            msg: claimed.iter().zip(self.cs.iter()).map(|(m, s)| *c * *m + *s).collect(),
        }
    }
    /// T' such that the Schnorr equation holds for `resp` under challenge `c` (simulation)
    pub fn t_for(&self, c: &Scalar, resp: &Resp) -> G {
        pedersen(&self.h, &self.gs, &resp.msg, &resp.bf) - self.com * *c
    }
    pub fn com_bytes(&self) -> Vec<u8> {
        self.com.to_bytes().as_ref().to_vec()
    }
    pub fn t_bytes(&self) -> Vec<u8> {
        self.t.to_bytes().as_ref().to_vec()
    }
}

/// write a commitment proof under field prefix `p`
pub fn fill_commitment_proof(tr: &mut Trace, p: &str, com: &[u8], t: &[u8], r: &Resp) -> Result<(), String> {
    tr.fset(&format!("{}/commitment", p), com)?;
    tr.fset(&format!("{}/scalar_commitment", p), t)?;
    tr.fset(&format!("{}/blinding_factor_response_scalar", p), &r.bf.to_bytes())?;
    for (i, s) in r.msg.iter().enumerate() {
        tr.fset(&format!("{}/message_response_scalars/[{}]", p, i), &s.to_bytes())?;
    }
    // the template must not hold more response scalars than we wrote
    if !tr.by_fpath(&format!("{}/message_response_scalars/[{}]", p, r.msg.len())).is_empty() {
        return Err(format!("shadow: template has more response scalars under {} than the prover", p));
    }
    Ok(())
}

pub fn g1_generators(pk: &PkAtoms) -> (G1Projective, Vec<G1Projective>) {
    (pk.g1.into(), pk.y1s.iter().map(|y| (*y).into()).collect())
}
pub fn g2_generators(pk: &PkAtoms) -> (G2Projective, Vec<G2Projective>) {
    (pk.g2.into(), pk.y2s.iter().map(|y| (*y).into()).collect())
}

/// Proof of knowledge of a signature, prover side.
#[derive(Debug, Clone)]
pub struct SigProver {
    pub sch: Schnorr<G2Projective>,
    pub s1: G1Projective,
    pub s2: G1Projective,
}

impl SigProver {
    /// blind with the Schnorr blinding factor and randomize with a fresh `r`
    pub fn commit(
        rng: &mut impl RngCore,
        pk: &PkAtoms,
        msg: Vec<Scalar>,
        sig: (G1Affine, G1Affine),
        cs: &[Option<Scalar>],
    ) -> Self {
        let (h, gs) = g2_generators(pk);
        let sch = Schnorr::commit(rng, h, gs, msg, cs);
        let r = Scalar::random(&mut *rng);
        let s1 = G1Projective::from(sig.0) * r;
        let s2 = (G1Projective::from(sig.1) + G1Projective::from(sig.0) * sch.bf) * r;
        SigProver { sch, s1, s2 }
    }
    /// like `commit`, with the signature randomiser chosen by the caller
    pub fn commit_with_r(
        rng: &mut impl RngCore,
        pk: &PkAtoms,
        msg: Vec<Scalar>,
        sig: (G1Affine, G1Affine),
        cs: &[Option<Scalar>],
        r: Scalar,
    ) -> Self {
        let (h, gs) = g2_generators(pk);
        let sch = Schnorr::commit(rng, h, gs, msg, cs);
        let s1 = G1Projective::from(sig.0) * r;
        let s2 = (G1Projective::from(sig.1) + G1Projective::from(sig.0) * sch.bf) * r;
        SigProver { sch, s1, s2 }
    }
    pub fn fill(&self, tr: &mut Trace, p: &str, r: &Resp) -> Result<(), String> {
        tr.fset(&format!("{}/blinded_signature/sigma1", p), &self.s1.to_affine().to_compressed())?;
        tr.fset(&format!("{}/blinded_signature/sigma2", p), &self.s2.to_affine().to_compressed())?;
        fill_commitment_proof(tr, &format!("{}/commitment_proof", p), &self.sch.com_bytes(), &self.sch.t_bytes(), r)
    }
}

/// Range constraint, prover side: digits are arbitrary scalars, each with the published
/// signature the prover chooses to present for it.
#[derive(Debug, Clone)]
pub struct RangeProver {
    pub digits: Vec<SigProver>,
    pub radix: u64,
}

impl RangeProver {
    /// `digits[j]` is the scalar placed in digit position j, `sig_idx[j]` the published digit
    /// signature presented for it.
    pub fn commit(rng: &mut impl RngCore, m: &Merchant, digits: &[Scalar], sig_idx: &[usize]) -> Self {
        let ds = digits
            .iter()
            .zip(sig_idx.iter())
            .map(|(d, i)| SigProver::commit(rng, &m.range_pk, vec![*d], m.digit_sigs[*i % m.digit_sigs.len()], &[None]))
            .collect();
        RangeProver {
            digits: ds,
            radix: m.digit_sigs.len() as u64,
        }
    }
    /// like `commit`, but the digit proofs at the positions in `shared` use one common signature
    /// randomiser (a prover is free to do that)
    pub fn commit_shared(rng: &mut impl RngCore, m: &Merchant, digits: &[Scalar], sig_idx: &[usize], shared: &[usize]) -> Self {
        let common = Scalar::random(&mut *rng);
        let ds = digits
            .iter()
            .zip(sig_idx.iter())
            .enumerate()
            .map(|(j, (d, i))| {
                let sig = m.digit_sigs[*i % m.digit_sigs.len()];
                if shared.contains(&j) {
                    SigProver::commit_with_r(rng, &m.range_pk, vec![*d], sig, &[None], common)
                } else {
                    SigProver::commit(rng, &m.range_pk, vec![*d], sig, &[None])
                }
            })
            .collect();
        RangeProver {
            digits: ds,
            radix: m.digit_sigs.len() as u64,
        }
    }
    /// honest decomposition of a value in [0, radix^L)
    pub fn honest(rng: &mut impl RngCore, m: &Merchant, value: u64, ndigits: usize) -> Self {
        let radix = m.digit_sigs.len() as u64;
        let mut v = value;
        let mut ds = vec![];
        let mut idx = vec![];
        for _ in 0..ndigits {
            ds.push(Scalar::from(v % radix));
            idx.push((v % radix) as usize);
            v /= radix;
        }
        Self::commit(rng, m, &ds, &idx)
    }
    /// sum_j radix^j * cs_j
    pub fn commitment_scalar(&self) -> Scalar {
        let mut acc = Scalar::zero();
        let mut pw = Scalar::one();
        for d in &self.digits {
            acc += pw * d.sch.cs[0];
            pw *= Scalar::from(self.radix);
        }
        acc
    }
    /// value represented by the digit scalars: sum_j radix^j * d_j
    pub fn represented(&self) -> Scalar {
        let mut acc = Scalar::zero();
        let mut pw = Scalar::one();
        for d in &self.digits {
            acc += pw * d.sch.msg[0];
            pw *= Scalar::from(self.radix);
        }
        acc
    }
    pub fn fill(&self, tr: &mut Trace, p: &str, c: &Scalar) -> Result<(), String> {
        for (j, d) in self.digits.iter().enumerate() {
            d.fill(tr, &format!("{}/digit_proofs/[{}]", p, j), &d.sch.respond(c))?;
        }
        if !tr.by_fpath(&format!("{}/digit_proofs/[{}]/blinded_signature/sigma1", p, self.digits.len())).is_empty() {
            return Err("shadow: template range constraint has more digits than the prover".into());
        }
        Ok(())
    }
}

/// number of digit proofs in a traced proof under prefix `p`
pub fn template_digits(tr: &Trace, p: &str) -> usize {
    let mut n = 0;
    while !tr.by_fpath(&format!("{}/digit_proofs/[{}]/blinded_signature/sigma1", p, n)).is_empty() {
        n += 1;
    }
    n
}

// ------------------------------------------------------------------------------------------
// Establish

pub const EST_REVEALED: [&str; 4] = [
    "channel_id_commitment_scalar",
    "close_tag_commitment_scalar",
    "customer_balance_commitment_scalar",
    "merchant_balance_commitment_scalar",
];

#[derive(Debug, Clone)]
pub struct EstProver {
    pub state: Schnorr<G1Projective>,
    pub close: Schnorr<G1Projective>,
    /// revealed commitment scalars: channel id, close tag, customer balance, merchant balance
    pub revealed: [Scalar; 4],
}

impl EstProver {
    /// the honest commitment phase on arbitrary hidden messages
    pub fn commit(rng: &mut impl RngCore, pk: &PkAtoms, state_msg: [Scalar; 5], close_msg: [Scalar; 5]) -> Self {
        let (h, gs) = g1_generators(pk);
        let state = Schnorr::commit(rng, h, gs.clone(), state_msg.to_vec(), &[None; 5]);
        let cs = state.cs.clone();
        let close = Schnorr::commit(
            rng,
            h,
            gs,
            close_msg.to_vec(),
            &[Some(cs[0]), None, Some(cs[2]), Some(cs[3]), Some(cs[4])],
        );
        let revealed = [close.cs[0], close.cs[1], close.cs[3], close.cs[4]];
        EstProver { state, close, revealed }
    }
    pub fn assemble(&self, template: &Trace, rs: &Resp, rc: &Resp) -> Result<Vec<u8>, String> {
        let mut tr = template.clone();
        for (i, name) in EST_REVEALED.iter().enumerate() {
            tr.fset(name, &self.revealed[i].to_bytes())?;
        }
        fill_commitment_proof(&mut tr, "state_proof/commitment_proof", &self.state.com_bytes(), &self.state.t_bytes(), rs)?;
        fill_commitment_proof(&mut tr, "close_state_proof/commitment_proof", &self.close.com_bytes(), &self.close.t_bytes(), rc)?;
        Ok(tr.bytes)
    }
    pub fn zero_resp() -> Resp {
        Resp {
            bf: Scalar::zero(),
            msg: vec![Scalar::zero(); 5],
        }
    }
}

pub struct EstOutcome {
    /// (closing signature bytes, pay token bytes) when accepted
    pub accepted: Option<(Vec<u8>, Vec<u8>)>,
    /// the challenge the verifier derived (hook)
    pub challenge: Scalar,
    pub transcript: Vec<Vec<u8>>,
}

/// Submit establish-proof bytes to the real merchant and read the challenge through the hook.
pub fn submit_establish(
    m: &Merchant,
    rng: &mut (impl RngCore + CryptoRng),
    cid: &ChannelId,
    cust: u64,
    merch: u64,
    proof_bytes: &[u8],
    context: &[u8],
) -> Result<EstOutcome, String> {
    let proof: EstablishProof = dec(proof_bytes).map_err(|e| format!("shadow establish proof does not decode: {}", e))?;
    let cb = CustomerBalance::try_new(cust).map_err(|e| format!("{:?}", e))?;
    let mb = MerchantBalance::try_new(merch).map_err(|e| format!("{:?}", e))?;
    verif_hooks::clear();
    let r = m.cfg.initialize(rng, cid, cb, mb, proof, &Context::new(context));
    let recs = verif_hooks::drain();
    if recs.len() != 1 {
        return Err(format!("hook: expected exactly one challenge record for initialize, saw {}", recs.len()));
    }
    let challenge = sc(&recs[0].challenge).ok_or("hook: challenge is not a canonical scalar")?;
    let accepted = r.map(|(sig, bs)| {
        let tok = m.cfg.activate(rng, bs);
        (enc(&sig), enc(&tok))
    });
    Ok(EstOutcome {
        accepted,
        challenge,
        transcript: recs[0].segments.clone(),
    })
}

/// A blinded signature (two G1 atoms) unblinded with `bf`.
pub fn unblind_bytes(sig_bytes: &[u8], bf: &Scalar) -> Result<(G1Affine, G1Affine), String> {
    if sig_bytes.len() != 96 {
        return Err(format!("blinded signature has {} bytes, expected 96", sig_bytes.len()));
    }
    let s1 = g1(&sig_bytes[..48]).ok_or("blinded signature: sigma1 does not decode")?;
    let s2 = g1(&sig_bytes[48..]).ok_or("blinded signature: sigma2 does not decode")?;
    Ok(unblind_ref(&s1, &s2, bf))
}

// ------------------------------------------------------------------------------------------
// Pay

#[derive(Debug, Clone)]
pub struct PayProver {
    pub cust_range: RangeProver,
    pub merch_range: RangeProver,
    pub revlock: Schnorr<G1Projective>,
    pub token: SigProver,
    pub state: Schnorr<G1Projective>,
    pub close: Schnorr<G1Projective>,
    pub old_nonce_cs: Scalar,
    pub close_tag_cs: Scalar,
}

pub struct PayWitness {
    pub old_state: [Scalar; 5],
    /// unblinded pay token presented for the old state
    pub token: (G1Affine, G1Affine),
    pub new_state: [Scalar; 5],
    pub new_close: [Scalar; 5],
    /// value committed to in the revocation-lock commitment
    pub committed_lock: Scalar,
    /// digit scalars / presented signatures for the two range constraints
    pub cust_digits: Vec<Scalar>,
    pub cust_sig_idx: Vec<usize>,
    pub merch_digits: Vec<Scalar>,
    pub merch_sig_idx: Vec<usize>,
}

pub fn digits_of(v: u64, radix: u64, n: usize) -> (Vec<Scalar>, Vec<usize>) {
    let mut v = v;
    let mut ds = vec![];
    let mut idx = vec![];
    for _ in 0..n {
        ds.push(Scalar::from(v % radix));
        idx.push((v % radix) as usize);
        v /= radix;
    }
    (ds, idx)
}

impl PayProver {
    /// the honest commitment phase (same linking of commitment scalars as the protocol) on an
    /// arbitrary witness
    pub fn commit(rng: &mut impl RngCore, m: &Merchant, w: &PayWitness) -> Self {
        let cust_range = RangeProver::commit(rng, m, &w.cust_digits, &w.cust_sig_idx);
        let merch_range = RangeProver::commit(rng, m, &w.merch_digits, &w.merch_sig_idx);
        let cs_cust = cust_range.commitment_scalar();
        let cs_merch = merch_range.commitment_scalar();
        let revlock = Schnorr::commit(rng, m.rev_h.into(), vec![m.rev_g.into()], vec![w.committed_lock], &[None]);
        let cs_rl = revlock.cs[0];
        let token = SigProver::commit(
            rng,
            &m.pk,
            w.old_state.to_vec(),
            w.token,
            &[None, None, Some(cs_rl), Some(cs_cust), Some(cs_merch)],
        );
        let (h, gs) = g1_generators(&m.pk);
        let state = Schnorr::commit(
            rng,
            h,
            gs.clone(),
            w.new_state.to_vec(),
            &[Some(token.sch.cs[0]), None, None, Some(cs_cust), Some(cs_merch)],
        );
        let cs = state.cs.clone();
        let close = Schnorr::commit(
            rng,
            h,
            gs,
            w.new_close.to_vec(),
            &[Some(cs[0]), None, Some(cs[2]), Some(cs[3]), Some(cs[4])],
        );
        let old_nonce_cs = token.sch.cs[1];
        let close_tag_cs = close.cs[1];
        PayProver {
            cust_range,
            merch_range,
            revlock,
            token,
            state,
            close,
            old_nonce_cs,
            close_tag_cs,
        }
    }

    /// honest responses for challenge c
    pub fn responses(&self, c: &Scalar) -> PayResponses {
        PayResponses {
            revlock: self.revlock.respond(c),
            token: self.token.sch.respond(c),
            state: self.state.respond(c),
            close: self.close.respond(c),
        }
    }

    pub fn assemble(&self, template: &Trace, c: &Scalar, r: &PayResponses) -> Result<Vec<u8>, String> {
        let mut tr = template.clone();
        tr.fset("old_nonce_commitment_scalar", &self.old_nonce_cs.to_bytes())?;
        tr.fset("close_tag_commitment_scalar", &self.close_tag_cs.to_bytes())?;
        self.token.fill(&mut tr, "old_pay_token_proof", &r.token)?;
        fill_commitment_proof(&mut tr, "old_revocation_lock_proof", &self.revlock.com_bytes(), &self.revlock.t_bytes(), &r.revlock)?;
        fill_commitment_proof(&mut tr, "state_proof/commitment_proof", &self.state.com_bytes(), &self.state.t_bytes(), &r.state)?;
        fill_commitment_proof(&mut tr, "close_state_proof/commitment_proof", &self.close.com_bytes(), &self.close.t_bytes(), &r.close)?;
        self.cust_range.fill(&mut tr, "customer_balance_proof", c)?;
        self.merch_range.fill(&mut tr, "merchant_balance_proof", c)?;
        Ok(tr.bytes)
    }
}

#[derive(Debug, Clone)]
pub struct PayResponses {
    pub revlock: Resp,
    pub token: Resp,
    pub state: Resp,
    pub close: Resp,
}

pub struct PayOutcome {
    /// closing signature bytes when accepted
    pub accepted: Option<Vec<u8>>,
    pub challenge: Scalar,
    pub transcript: Vec<Vec<u8>>,
}

/// Submit pay-proof bytes to the real merchant; the Unrevoked value (if any) is handed to `on_accept`.
pub fn submit_pay<R>(
    m: &'static Merchant,
    rng: &mut (impl RngCore + CryptoRng),
    amount: PaymentAmount,
    nonce_bytes: &[u8],
    proof_bytes: &[u8],
    context: &[u8],
    on_accept: impl FnOnce(zkabacus_crypto::merchant::Unrevoked<'static>) -> R,
) -> Result<(PayOutcome, Option<R>), String> {
    let nonce: Nonce = dec(nonce_bytes).map_err(|e| format!("shadow nonce does not decode: {}", e))?;
    let proof: PayProof = dec(proof_bytes).map_err(|e| format!("shadow pay proof does not decode: {}", e))?;
    verif_hooks::clear();
    let r = m.cfg.allow_payment(rng, amount, &nonce, proof, &Context::new(context));
    let recs = verif_hooks::drain();
    if recs.len() != 1 {
        return Err(format!("hook: expected exactly one challenge record for allow_payment, saw {}", recs.len()));
    }
    let challenge = sc(&recs[0].challenge).ok_or("hook: challenge is not a canonical scalar")?;
    let (accepted, extra) = match r {
        Some((unrev, sig)) => (Some(enc(&sig)), Some(on_accept(unrev))),
        None => (None, None),
    };
    Ok((
        PayOutcome {
            accepted,
            challenge,
            transcript: recs[0].segments.clone(),
        },
        extra,
    ))
}
