//! Worker-side recorder: case bookkeeping (BEGIN/END progress log), sharding, per-case seeded
//! randomness, distinct-case counting, samples, violations and inconclusive reasons.
//!
//! A worker never decides the exit status of a check; it only reports what its monitors
//! observed. `/verif/check` merges the reports of all shards and judges.

use rand_chacha::ChaCha20Rng;
use rand_core::SeedableRng;
use serde_json::{json, Value};
use sha3::{Digest, Sha3_256};
use std::cell::RefCell;
use std::collections::{BTreeMap, BTreeSet};
use std::io::Write;
use std::panic::{catch_unwind, AssertUnwindSafe};

#[derive(Debug, Clone, Copy, PartialEq, Eq)]
pub enum Tier {
    Quick,
    Thorough,
}

impl Tier {
    pub fn pick<T>(self, quick: T, thorough: T) -> T {
        match self {
            Tier::Quick => quick,
            Tier::Thorough => thorough,
        }
    }
    pub fn name(self) -> &'static str {
        match self {
            Tier::Quick => "quick",
            Tier::Thorough => "thorough",
        }
    }
}

#[derive(Debug, Clone)]
pub struct PanicInfo {
    pub message: String,
    pub location: String,
}

thread_local! {
    static LAST_PANIC: RefCell<Option<PanicInfo>> = RefCell::new(None);
}

pub fn install_panic_hook() {
    std::panic::set_hook(Box::new(|info| {
        let message = if let Some(s) = info.payload().downcast_ref::<&str>() {
            s.to_string()
        } else if let Some(s) = info.payload().downcast_ref::<String>() {
            s.clone()
        } else {
            "<non-string panic payload>".to_string()
        };
        let location = info
            .location()
            .map(|l| format!("{}:{}", l.file(), l.line()))
            .unwrap_or_else(|| "<unknown>".into());
        LAST_PANIC.with(|p| *p.borrow_mut() = Some(PanicInfo { message, location }));
    }));
}

/// Run `f`, converting a panic into `Err(PanicInfo)`.
pub fn guard<T>(f: impl FnOnce() -> T) -> Result<T, PanicInfo> {
    LAST_PANIC.with(|p| *p.borrow_mut() = None);
    match catch_unwind(AssertUnwindSafe(f)) {
        Ok(v) => Ok(v),
        Err(_) => Err(LAST_PANIC.with(|p| p.borrow_mut().take()).unwrap_or(PanicInfo {
            message: "<panic without hook record>".into(),
            location: "<unknown>".into(),
        })),
    }
}

pub fn hex(bytes: &[u8]) -> String {
    let mut s = String::with_capacity(bytes.len() * 2);
    for b in bytes {
        s.push_str(&format!("{:02x}", b));
    }
    s
}

pub fn unhex(s: &str) -> Option<Vec<u8>> {
    if s.len() % 2 != 0 {
        return None;
    }
    (0..s.len() / 2)
        .map(|i| u8::from_str_radix(&s[2 * i..2 * i + 2], 16).ok())
        .collect()
}

pub fn hash64(parts: &[&[u8]]) -> u64 {
    let mut h = Sha3_256::new();
    for p in parts {
        h.update((p.len() as u64).to_le_bytes());
        h.update(p);
    }
    let d = h.finalize();
    u64::from_le_bytes([d[0], d[1], d[2], d[3], d[4], d[5], d[6], d[7]])
}

pub struct Ctx {
    pub prop: String,
    pub tier: Tier,
    pub seed: u64,
    pub shard: usize,
    pub nshards: usize,
    /// replay filter: run only the case with exactly this name
    pub only: Option<String>,
    /// free-form parameters (replay payloads etc.)
    pub params: BTreeMap<String, String>,
    case_counter: u64,
    cur_case: Option<String>,
    cases_run: u64,
    evaluations: u64,
    distinct: BTreeSet<u64>,
    samples: Vec<Value>,
    sample_cap: usize,
    counters: BTreeMap<String, i64>,
    maxes: BTreeMap<String, i64>,
    notes: BTreeMap<String, Value>,
    violations: Vec<Value>,
    inconclusive: Vec<String>,
    progress: Option<std::fs::File>,
    pub verbose: bool,
    /// case enumeration indices to skip (supervisor restart after a worker died in them)
    pub skip: BTreeSet<u64>,
    /// run only every k-th case of the enumeration (sanitizer layers)
    pub sample_every: u64,
}

impl Ctx {
    pub fn new(
        prop: &str,
        tier: Tier,
        seed: u64,
        shard: usize,
        nshards: usize,
        only: Option<String>,
        progress_path: Option<&str>,
    ) -> Self {
        let progress = progress_path.map(|p| {
            std::fs::OpenOptions::new()
                .create(true)
                .append(true)
                .open(p)
                .expect("cannot open progress log")
        });
        Ctx {
            prop: prop.to_string(),
            tier,
            seed,
            shard,
            nshards,
            only,
            params: BTreeMap::new(),
            case_counter: 0,
            cur_case: None,
            cases_run: 0,
            evaluations: 0,
            distinct: BTreeSet::new(),
            samples: vec![],
            sample_cap: 6,
            counters: BTreeMap::new(),
            maxes: BTreeMap::new(),
            notes: BTreeMap::new(),
            violations: vec![],
            inconclusive: vec![],
            progress,
            verbose: false,
            skip: BTreeSet::new(),
            sample_every: 1,
        }
    }

    /// Deterministic RNG for a label: independent of shard count and of execution order.
    pub fn rng(&self, label: &str) -> ChaCha20Rng {
        let mut h = Sha3_256::new();
        h.update(b"zkmon-rng-v1");
        h.update(self.seed.to_le_bytes());
        h.update(self.prop.as_bytes());
        h.update([0u8]);
        h.update(label.as_bytes());
        let d = h.finalize();
        let mut seed = [0u8; 32];
        seed.copy_from_slice(&d);
        ChaCha20Rng::from_seed(seed)
    }

    /// RNG for a label that does not depend on the property (shared fixtures).
    pub fn fixture_rng(seed: u64, label: &str) -> ChaCha20Rng {
        let mut h = Sha3_256::new();
        h.update(b"zkmon-fixture-v1");
        h.update(seed.to_le_bytes());
        h.update(label.as_bytes());
        let d = h.finalize();
        let mut s = [0u8; 32];
        s.copy_from_slice(&d);
        ChaCha20Rng::from_seed(s)
    }

    fn log(&mut self, v: Value) {
        if let Some(f) = self.progress.as_mut() {
            let _ = writeln!(f, "{}", v);
            let _ = f.flush();
        }
    }

    /// Decide whether this worker runs the next case (round-robin over shards), and run it.
    /// A panic escaping `f` is a harness-level problem and makes the run inconclusive.
    pub fn case(&mut self, name: &str, f: impl FnOnce(&mut Ctx)) {
        let k = self.case_counter;
        self.case_counter += 1;
        match &self.only {
            Some(o) => {
                if o != name {
                    return;
                }
            }
            None => {
                if (k % self.nshards as u64) as usize != self.shard {
                    return;
                }
                if self.skip.contains(&k) {
                    return;
                }
                if self.sample_every > 1 && (k / self.nshards as u64) % self.sample_every != 0 {
                    return;
                }
            }
        }
        self.cur_case = Some(name.to_string());
        self.cases_run += 1;
        self.log(json!({"ev": "BEGIN", "case": name, "k": k}));
        let r = guard(|| f(self));
        if let Err(p) = r {
            // A panic raised inside the library under test (location in one of its crates) while a
            // monitor was driving its API is an observation about the library: every property here is
            // about total functions. A panic located in the harness (or unattributable) is a harness
            // problem and makes the run inconclusive.
            let in_library = (p.location.contains("zkchannels-crypto/") || p.location.contains("zkabacus-crypto/"))
                && !p.location.contains("/verif/harness");
            if in_library {
                let loc = crate::props::util::repo_rel(&p.location);
                let prop = self.prop.clone();
                self.violation(
                    &format!("{} library-panic loc={}", prop, loc),
                    json!({"panic": p.message, "location": p.location, "case": name}),
                );
            } else {
                self.inconclusive.push(format!(
                    "panic escaped case {:?}: {} at {}",
                    name, p.message, p.location
                ));
            }
        }
        self.log(json!({"ev": "END", "case": name}));
        self.cur_case = None;
    }

    pub fn is_replay(&self) -> bool {
        self.only.is_some()
    }

    pub fn eval(&mut self) {
        self.evaluations += 1;
    }
    pub fn evals(&mut self, n: u64) {
        self.evaluations += n;
    }
    /// Register a distinct, non-trivial case key (hashed).
    pub fn distinct(&mut self, key: &str) {
        let _ = self.distinct.insert(hash64(&[key.as_bytes()]));
    }
    pub fn count(&mut self, name: &str, n: i64) {
        *self.counters.entry(name.to_string()).or_insert(0) += n;
    }
    pub fn max(&mut self, name: &str, v: i64) {
        let e = self.maxes.entry(name.to_string()).or_insert(i64::MIN);
        if v > *e {
            *e = v;
        }
    }
    pub fn note(&mut self, name: &str, v: Value) {
        let _ = self.notes.insert(name.to_string(), v);
    }
    pub fn sample(&mut self, v: Value) {
        if self.samples.len() < self.sample_cap {
            self.samples.push(v);
        }
    }
    /// Report a violation. `sig` is the stable signature used for known-findings matching.
    pub fn violation(&mut self, sig: &str, detail: Value) {
        let case = self.cur_case.clone().unwrap_or_default();
        if self.verbose {
            eprintln!("VIOLATION-OBSERVED {} case={} {}", sig, case, detail);
        }
        self.log(json!({"ev": "VIOLATION", "sig": sig, "case": case}));
        // keep at most 200 full records per worker, but count all
        self.count("violations_observed", 1);
        if self.violations.len() < 200 {
            self.violations.push(json!({
                "sig": sig,
                "case": case,
                "detail": detail,
            }));
        }
    }
    pub fn inconclusive(&mut self, reason: &str) {
        if self.verbose {
            eprintln!("INCONCLUSIVE {}", reason);
        }
        if self.inconclusive.len() < 50 {
            let case = self.cur_case.clone().unwrap_or_default();
            self.inconclusive.push(format!("{} [case {}]", reason, case));
        }
    }
    /// Unwrap a harness-internal result: an error is inconclusive for the current case.
    pub fn ok<T>(&mut self, r: Result<T, String>) -> Option<T> {
        match r {
            Ok(v) => Some(v),
            Err(e) => {
                self.inconclusive(&e);
                None
            }
        }
    }

    pub fn summary(&self, wall_s: f64) -> Value {
        json!({
            "property_id": self.prop,
            "tier": self.tier.name(),
            "seed": self.seed,
            "shard": self.shard,
            "nshards": self.nshards,
            "cases_run": self.cases_run,
            "cases_enumerated": self.case_counter,
            "evaluations": self.evaluations,
            "distinct": self.distinct.iter().map(|h| format!("{:016x}", h)).collect::<Vec<_>>(),
            "samples": self.samples,
            "counters": self.counters,
            "maxes": self.maxes,
            "notes": self.notes,
            "violations": self.violations,
            "inconclusive": self.inconclusive,
            "wall_s": wall_s,
        })
    }
}
