//! I4 — reference evaluators, written against `bls12_381` only and deliberately in a different
//! style from the library (`pairing()` instead of `multi_miller_loop`, explicit loops instead of
//! `inner_product`, atoms taken from the wire form).

use crate::tracer::{trace, Kind, Trace};
use bls12_381::{pairing, G1Affine, G1Projective, G2Affine, G2Projective, Scalar};
use group::Curve;
use serde::Serialize;
use sha3::{Digest, Sha3_256};

pub fn sc(bytes: &[u8]) -> Option<Scalar> {
    if bytes.len() != 32 {
        return None;
    }
    let mut b = [0u8; 32];
    b.copy_from_slice(bytes);
    Option::from(Scalar::from_bytes(&b))
}

pub fn g1(bytes: &[u8]) -> Option<G1Affine> {
    if bytes.len() != 48 {
        return None;
    }
    let mut b = [0u8; 48];
    b.copy_from_slice(bytes);
    Option::from(G1Affine::from_compressed(&b))
}

pub fn g2(bytes: &[u8]) -> Option<G2Affine> {
    if bytes.len() != 96 {
        return None;
    }
    let mut b = [0u8; 96];
    b.copy_from_slice(bytes);
    Option::from(G2Affine::from_compressed(&b))
}

pub fn g1b(p: &G1Projective) -> [u8; 48] {
    p.to_affine().to_compressed()
}
pub fn g2b(p: &G2Projective) -> [u8; 96] {
    p.to_affine().to_compressed()
}

/// q - 1
pub fn q_minus_1() -> Scalar {
    Scalar::zero() - Scalar::one()
}

/// The close tag, recomputed from its definition ("\0\0\0CLOSE" in the top limb).
pub fn close_tag_ref() -> Scalar {
    Scalar::from_raw([0, 0, 0, u64::from_le_bytes(*b"\0\0\0CLOSE")])
}

/// scalar of a raw 32-byte channel id: the four little-endian limbs reduced mod q
pub fn raw32_to_scalar(b: &[u8]) -> Scalar {
    let limb = |i: usize| {
        let mut x = [0u8; 8];
        x.copy_from_slice(&b[8 * i..8 * i + 8]);
        u64::from_le_bytes(x)
    };
    Scalar::from_raw([limb(0), limb(1), limb(2), limb(3)])
}

/// Elements of a Pointcheval-Sanders public key, read from its wire form.
#[derive(Debug, Clone)]
pub struct PkAtoms {
    pub g1: G1Affine,
    pub y1s: Vec<G1Affine>,
    pub g2: G2Affine,
    pub x2: G2Affine,
    pub y2s: Vec<G2Affine>,
}

impl PkAtoms {
    pub fn from_value<T: Serialize>(pk: &T) -> Result<Self, String> {
        let t = trace(pk)?;
        Self::from_trace(&t, "")
    }
    /// `fprefix` is the field path of the enclosing public key ("" when the key is the value).
    pub fn from_trace(t: &Trace, fprefix: &str) -> Result<Self, String> {
        let mut g1v = None;
        let mut g2v = None;
        let mut x2v = None;
        let mut y1s = vec![];
        let mut y2s = vec![];
        for a in &t.atoms {
            let rest: &str = if fprefix.is_empty() {
                &a.fpath
            } else if let Some(r) = a.fpath.strip_prefix(fprefix).and_then(|r| r.strip_prefix('/')) {
                r
            } else {
                continue;
            };
            let b = t.atom_bytes(a);
            if rest == "g1" && a.kind == Kind::G1 {
                g1v = g1(b);
            } else if rest == "g2" && a.kind == Kind::G2 {
                g2v = g2(b);
            } else if rest == "x2" && a.kind == Kind::G2 {
                x2v = g2(b);
            } else if rest.starts_with("y1s/[") && a.kind == Kind::G1 {
                y1s.push(g1(b).ok_or("PkAtoms: bad y1")?);
            } else if rest.starts_with("y2s/[") && a.kind == Kind::G2 {
                y2s.push(g2(b).ok_or("PkAtoms: bad y2")?);
            }
        }
        let r = PkAtoms {
            g1: g1v.ok_or("PkAtoms: g1 not found")?,
            y1s,
            g2: g2v.ok_or("PkAtoms: g2 not found")?,
            x2: x2v.ok_or("PkAtoms: x2 not found")?,
            y2s,
        };
        if r.y1s.is_empty() || r.y1s.len() != r.y2s.len() {
            return Err(format!("PkAtoms: y1s/y2s lengths {} / {}", r.y1s.len(), r.y2s.len()));
        }
        Ok(r)
    }
    pub fn n(&self) -> usize {
        self.y1s.len()
    }
}

/// h^r * prod g_i^{m_i}, accumulated with an explicit loop (G1)
pub fn pedersen_ref_g1(h: &G1Affine, gs: &[G1Affine], msg: &[Scalar], r: &Scalar) -> G1Projective {
    let mut acc = G1Projective::identity();
    acc += G1Projective::from(*h) * *r;
    for i in 0..gs.len() {
        acc += G1Projective::from(gs[i]) * msg[i];
    }
    acc
}

pub fn pedersen_ref_g2(h: &G2Affine, gs: &[G2Affine], msg: &[Scalar], r: &Scalar) -> G2Projective {
    let mut acc = G2Projective::identity();
    acc += G2Projective::from(*h) * *r;
    for i in 0..gs.len() {
        acc += G2Projective::from(gs[i]) * msg[i];
    }
    acc
}

/// sigma1 != 1  and  e(sigma1, X~ * prod Y~_i^{m_i}) = e(sigma2, g~)
pub fn ps_verify_ref(pk: &PkAtoms, sigma1: &G1Affine, sigma2: &G1Affine, msg: &[Scalar]) -> bool {
    if msg.len() != pk.n() {
        return false;
    }
    if bool::from(sigma1.is_identity()) {
        return false;
    }
    // a signature is a pair of elements of the prime-order group; curve points outside it pair to 1 with
    // everything and are not signatures
    if !bool::from(sigma1.is_torsion_free()) || !bool::from(sigma2.is_torsion_free()) {
        return false;
    }
    let mut acc = G2Projective::from(pk.x2);
    for i in 0..msg.len() {
        acc += G2Projective::from(pk.y2s[i]) * msg[i];
    }
    let lhs = pairing(sigma1, &acc.to_affine());
    let rhs = pairing(sigma2, &pk.g2);
    lhs == rhs
}

/// the pairing relation alone (without the well-formedness conjunct)
pub fn ps_pairing_only(pk: &PkAtoms, sigma1: &G1Affine, sigma2: &G1Affine, msg: &[Scalar]) -> bool {
    let mut acc = G2Projective::from(pk.x2);
    for i in 0..msg.len() {
        acc += G2Projective::from(pk.y2s[i]) * msg[i];
    }
    pairing(sigma1, &acc.to_affine()) == pairing(sigma2, &pk.g2)
}

/// unblind a blinded signature: (s1, s2 - s1*bf)
pub fn unblind_ref(s1: &G1Affine, s2: &G1Affine, bf: &Scalar) -> (G1Affine, G1Affine) {
    let u = G1Projective::from(*s2) - G1Projective::from(*s1) * *bf;
    (*s1, u.to_affine())
}

/// Schnorr relation in G1: Com(resp; resp_bf) == T + c*C
pub fn schnorr_ref_g1(
    h: &G1Affine,
    gs: &[G1Affine],
    com: &G1Affine,
    t: &G1Affine,
    c: &Scalar,
    resp_bf: &Scalar,
    resps: &[Scalar],
) -> bool {
    if resps.len() != gs.len() {
        return false;
    }
    let lhs = pedersen_ref_g1(h, gs, resps, resp_bf);
    let rhs = G1Projective::from(*t) + G1Projective::from(*com) * *c;
    lhs == rhs
}

pub fn schnorr_ref_g2(
    h: &G2Affine,
    gs: &[G2Affine],
    com: &G2Affine,
    t: &G2Affine,
    c: &Scalar,
    resp_bf: &Scalar,
    resps: &[Scalar],
) -> bool {
    if resps.len() != gs.len() {
        return false;
    }
    let lhs = pedersen_ref_g2(h, gs, resps, resp_bf);
    let rhs = G2Projective::from(*t) + G2Projective::from(*com) * *c;
    lhs == rhs
}

/// signature-proof relation: well-formed, Schnorr in G2 under (g~, Y~_i), e(s1', X~ * C) = e(s2', g~)
#[allow(clippy::too_many_arguments)]
pub fn sigproof_ref(
    pk: &PkAtoms,
    s1: &G1Affine,
    s2: &G1Affine,
    com: &G2Affine,
    t: &G2Affine,
    c: &Scalar,
    resp_bf: &Scalar,
    resps: &[Scalar],
) -> (bool, bool, bool) {
    // well formed: a pair of elements of the prime-order group, the first one not the identity
    let wf = !bool::from(s1.is_identity()) && bool::from(s1.is_torsion_free()) && bool::from(s2.is_torsion_free());
    let sch = schnorr_ref_g2(&pk.g2, &pk.y2s, com, t, c, resp_bf, resps);
    let link = pairing(s1, &(G2Projective::from(pk.x2) + G2Projective::from(*com)).to_affine())
        == pairing(s2, &pk.g2);
    (wf, sch, link)
}

/// revocation lock = SHA3-256(secret bytes || index) if that digest is a canonical scalar
pub fn revlock_ref(secret: &[u8], index: u8) -> Option<Scalar> {
    let mut h = Sha3_256::new();
    h.update(secret);
    h.update([index]);
    let d = h.finalize();
    sc(&d)
}

/// ideal ledger: apply `amount` (positive: customer pays merchant) in i128
pub fn ledger_apply(cust: u64, merch: u64, amount: i64) -> Result<(u64, u64), LedgerErr> {
    let max = i64::MAX as i128;
    let nc = cust as i128 - amount as i128;
    let nm = merch as i128 + amount as i128;
    let neg = nc < 0 || nm < 0;
    let big = nc > max || nm > max;
    if neg || big {
        return Err(LedgerErr { neg, big });
    }
    Ok((nc as u64, nm as u64))
}

#[derive(Debug, Clone, Copy, PartialEq, Eq)]
pub struct LedgerErr {
    pub neg: bool,
    pub big: bool,
}

/// Scalar encoding of a signed amount, recomputed independently: amount mod q.
pub fn amount_scalar_ref(amount: i64) -> Scalar {
    if amount >= 0 {
        Scalar::from(amount as u64)
    } else {
        // -(|amount|) with |i64::MIN| = 2^63 handled in 128 bits
        let mag = (-(amount as i128)) as u128;
        let lo = mag as u64;
        let hi = (mag >> 64) as u64;
        let m = Scalar::from_raw([lo, hi, 0, 0]);
        Scalar::zero() - m
    }
}
