//! Shared fixtures: merchant configurations (cached per process, leaked so that borrowed
//! `Unrevoked<'_>` values can live in session structs), with their public atoms read from the wire.

use crate::ctx::Ctx;
use crate::refs::{g1, PkAtoms};
use crate::tracer::{trace, Kind};
use bls12_381::G1Affine;
use std::cell::RefCell;
use std::collections::BTreeMap;
use zkabacus_crypto::{customer, merchant};

pub struct Merchant {
    pub label: String,
    pub cfg: merchant::Config,
    pub ccfg: customer::Config,
    /// merchant signing public key atoms (N = 5)
    pub pk: PkAtoms,
    /// revocation-lock commitment parameters (h, g)
    pub rev_h: G1Affine,
    pub rev_g: G1Affine,
    /// range parameters: key (N = 1) and the 128 digit signatures
    pub range_pk: PkAtoms,
    pub digit_sigs: Vec<(G1Affine, G1Affine)>,
}

thread_local! {
    static CACHE: RefCell<BTreeMap<String, &'static Merchant>> = RefCell::new(BTreeMap::new());
}

fn build(label: &str, seed: u64) -> Result<Merchant, String> {
    let mut rng = Ctx::fixture_rng(seed, &format!("merchant/{}", label));
    let cfg = merchant::Config::new(&mut rng);
    from_config(label, cfg)
}

pub fn from_config(label: &str, cfg: merchant::Config) -> Result<Merchant, String> {
    let (pk, rev, range) = cfg.extract_customer_config_parts();
    let pk_atoms = PkAtoms::from_value(&pk)?;
    let tr = trace(&rev)?;
    let rev_h = g1(&tr.fget("h")?).ok_or("fixture: bad h")?;
    let rev_g = g1(&tr.fget("gs/[0]")?).ok_or("fixture: bad g")?;
    let tr = trace(&range)?;
    let range_pk = PkAtoms::from_trace(&tr, "public_key")?;
    let mut digit_sigs = vec![];
    let mut i = 0;
    loop {
        let a = tr.by_fpath(&format!("digit_signatures/[{}]/sigma1", i));
        let b = tr.by_fpath(&format!("digit_signatures/[{}]/sigma2", i));
        if a.len() != 1 || b.len() != 1 {
            break;
        }
        if a[0].kind != Kind::G1 || b[0].kind != Kind::G1 {
            return Err("fixture: digit signature atoms are not G1".into());
        }
        // a hostile parameter set that the library agreed to decode may hold points outside the group:
        // keep them as they are (only the shadow provers read this table)
        let lenient = |b: &[u8]| -> Option<bls12_381::G1Affine> {
            g1(b).or_else(|| {
                let mut a = [0u8; 48];
                if b.len() != 48 {
                    return None;
                }
                a.copy_from_slice(b);
                Option::from(bls12_381::G1Affine::from_compressed_unchecked(&a))
            })
        };
        let s1 = lenient(tr.atom_bytes(a[0])).ok_or("fixture: bad sigma1")?;
        let s2 = lenient(tr.atom_bytes(b[0])).ok_or("fixture: bad sigma2")?;
        digit_sigs.push((s1, s2));
        i += 1;
    }
    if digit_sigs.is_empty() {
        return Err("fixture: no digit signatures found in range parameters".into());
    }
    let ccfg = customer::Config::from_parts(pk, rev, range);
    Ok(Merchant {
        label: label.to_string(),
        cfg,
        ccfg,
        pk: pk_atoms,
        rev_h,
        rev_g,
        range_pk,
        digit_sigs,
    })
}

/// Merchant fixture `label` for this seed; built once per process.
pub fn merchant(seed: u64, label: &str) -> Result<&'static Merchant, String> {
    let key = format!("{}/{}", seed, label);
    if let Some(m) = CACHE.with(|c| c.borrow().get(&key).copied()) {
        return Ok(m);
    }
    let m: &'static Merchant = Box::leak(Box::new(build(label, seed)?));
    CACHE.with(|c| c.borrow_mut().insert(key, m));
    Ok(m)
}
