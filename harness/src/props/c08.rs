//! C08 — blind signing yields a signature on exactly the message proven in the request.
//!
//! Honest side: builder -> challenge -> proof; the verifier recomputes the challenge from the
//! proof; `verify_knowledge_of_opening` must return `Some`; the returned value is blind-signed and
//! unblinded with the requester's factor; the result must satisfy the C07 oracle
//! (`refs::ps_verify_ref`, atoms from the wire) on the requester's message and on no message that
//! differs in one coordinate. `Signature::verify` is evaluated next to the oracle.
//! Tampered side: every atom of the proof bytes is replaced (another valid value, +1, identity,
//! negation, the atom of another honest request), the challenge is changed, another key is
//! used: all must give `None`. The Schnorr relation recomputed by `refs::schnorr_ref_g1` on the
//! tampered atoms is recorded with every observation.

use crate::ctx::{guard, hex, Ctx};
use crate::props::c07::{edge_message, edge_scalar, keypair, msg_hex, sig_atoms, Msg};
use crate::props::util::repo_rel;
use crate::refs::{self, pedersen_ref_g1, ps_verify_ref, schnorr_ref_g1, PkAtoms};
use crate::tracer::{trace, Kind, Trace};
use crate::wire::{self, alt_valid, dec, enc};
use bls12_381::{G1Affine, Scalar};
use ff::Field;
use group::Curve;
use rand_core::RngCore;
use serde_json::{json, Value};
use zkchannels_crypto::{
    pointcheval_sanders::{KeyPair, PublicKey, Signature},
    proofs::{Challenge, ChallengeBuilder, SignatureRequestProof, SignatureRequestProofBuilder},
    BlindingFactor, Message,
};

struct ProofAtoms {
    com: G1Affine,
    com_bytes: Vec<u8>,
    scalar_com: G1Affine,
    resp_bf: Scalar,
    resps: Vec<Scalar>,
}

/// the four parts of a signature request proof, located by field name in the observed layout
fn proof_atoms(t: &Trace, n: usize) -> Result<ProofAtoms, String> {
    let mut com = None;
    let mut scalar_com = None;
    let mut resp_bf = None;
    let mut resps = vec![];
    for a in &t.atoms {
        let b = t.atom_bytes(a);
        match a.kind {
            Kind::G1 if a.fpath.ends_with("scalar_commitment") => scalar_com = Some(refs::g1(b).ok_or("C08: scalar commitment atom does not decompress")?),
            Kind::G1 if a.fpath.ends_with("commitment") => com = Some((refs::g1(b).ok_or("C08: commitment atom does not decompress")?, b.to_vec())),
            Kind::B32 if a.fpath.ends_with("blinding_factor_response_scalar") => resp_bf = Some(refs::sc(b).ok_or("C08: non-canonical response scalar")?),
            Kind::B32 if a.fpath.contains("message_response_scalars/[") => resps.push(refs::sc(b).ok_or("C08: non-canonical response scalar")?),
            _ => {}
        }
    }
    let (com, com_bytes) = com.ok_or("C08: commitment atom not found in the request proof")?;
    let r = ProofAtoms {
        com,
        com_bytes,
        scalar_com: scalar_com.ok_or("C08: scalar commitment atom not found in the request proof")?,
        resp_bf: resp_bf.ok_or("C08: blinding factor response atom not found in the request proof")?,
        resps,
    };
    if r.resps.len() != n {
        return Err(format!("C08: {} message response atoms found, expected {}", r.resps.len(), n));
    }
    Ok(r)
}

fn schnorr_holds(pka: &PkAtoms, p: &ProofAtoms, ch: &Scalar) -> bool {
    schnorr_ref_g1(&pka.g1, &pka.y1s, &p.com, &p.scalar_com, ch, &p.resp_bf, &p.resps)
}

struct Request<const N: usize> {
    builder: SignatureRequestProofBuilder<N>,
    challenge: Challenge,
    ctx_variant: usize,
    cs_name: &'static str,
}

/// The verifier's (and prover's) challenge: over the first message, optionally the key and a context.
fn challenge_for<const N: usize, T: zkchannels_crypto::proofs::ChallengeInput>(variant: usize, first_message: &T, pk: &PublicKey<N>) -> Challenge {
    match variant % 3 {
        0 => ChallengeBuilder::new().with(first_message).finish(),
        1 => ChallengeBuilder::new().with(first_message).with(pk).finish(),
        _ => ChallengeBuilder::new().with_bytes(b"zkmon C08 context").with(pk).with(first_message).finish(),
    }
}

fn make_request<const N: usize>(rng: &mut (impl RngCore + rand_core::CryptoRng), pk: &PublicKey<N>, m: &[Scalar; N], mi: usize) -> Request<N> {
    // conjunction commitment scalars chosen by the caller: none / every other one / all (with a zero)
    let cs_variant = (mi / 7) % 3;
    let mut cs: [Option<Scalar>; N] = [None; N];
    for (i, x) in cs.iter_mut().enumerate() {
        *x = match cs_variant {
            0 => None,
            1 => {
                if i % 2 == 0 {
                    Some(Scalar::random(&mut *rng))
                } else {
                    None
                }
            }
            _ => Some(if i == 0 { Scalar::zero() } else { Scalar::random(&mut *rng) }),
        };
    }
    let builder = SignatureRequestProofBuilder::<N>::generate_proof_commitments(&mut *rng, Message::new(*m), &cs, pk);
    let ctx_variant = mi % 3;
    let challenge = challenge_for(ctx_variant, &builder, pk);
    Request { builder, challenge, ctx_variant, cs_name: ["none", "alternate", "all(first=0)"][cs_variant] }
}

fn verdict(v: bool) -> &'static str {
    if v {
        "some"
    } else {
        "none"
    }
}

#[allow(clippy::too_many_arguments)]
fn tampered<const N: usize>(
    c: &mut Ctx,
    pk: &PublicKey<N>,
    pka: &PkAtoms,
    challenge: Challenge,
    bytes: &[u8],
    layout: &Trace,
    class: &str,
    at: &str,
    key: &str,
    info: Value,
) {
    let p2: SignatureRequestProof<N> = match dec(bytes) {
        Ok(p) => p,
        Err(_) => {
            c.count(&format!("tamper:{}:not-decodable", class), 1);
            return;
        }
    };
    // same layout, new bytes: what the Schnorr relation says about the tampered request
    let mut t2 = layout.clone();
    t2.bytes = bytes.to_vec();
    let relation = proof_atoms(&t2, N).map(|a| schnorr_holds(pka, &a, &challenge.to_scalar()));
    c.eval();
    c.distinct(&format!("{}/tamper={}@{}", key, class, at));
    match guard(|| p2.verify_knowledge_of_opening(pk, challenge).is_some()) {
        Err(p) => c.violation(
            &format!("C08 verify-panicked N={} tamper={}@{} loc={}", N, class, at, repo_rel(&p.location)),
            json!({"N": N, "panic": p.message, "proof": hex(bytes), "info": info}),
        ),
        Ok(some) => {
            c.count(&format!("tamper:{}:{}", class, verdict(some)), 1);
            if some {
                c.violation(
                    &format!("C08 tampered-request-accepted N={} tamper={}@{}", N, class, at),
                    json!({"N": N, "proof": hex(bytes), "challenge": hex(&challenge.to_scalar().to_bytes()),
                           "public_key": hex(&enc(pk)), "schnorr_relation_recomputed": format!("{:?}", relation), "info": info}),
                );
            }
        }
    }
}

fn request_case<const N: usize>(c: &mut Ctx, name: &str, k: usize, mi: usize) {
    let mut rng = c.rng(name);
    let kp: KeyPair<N> = keypair::<N>(c, k, false);
    let kp2: KeyPair<N> = keypair::<N>(c, k, true);
    let pk = kp.public_key();
    let pka = match PkAtoms::from_value(pk) {
        Ok(a) if a.n() == N => a,
        Ok(_) => return c.inconclusive("C08: public key atoms do not have N entries"),
        Err(e) => return c.inconclusive(&e),
    };
    let m: Msg<N> = edge_message::<N>(mi, &mut rng);
    let req = make_request(&mut rng, pk, &m.vals, mi);
    let bf: BlindingFactor = req.builder.message_blinding_factor();
    let bfs = bf.as_scalar();
    let builder_copy = req.builder.clone();
    let proof = req.builder.generate_proof_response(req.challenge);
    let key = format!("N={}/key={}/msg={}/cs={}/ctx={}", N, k, m.name, req.cs_name, req.ctx_variant);
    let base = json!({"N": N, "key": k, "message_classes": m.name, "message": msg_hex(&m.vals),
                      "blinding_factor": hex(&bfs.to_bytes()), "commitment_scalars": req.cs_name,
                      "challenge_variant": req.ctx_variant, "public_key": hex(&enc(pk))});

    let pt = match trace(&proof) {
        Ok(t) => t,
        Err(e) => return c.inconclusive(&e),
    };
    let pa = match proof_atoms(&pt, N) {
        Ok(a) => a,
        Err(e) => return c.inconclusive(&e),
    };

    // --- the verifier derives the challenge from the proof
    let challenge = challenge_for(req.ctx_variant, &proof, pk);
    c.eval();
    if challenge.to_scalar() != req.challenge.to_scalar() {
        // the request will then be refused below, which is the refuting event; record the cause
        c.count("verifier-challenge-differs-from-prover-challenge", 1);
    }

    // --- honest request must yield a blind-signable value
    c.eval();
    c.distinct(&format!("{}/honest", key));
    let vbm = match guard(|| proof.verify_knowledge_of_opening(pk, challenge)) {
        Err(p) => {
            c.violation(
                &format!("C08 verify-panicked N={} tamper=none loc={}", N, repo_rel(&p.location)),
                json!({"panic": p.message, "proof": hex(&pt.bytes), "info": base}),
            );
            return;
        }
        Ok(v) => v,
    };
    c.count(&format!("honest-request:{}", verdict(vbm.is_some())), 1);
    let relation = schnorr_holds(&pka, &pa, &challenge.to_scalar());
    let Some(vbm) = vbm else {
        c.violation(
            &format!("C08 honest-request-rejected N={} commitment-scalars={}", N, req.cs_name),
            json!({"proof": hex(&pt.bytes), "challenge": hex(&challenge.to_scalar().to_bytes()),
                   "schnorr_relation_recomputed": relation, "info": base}),
        );
        return;
    };
    if !relation {
        // the library accepted its own proof but the harness reads the atoms differently
        return c.inconclusive("C08: reference Schnorr relation fails on an honest, accepted request (atom reading broken?)");
    }

    // --- extra: the proof's commitment is the Pedersen commitment under (g1, Y1..YN)
    c.eval();
    let com_ref = pedersen_ref_g1(&pka.g1, &pka.y1s, &m.vals, &bfs).to_affine();
    let com_ok = com_ref == pa.com;
    c.count(&format!("request-commitment-equals-reference:{}", com_ok), 1);
    if !com_ok {
        c.violation(
            &format!("C08 request-commitment-is-not-the-pedersen-commitment N={}", N),
            json!({"commitment": hex(&pa.com_bytes), "reference": hex(&com_ref.to_compressed()), "info": base}),
        );
    }
    c.eval();
    let blinded = enc(&Message::new(m.vals).blind(pk, bf));
    let blind_ok = blinded == pa.com_bytes;
    c.count(&format!("blinded-message-equals-request-commitment:{}", blind_ok), 1);
    if !blind_ok {
        c.violation(
            &format!("C08 blinded-message-differs-from-request-commitment N={}", N),
            json!({"commitment": hex(&pa.com_bytes), "blinded_message": hex(&blinded), "info": base}),
        );
    }

    // --- blind-sign, unblind with the requester's factor, judge with the C07 oracle
    let vbm_for_degenerate = vbm.clone();
    let bs = vbm.blind_sign(&kp, &mut rng);
    let sig: Signature = bs.unblind(bf);
    let sa = match sig_atoms(&sig) {
        Ok(a) => a,
        Err(e) => return c.inconclusive(&e),
    };
    let sdetail = |m2: &[Scalar; N], oracle: bool, lib: &Value, extra: Value| {
        json!({"sigma1": hex(&sa.b1), "sigma2": hex(&sa.b2), "verified_on": msg_hex(m2), "oracle": oracle,
               "library_verify": lib, "proof": hex(&pt.bytes), "change": extra, "info": base})
    };
    {
        c.eval();
        c.distinct(&format!("{}/unblinded-on-message", key));
        let oracle = ps_verify_ref(&pka, &sa.s1, &sa.s2, &m.vals);
        let lib = guard(|| sig.verify(pk, &Message::new(m.vals)));
        let libv = match &lib {
            Ok(v) => json!(v),
            Err(p) => json!(format!("panic: {}", p.message)),
        };
        c.count(&format!("unblinded-on-requesters-message:oracle-{}", if oracle { "accepts" } else { "rejects" }), 1);
        if !oracle || !matches!(lib, Ok(true)) {
            c.violation(
                &format!("C08 unblinded-signature-fails-on-requesters-message N={} commitment-scalars={}", N, req.cs_name),
                sdetail(&m.vals, oracle, &libv, json!(null)),
            );
        }
    }
    for j in 0..N {
        let kind = ["+1", "random", "other-edge", "-1"][(j + mi) % 4];
        let mut m2 = m.vals;
        m2[j] = match kind {
            "+1" => m.vals[j] + Scalar::one(),
            "-1" => m.vals[j] - Scalar::one(),
            "random" => Scalar::random(&mut rng),
            _ => edge_scalar(m.classes[j] + 1 + (rng.next_u32() % 5) as usize, &mut rng),
        };
        if m2[j] == m.vals[j] {
            m2[j] = m.vals[j] + Scalar::from(2u64);
        }
        c.eval();
        c.distinct(&format!("{}/unblinded-on-changed/coord={}/{}", key, j, kind));
        let oracle = ps_verify_ref(&pka, &sa.s1, &sa.s2, &m2);
        let lib = guard(|| sig.verify(pk, &Message::new(m2)));
        let libv = match &lib {
            Ok(v) => json!(v),
            Err(p) => json!(format!("panic: {}", p.message)),
        };
        c.count(&format!("unblinded-on-single-coordinate-change({}):oracle-{}", kind, if oracle { "accepts" } else { "rejects" }), 1);
        if oracle || !matches!(lib, Ok(false)) {
            c.violation(
                &format!("C08 unblinded-signature-verifies-on-changed-message N={} change={}", N, kind),
                sdetail(&m2, oracle, &libv, json!({"coordinate": j, "kind": kind})),
            );
        }
    }
    // changes that keep a linear combination of the coordinates: +1 / -1 on a pair, two coordinates exchanged
    // (a key whose y_i coincide binds only the sum of the slots)
    if N >= 2 {
        let a = mi % N;
        let b = (a + 1 + (mi / N) % (N - 1)) % N;
        let mut cands: Vec<(&str, [Scalar; N])> = vec![];
        let mut m2 = m.vals;
        m2[a] += Scalar::one();
        m2[b] -= Scalar::one();
        cands.push(("pair+1-1", m2));
        if m.vals[a] != m.vals[b] {
            let mut m3 = m.vals;
            m3.swap(a, b);
            cands.push(("pair-exchanged", m3));
        }
        for (kind, m2) in cands {
            c.eval();
            c.distinct(&format!("{}/unblinded-on-changed/pair={}-{}/{}", key, a, b, kind));
            let oracle = ps_verify_ref(&pka, &sa.s1, &sa.s2, &m2);
            let lib = guard(|| sig.verify(pk, &Message::new(m2)));
            let libv = match &lib {
                Ok(v) => json!(v),
                Err(p) => json!(format!("panic: {}", p.message)),
            };
            c.count(&format!("unblinded-on-pair-change({}):oracle-{}", kind, if oracle { "accepts" } else { "rejects" }), 1);
            if oracle || !matches!(lib, Ok(false)) {
                c.violation(
                    &format!("C08 unblinded-signature-verifies-on-changed-message N={} change={}", N, kind),
                    sdetail(&m2, oracle, &libv, json!({"coordinates": [a, b], "kind": kind})),
                );
            }
        }
    }
    // the same request verified a second time gives the same answer (a verifier is a function of its arguments)
    {
        c.eval();
        c.distinct(&format!("{}/honest-second-verification", key));
        let again = guard(|| proof.verify_knowledge_of_opening(pk, challenge).is_some());
        if !matches!(again, Ok(true)) {
            c.violation(
                &format!("C08 honest-request-rejected N={} commitment-scalars={} on=second-verification", N, req.cs_name),
                json!({"second_result": format!("{:?}", again.map_err(|p| p.message)), "info": base}),
            );
        }
    }
    // a signer whose randomiser is zero hands back the all-identity signature: whatever it does on the
    // requester's own tuple, it must verify on no tuple differing in a coordinate
    {
        let mut zr = crate::srng::ScriptRng::new([3u8; 32]);
        zr.inject(0, vec![0u8; 64]);
        let sig0: Signature = vbm_for_degenerate.blind_sign(&kp, &mut zr).unblind(bf);
        if zr.consumed == 1 {
            for j in 0..N {
                let mut m2 = m.vals;
                m2[j] += Scalar::one();
                c.eval();
                c.distinct(&format!("{}/zero-randomiser-signer/coord={}", key, j));
                let lib = guard(|| sig0.verify(pk, &Message::new(m2)));
                c.count("zero-randomiser-signature-on-changed-message", 1);
                if !matches!(lib, Ok(false)) {
                    c.violation(
                        &format!("C08 unblinded-signature-verifies-on-changed-message N={} change=zero-randomiser-signer", N),
                        json!({"coordinate": j, "library_verify": format!("{:?}", lib.map_err(|p| p.message)), "info": base}),
                    );
                }
            }
        } else {
            c.inconclusive("C08: zero randomiser was not consumed by blind_sign");
        }
    }
    if mi < 2 {
        c.sample(json!({"kind": "honest request, blind-signed and unblinded", "N": N, "key": k, "message_classes": m.name,
                        "commitment_scalars": req.cs_name, "challenge_variant": req.ctx_variant, "proof": hex(&pt.bytes),
                        "sigma1": hex(&sa.b1), "sigma2": hex(&sa.b2)}));
    }

    // --- tampered requests. A second honest request (other message, same key) supplies foreign atoms.
    let m_other = edge_message::<N>(mi + 3, &mut rng);
    let req_b = make_request(&mut rng, pk, &m_other.vals, mi);
    let challenge_b = req_b.challenge;
    let proof_b = req_b.builder.generate_proof_response(challenge_b);
    let tb = match trace(&proof_b) {
        Ok(t) => t,
        Err(e) => return c.inconclusive(&e),
    };
    // positive twin of the whole tampering block: the second request is accepted under its own challenge
    c.eval();
    match guard(|| proof_b.verify_knowledge_of_opening(pk, challenge_b).is_some()) {
        Ok(true) => c.count("honest-request:some", 1),
        _ => {
            c.count("honest-request:none", 1);
            c.violation(
                &format!("C08 honest-request-rejected N={} commitment-scalars={}", N, req_b.cs_name),
                json!({"proof": hex(&tb.bytes), "challenge": hex(&challenge_b.to_scalar().to_bytes()), "info": base, "second_request": true}),
            );
        }
    }
    if tb.atoms.len() != pt.atoms.len() {
        return c.inconclusive("C08: two requests of the same shape have different layouts");
    }
    let thorough = c.tier.pick(false, true);
    for (ai, a) in pt.atoms.iter().enumerate() {
        if a.kind == Kind::Len {
            continue;
        }
        let orig = pt.atom_bytes(a).to_vec();
        let mut subs: Vec<(&str, Vec<u8>)> = vec![];
        if let Some(alt) = alt_valid(a.kind, &orig, &mut rng) {
            subs.push(("other-valid-value", alt));
        }
        match a.kind {
            Kind::B32 => {
                if let Some(s) = refs::sc(&orig) {
                    subs.push(("+1", (s + Scalar::one()).to_bytes().to_vec()));
                    if thorough {
                        subs.push(("negated", (-s).to_bytes().to_vec()));
                        subs.push(("zero", Scalar::zero().to_bytes().to_vec()));
                    }
                }
            }
            Kind::G1 => {
                subs.push(("identity", wire::g1_identity_bytes().to_vec()));
                if let Some(p) = refs::g1(&orig) {
                    subs.push(("negated", (-p).to_compressed().to_vec()));
                    // shifted by the order-3 point (0, 2): outside the prime-order group, so it must not even
                    // decode; if it does, the Schnorr equation cannot see the shift whenever c = 0 mod 3
                    let mut t3 = [0u8; 48];
                    t3[0] = 0x80;
                    let t3p: Option<G1Affine> = Option::from(G1Affine::from_compressed_unchecked(&t3));
                    if let Some(t3p) = t3p {
                        use group::Curve;
                        let sh = (bls12_381::G1Projective::from(p) + bls12_381::G1Projective::from(t3p)).to_affine();
                        subs.push(("shifted-by-order-3-point", sh.to_compressed().to_vec()));
                    }
                }
            }
            _ => {}
        }
        let foreign = &tb.atoms[ai];
        if foreign.fpath == a.fpath && foreign.len == a.len {
            subs.push(("atom-of-another-request", tb.atom_bytes(foreign).to_vec()));
        }
        for (class, new) in subs {
            if new == orig {
                continue;
            }
            let bytes = pt.with_replaced(a, &new);
            let info = json!({"atom": a.path, "original": hex(&orig), "replacement": hex(&new), "request": base});
            tampered::<N>(c, pk, &pka, challenge, &bytes, &pt, class, &a.fpath, &key, info);
        }
    }
    // the two group elements exchanged
    {
        let mut t2 = pt.clone();
        let ca = pt.atoms.iter().find(|a| a.kind == Kind::G1 && a.fpath.ends_with("commitment") && !a.fpath.ends_with("scalar_commitment"));
        let sa = pt.atoms.iter().find(|a| a.kind == Kind::G1 && a.fpath.ends_with("scalar_commitment"));
        if let (Some(ca), Some(sa)) = (ca, sa) {
            let (cb, sb) = (pt.atom_bytes(ca).to_vec(), pt.atom_bytes(sa).to_vec());
            if cb != sb {
                t2.bytes[ca.offset..ca.end()].copy_from_slice(&sb);
                t2.bytes[sa.offset..sa.end()].copy_from_slice(&cb);
                tampered::<N>(c, pk, &pka, challenge, &t2.bytes, &pt, "commitments-exchanged", "commitment<->scalar_commitment", &key, json!({"request": base}));
            }
        }
    }
    // challenge changed (the proof itself untouched)
    let changed: Vec<(&str, Challenge)> = vec![
        ("extra-bytes-appended", ChallengeBuilder::new().with(&builder_copy).with_bytes(b"changed").finish()),
        ("other-variant", challenge_for((req.ctx_variant + 1) % 3, &proof, pk)),
        ("of-another-request", challenge_b),
        ("over-other-key", ChallengeBuilder::new().with(&proof).with(kp2.public_key()).with_bytes(b"k").finish()),
    ];
    for (cname, ch) in changed {
        if ch.to_scalar() == challenge.to_scalar() {
            c.inconclusive("C08: changed challenge equals the original one");
            continue;
        }
        tampered::<N>(c, pk, &pka, ch, &pt.bytes, &pt, &format!("challenge:{}", cname), "challenge", &key, json!({"request": base}));
    }
    // a whole other request under this request's challenge
    tampered::<N>(c, pk, &pka, challenge, &tb.bytes, &tb, "whole-proof-of-another-request", "proof", &key, json!({"request": base}));
    // another key (its own Pedersen generators), same proof and challenge
    {
        let pk2 = kp2.public_key();
        match PkAtoms::from_value(pk2) {
            Ok(pka2) => tampered::<N>(c, pk2, &pka2, challenge, &pt.bytes, &pt, "other-key", "public_key", &key, json!({"request": base, "other_key": hex(&enc(pk2))})),
            Err(e) => c.inconclusive(&e),
        }
    }
}

/// The request about the identity element: the all-zero tuple under a zero blinding factor (the builder's
/// blinding-factor draw scripted to zero). It is an honest request like any other: it verifies, and the
/// blind signature unblinds (with factor zero) to a signature on the zero tuple and on nothing else.
fn zero_statement<const N: usize>(c: &mut Ctx, name: &str, k: usize) {
    let mut rng = c.rng(name);
    let kp: KeyPair<N> = keypair::<N>(c, k, false);
    let pk = kp.public_key();
    let pka = match PkAtoms::from_value(pk) {
        Ok(a) => a,
        Err(e) => return c.inconclusive(&e),
    };
    let zero = [Scalar::zero(); N];
    let mut seed = [0u8; 32];
    rng.fill_bytes(&mut seed);
    let mut dry = crate::srng::ScriptRng::new(seed);
    let _ = SignatureRequestProofBuilder::<N>::generate_proof_commitments(&mut dry, Message::new(zero), &[None; N], pk);
    let mut hit = false;
    for d in dry.draws_of_len(64) {
        let mut r = crate::srng::ScriptRng::new(seed);
        r.inject(d, vec![0u8; 64]);
        let builder = SignatureRequestProofBuilder::<N>::generate_proof_commitments(&mut r, Message::new(zero), &[None; N], pk);
        let bf = builder.message_blinding_factor();
        if bf.as_scalar() != Scalar::zero() {
            continue;
        }
        hit = true;
        let challenge = challenge_for(0, &builder, pk);
        let proof = builder.generate_proof_response(challenge);
        let com_is_identity = trace(&proof).ok().and_then(|t| proof_atoms(&t, N).ok()).map(|a| a.com_bytes == crate::wire::g1_identity_bytes()).unwrap_or(false);
        c.eval();
        c.distinct(&format!("zero-statement/N={}/key={}", N, k));
        c.count(if com_is_identity { "requests_about_the_identity_element" } else { "zero_statement_commitment_not_identity" }, 1);
        match guard(|| proof.verify_knowledge_of_opening(pk, challenge)) {
            Err(p) => c.violation(&format!("C08 verify-panicked N={} tamper=none loc={}", N, repo_rel(&p.location)), json!({"statement": "zero tuple, zero blinding factor", "panic": p.message})),
            Ok(None) => c.violation(&format!("C08 honest-request-rejected N={} commitment-scalars=none statement=identity", N), json!({"statement": "zero tuple, zero blinding factor"})),
            Ok(Some(vbm)) => {
                let sig: Signature = vbm.blind_sign(&kp, &mut rng).unblind(bf);
                let Ok(sa) = sig_atoms(&sig) else { return c.inconclusive("C08: signature atoms") };
                if !ps_verify_ref(&pka, &sa.s1, &sa.s2, &zero) || !matches!(guard(|| sig.verify(pk, &Message::new(zero))), Ok(true)) {
                    c.violation(&format!("C08 unblinded-signature-fails-on-requesters-message N={} commitment-scalars=none", N), json!({"statement": "zero tuple, zero blinding factor"}));
                }
                let mut m2 = zero;
                m2[N - 1] = Scalar::one();
                if ps_verify_ref(&pka, &sa.s1, &sa.s2, &m2) || !matches!(guard(|| sig.verify(pk, &Message::new(m2))), Ok(false)) {
                    c.violation(&format!("C08 unblinded-signature-verifies-on-changed-message N={} change=+1", N), json!({"statement": "zero tuple, zero blinding factor"}));
                }
            }
        }
        break;
    }
    if !hit {
        c.inconclusive("C08: no scalar draw of the request builder could be aimed at the blinding factor");
    }
}

fn run_n<const N: usize>(c: &mut Ctx, keys: usize, msgs: usize) {
    {
        let name = format!("request/N={}/zero-statement", N);
        c.case(&name, |c| zero_statement::<N>(c, &name, 0));
    }
    for k in 0..keys {
        for mi in 0..msgs {
            let name = format!("request/N={}/key={}/msg={}", N, k, mi);
            c.case(&name, |c| request_case::<N>(c, &name, k, mi));
        }
    }
}

// ------------------------------------------------------------------------------------------
// Can a blind-signable value be obtained without a verified request? The type is meant to have no
// constructor besides verification. If a decoder for it exists (the monitor finds out through method
// resolution: the inherent method below exists only when the type is deserializable), the harness uses
// it: 48 bytes of an unproven blinded message are decoded, blind-signed and unblinded.
struct DecodeProbe<T>(std::marker::PhantomData<T>);
trait NoDecoder<T> {
    fn try_decode(&self, _b: &[u8]) -> Option<T> {
        None
    }
}
impl<T> NoDecoder<T> for &DecodeProbe<T> {}
impl<T: serde::de::DeserializeOwned> DecodeProbe<T> {
    fn try_decode(&self, b: &[u8]) -> Option<T> {
        bincode::deserialize::<T>(b).ok()
    }
}

/// A signer key whose encoding was corrupted so that one (Y_i, Y~_i) pair is the identity: if the
/// decoder lets it in, requests served under it are judged like all others.
fn corrupted_signer_key_case(c: &mut Ctx) {
    c.case("corrupted-signer-key", |c| {
        let mut rng = c.rng("corrupted-signer-key");
        let kp = KeyPair::<3>::new(&mut rng);
        let t = match trace(&kp) {
            Ok(t) => t,
            Err(e) => return c.inconclusive(&e),
        };
        for i in 0..3usize {
            for which in ["both", "g2-half-only", "g1-half-only"] {
                let mut tr = t.clone();
                let r1 = if which != "g2-half-only" { tr.fset(&format!("pk/y1s/[{}]", i), &wire::g1_identity_bytes()) } else { Ok(()) };
                let r2 = if which != "g1-half-only" { tr.fset(&format!("pk/y2s/[{}]", i), &wire::g2_identity_bytes()) } else { Ok(()) };
                if r1.is_err() || r2.is_err() {
                    return c.inconclusive("C08: key pair layout");
                }
                c.eval();
                c.distinct(&format!("corrupted-signer-key/{}/{}", i, which));
                let kp2: KeyPair<3> = match dec(&tr.bytes) {
                    Ok(k) => k,
                    Err(_) => {
                        c.count("corrupted_signer_keys_refused_at_decode", 1);
                        continue;
                    }
                };
                c.count("corrupted_signer_keys_decoded", 1);
                // an honest request under that key
                let vals = [Scalar::random(&mut rng), Scalar::random(&mut rng), Scalar::random(&mut rng)];
                let pk2 = kp2.public_key();
                let b = SignatureRequestProofBuilder::<3>::generate_proof_commitments(&mut rng, Message::new(vals), &[None; 3], pk2);
                let ch = ChallengeBuilder::new().with(&b).finish();
                let bf = b.message_blinding_factor();
                let proof = b.generate_proof_response(ch);
                if let Some(v) = proof.verify_knowledge_of_opening(pk2, ch) {
                    let sig = v.blind_sign(&kp2, &mut rng).unblind(bf);
                    let own = sig.verify(pk2, &Message::new(vals));
                    let mut changed = vals;
                    changed[i] += Scalar::one();
                    let other = sig.verify(pk2, &Message::new(changed));
                    if !own || other {
                        c.violation(
                            &format!("C08 signature-under-decoded-key-does-not-bind coordinate={} corrupted={}", i, which),
                            json!({"verifies_on_requesters_tuple": own, "verifies_on_tuple_with_coordinate_changed": other}),
                        );
                    }
                }
            }
        }
    });
}

fn unproven_value_case(c: &mut Ctx) {
    use zkchannels_crypto::pointcheval_sanders::VerifiedBlindedMessage;
    c.case("blind-signable-value-without-proof", |c| {
        let mut rng = c.rng("blind-signable-value-without-proof");
        let kp = KeyPair::<3>::new(&mut rng);
        let vals = [Scalar::random(&mut rng), Scalar::from(7u64), Scalar::zero()];
        let msg = Message::new(vals);
        let bf = zkchannels_crypto::BlindingFactor::new(&mut rng);
        let blinded = enc(&msg.blind(kp.public_key(), bf));
        c.eval();
        c.distinct("unproven-blinded-message-as-verified");
        #[allow(clippy::needless_borrow)]
        let got: Option<VerifiedBlindedMessage> = (&DecodeProbe::<VerifiedBlindedMessage>(std::marker::PhantomData)).try_decode(&blinded);
        match got {
            None => c.count("no_way_to_obtain_a_blind_signable_value_without_verification", 1),
            Some(v) => {
                let sig = v.blind_sign(&kp, &mut rng).unblind(bf);
                let verifies = sig.verify(kp.public_key(), &msg);
                c.violation(
                    "C08 blind-signable-value-obtained-without-verified-request",
                    json!({"route": "bincode decode of 48 bytes", "signature_on_unproven_message_verifies": verifies}),
                );
            }
        }
    });
}

pub fn run(c: &mut Ctx) {
    unproven_value_case(c);
    corrupted_signer_key_case(c);
    c.note(
        "rule",
        json!("One case per (N in {1,2,3,5,8,13}, key pair, message number). Message entries from EDGE={0,1,q-1,small,2^63-1,2^63,random,2^63|r,2^64-1} (numbers 0-8 constant class, 9-17 cyclic layouts, 18+ random class per coordinate); conjunction commitment scalars none / every other one / all with a zero (by message number); challenge over the first message alone / plus the key / plus a context string. Honest: builder -> challenge -> proof, the verifier recomputes the challenge from the proof, verify_knowledge_of_opening must be Some, its value is blind-signed and unblinded with message_blinding_factor(); ps_verify_ref (and Signature::verify) must accept the requester's message and reject one change per coordinate (+1 / random / other EDGE value / -1, rotating). Extras: the proof's commitment atom equals pedersen_ref_g1(g1, Y1..YN; message, blinding factor) and the bytes of Message::blind. Tampered: every non-length atom of the proof bytes replaced by another valid value, +1 (scalars), identity and negation (points), the same atom of a second honest request; commitments exchanged; challenge with extra bytes / other variant / of the second request / over another key; the whole second proof; another public key: all must give None (second request under its own challenge is the positive twin). Distinct = (N, key, message classes, commitment-scalar variant, challenge variant, check or tamper@atom). Added later: zero-randomiser signer, decode probe of VerifiedBlindedMessage, order-3 shift tamper, corrupted signer key. +1/-1 on a pair of coordinates and exchanged coordinates; the request about the identity element; second verification of the same request."),
    );
    let keys = c.tier.pick(3usize, 8);
    let msgs = c.tier.pick(48usize, 200);
    run_n::<1>(c, keys, msgs);
    run_n::<2>(c, keys, msgs);
    run_n::<3>(c, keys, msgs);
    run_n::<5>(c, keys, msgs);
    run_n::<8>(c, keys, msgs);
    run_n::<13>(c, keys, msgs);
}
