//! C09 — commitments are the exact Pedersen map and open only to what was committed.
//!
//! Oracle: `refs::pedersen_ref_g1` / `pedersen_ref_g2` (explicit loop over generators), fed with
//! generators the harness knows from the outside: the ones it passed to `from_generators`, the
//! ones read from the wire form of generated parameters (fields `h`, `gs[i]`), or the ones read
//! from the wire form of a public key (`g1, y1s` / `g2, y2s`) for derived parameters.
//! Refuting events: `commit(..).to_element()` != reference; `verify_opening` != (reference ==
//! commitment); `Com(m,r) + Com(m',r')` != `Com(m+m', r+r')`.

use crate::ctx::{guard, hex, Ctx};
use crate::props::util::repo_rel;
use crate::refs::{self, pedersen_ref_g1, pedersen_ref_g2, q_minus_1, PkAtoms};
use crate::tracer::{trace, Kind};
use crate::wire::dec;
use bls12_381::{G1Projective, G2Projective, Scalar};
use ff::Field;
use group::{Curve, Group};
use rand_core::RngCore;
use serde::Serialize;
use serde_json::{json, Value};
use zkchannels_crypto::{
    pedersen::{Commitment, PedersenParameters, ToPedersenParameters},
    pointcheval_sanders::{KeyPair, PublicKey},
    BlindingFactor, Message, SerializeElement,
};

/// The two groups, with the byte-level views the oracle works on.
trait Grp: Group<Scalar = Scalar> + SerializeElement + Copy + PartialEq + std::fmt::Debug + 'static {
    const NAME: &'static str;
    const KIND: Kind;
    fn to_wire(&self) -> Vec<u8>;
    /// reference Pedersen map on generators given in wire form
    fn reference(h: &[u8], gs: &[Vec<u8>], msg: &[Scalar], r: &Scalar) -> Result<Self, String>;
    fn key_params<const N: usize>(pk: &PublicKey<N>) -> PedersenParameters<Self, N>;
    fn key_generators(a: &PkAtoms) -> (Vec<u8>, Vec<Vec<u8>>);
}

impl Grp for G1Projective {
    const NAME: &'static str = "G1";
    const KIND: Kind = Kind::G1;
    fn to_wire(&self) -> Vec<u8> {
        self.to_affine().to_compressed().to_vec()
    }
    fn reference(h: &[u8], gs: &[Vec<u8>], msg: &[Scalar], r: &Scalar) -> Result<Self, String> {
        let h = refs::g1(h).ok_or("C09: generator h does not decompress")?;
        let mut g = vec![];
        for b in gs {
            g.push(refs::g1(b).ok_or("C09: generator g_i does not decompress")?);
        }
        if g.len() != msg.len() {
            return Err("C09: generator / message length mismatch".into());
        }
        Ok(pedersen_ref_g1(&h, &g, msg, r))
    }
    fn key_params<const N: usize>(pk: &PublicKey<N>) -> PedersenParameters<Self, N> {
        <PublicKey<N> as ToPedersenParameters<G1Projective, N>>::to_pedersen_parameters(pk)
    }
    fn key_generators(a: &PkAtoms) -> (Vec<u8>, Vec<Vec<u8>>) {
        (a.g1.to_compressed().to_vec(), a.y1s.iter().map(|y| y.to_compressed().to_vec()).collect())
    }
}

impl Grp for G2Projective {
    const NAME: &'static str = "G2";
    const KIND: Kind = Kind::G2;
    fn to_wire(&self) -> Vec<u8> {
        self.to_affine().to_compressed().to_vec()
    }
    fn reference(h: &[u8], gs: &[Vec<u8>], msg: &[Scalar], r: &Scalar) -> Result<Self, String> {
        let h = refs::g2(h).ok_or("C09: generator h does not decompress")?;
        let mut g = vec![];
        for b in gs {
            g.push(refs::g2(b).ok_or("C09: generator g_i does not decompress")?);
        }
        if g.len() != msg.len() {
            return Err("C09: generator / message length mismatch".into());
        }
        Ok(pedersen_ref_g2(&h, &g, msg, r))
    }
    fn key_params<const N: usize>(pk: &PublicKey<N>) -> PedersenParameters<Self, N> {
        <PublicKey<N> as ToPedersenParameters<G2Projective, N>>::to_pedersen_parameters(pk)
    }
    fn key_generators(a: &PkAtoms) -> (Vec<u8>, Vec<Vec<u8>>) {
        (a.g2.to_compressed().to_vec(), a.y2s.iter().map(|y| y.to_compressed().to_vec()).collect())
    }
}

const SOURCES: [&str; 4] = ["explicit-random", "explicit-known-dlog", "generated", "public-key"];
const SC_NAMES: [&str; 8] = ["0", "1", "q-1", "random", "2^63-1", "2^63|r", "2^64-1", "2^64+r"];

fn sc_of(class: usize, rng: &mut impl RngCore) -> Scalar {
    match class % 8 {
        0 => Scalar::zero(),
        1 => Scalar::one(),
        2 => q_minus_1(),
        3 => Scalar::random(&mut *rng),
        // machine-word-sized exponents: the sizes of balances, amounts and digits, and just beyond
        4 => Scalar::from(i64::MAX as u64),
        5 => Scalar::from(rng.next_u64() | (1 << 63)),
        6 => Scalar::from(u64::MAX),
        _ => Scalar::from_raw([rng.next_u64(), 1, 0, 0]),
    }
}

/// Message number `mi`: 0..4 constant class; 4..8 cyclic layouts of {0,1,q-1,random};
/// 8 a single random coordinate, others 0; 9 the word-sized classes laid out cyclically; 10 every
/// coordinate a 64-bit value with bit 63 set; from 11 on a random class per coordinate.
fn message<const N: usize>(mi: usize, rng: &mut impl RngCore) -> ([Scalar; N], String) {
    let mut vals = [Scalar::zero(); N];
    let mut names = vec![];
    let hot = (rng.next_u32() as usize) % N;
    for i in 0..N {
        let cl = match mi {
            0..=3 => mi,
            4..=7 => (i + mi) % 4,
            8 => {
                if i == hot {
                    3
                } else {
                    0
                }
            }
            9 => 4 + (i + 1) % 4,
            10 => 5,
            _ => (rng.next_u32() % 8) as usize,
        };
        vals[i] = sc_of(cl, rng);
        names.push(SC_NAMES[cl]);
    }
    (vals, names.join("."))
}

fn bf_from(s: &Scalar) -> Result<BlindingFactor, String> {
    dec::<BlindingFactor>(&s.to_bytes())
}

struct Params<G: Grp, const N: usize> {
    params: PedersenParameters<G, N>,
    /// generators as the oracle knows them
    h: Vec<u8>,
    gs: Vec<Vec<u8>>,
    /// discrete logarithms of (h, gs) to a common base, when the harness chose them
    dlogs: Option<(Scalar, Vec<Scalar>)>,
}

/// Parameters number `inst` from `source`; deterministic in (group, N, source, inst).
fn make_params<G: Grp, const N: usize>(c: &Ctx, source: &str, inst: usize) -> Result<Params<G, N>, String>
where
    PedersenParameters<G, N>: Serialize,
{
    let mut rng = c.rng(&format!("params/{}/N={}/{}/{}", G::NAME, N, source, inst));
    match source {
        "explicit-random" => {
            let h = G::random(&mut rng);
            let mut gs = [G::identity(); N];
            for g in gs.iter_mut() {
                *g = G::random(&mut rng);
            }
            // every other instance repeats a generator (still a legal explicit choice)
            if N >= 2 && inst % 2 == 1 {
                gs[N - 1] = gs[0];
            }
            Ok(Params {
                params: PedersenParameters::from_generators(h, gs),
                h: h.to_wire(),
                gs: gs.iter().map(|g| g.to_wire()).collect(),
                dlogs: None,
            })
        }
        "explicit-known-dlog" => {
            // h = a0 * B, g_i = a_i * B for a random base B and non-zero scalars the harness knows
            let base = G::random(&mut rng);
            let nz = |rng: &mut rand_chacha::ChaCha20Rng, small: bool| loop {
                let s = if small { Scalar::from(1 + (rng.next_u32() % 9) as u64) } else { Scalar::random(&mut *rng) };
                if !bool::from(s.is_zero()) {
                    return s;
                }
            };
            let small = inst % 2 == 0;
            let a0 = nz(&mut rng, small);
            let mut a = vec![];
            let mut gs = [G::identity(); N];
            for g in gs.iter_mut() {
                let ai = nz(&mut rng, small);
                *g = base * ai;
                a.push(ai);
            }
            let h = base * a0;
            Ok(Params {
                params: PedersenParameters::from_generators(h, gs),
                h: h.to_wire(),
                gs: gs.iter().map(|g| g.to_wire()).collect(),
                dlogs: Some((a0, a)),
            })
        }
        "generated" => {
            let params = PedersenParameters::<G, N>::new(&mut rng);
            let t = trace(&params)?;
            let h = t.fget("h")?;
            let mut gs = vec![];
            for i in 0..N {
                gs.push(t.fget(&format!("gs/[{}]", i))?);
            }
            let n_points = t.atoms.iter().filter(|a| a.kind == G::KIND).count();
            if n_points != N + 1 {
                return Err(format!("C09: generated parameters have {} group atoms, expected {}", n_points, N + 1));
            }
            Ok(Params { params, h, gs, dlogs: None })
        }
        "public-key" => {
            let kp = KeyPair::<N>::new(&mut rng);
            let a = PkAtoms::from_value(kp.public_key())?;
            if a.n() != N {
                return Err("C09: public key atoms do not have N entries".into());
            }
            if inst % 2 == 1 {
                // a second key that shares both generators with the first and differs in every Y: its
                // parameters are read right after the first key's (the view of a key is a function of
                // that key, whatever was asked before)
                let _first = G::key_params(kp.public_key());
                let t = trace(kp.public_key())?;
                let mut bytes = t.bytes.clone();
                for i in 0..N {
                    for half in ["y1s", "y2s"] {
                        let at = t.by_fpath(&format!("{}/[{}]", half, i));
                        if at.len() != 1 {
                            return Err("C09: public key layout".into());
                        }
                        let alt = crate::wire::alt_valid(at[0].kind, t.atom_bytes(at[0]), &mut rng).ok_or("C09: no alternative point")?;
                        bytes[at[0].offset..at[0].offset + at[0].len].copy_from_slice(&alt);
                    }
                }
                let pk2: PublicKey<N> = dec(&bytes)?;
                let a2 = PkAtoms::from_value(&pk2)?;
                let (h, gs) = G::key_generators(&a2);
                return Ok(Params { params: G::key_params(&pk2), h, gs, dlogs: None });
            }
            let (h, gs) = G::key_generators(&a);
            Ok(Params { params: G::key_params(kp.public_key()), h, gs, dlogs: None })
        }
        _ => Err("C09: unknown parameter source".into()),
    }
}

struct Cx<'a, G: Grp, const N: usize> {
    p: &'a Params<G, N>,
    source: &'a str,
    /// distinct-key prefix
    key: String,
}

impl<'a, G: Grp, const N: usize> Cx<'a, G, N> {
    fn detail(&self, m: &[Scalar; N], r: &Scalar, extra: Value) -> Value {
        json!({
            "group": G::NAME, "N": N, "source": self.source,
            "h": hex(&self.p.h), "gs": self.p.gs.iter().map(|g| hex(g)).collect::<Vec<_>>(),
            "message": m.iter().map(|s| hex(&s.to_bytes())).collect::<Vec<_>>(),
            "blinding_factor": hex(&r.to_bytes()), "extra": extra,
        })
    }

    /// `commit(m, r).to_element()` compared with the reference; returns (library element, reference)
    fn commit_check(&self, c: &mut Ctx, m: &[Scalar; N], r: &Scalar, what: &str) -> Option<(Commitment<G>, G)> {
        let bf = c.ok(bf_from(r))?;
        let reference = c.ok(G::reference(&self.p.h, &self.p.gs, m, r))?;
        c.eval();
        c.distinct(&format!("{}/{}/commit", self.key, what));
        let com = match guard(|| Message::new(*m).commit(&self.p.params, bf)) {
            Ok(x) => x,
            Err(p) => {
                c.violation(
                    &format!("C09 commit-panicked group={} N={} source={} loc={}", G::NAME, N, self.source, repo_rel(&p.location)),
                    self.detail(m, r, json!({"panic": p.message})),
                );
                return None;
            }
        };
        let el = com.to_element();
        let same = el == reference && el.to_wire() == reference.to_wire();
        c.count(&format!("commit-equals-reference:{}", same), 1);
        if bool::from(el.is_identity()) {
            c.count("commitments-that-are-the-identity", 1);
        }
        if !same {
            c.violation(
                &format!("C09 commitment-differs-from-pedersen-map group={} N={} source={}", G::NAME, N, self.source),
                self.detail(m, r, json!({"library": hex(&el.to_wire()), "reference": hex(&reference.to_wire()), "opening": what})),
            );
        }
        Some((com, reference))
    }

    /// `com.verify_opening(params, r, m)` compared with (reference(m, r) == com)
    #[allow(clippy::too_many_arguments)]
    fn opening_check(&self, c: &mut Ctx, com: &Commitment<G>, m: &[Scalar; N], r: &Scalar, class: &str, what: &str, stated: Option<bool>) {
        let Some(bf) = c.ok(bf_from(r)) else { return };
        let Some(reference) = c.ok(G::reference(&self.p.h, &self.p.gs, m, r)) else { return };
        let el = com.to_element();
        let oracle = reference == el;
        c.eval();
        c.distinct(&format!("{}/{}", self.key, what));
        let lib = match guard(|| com.verify_opening(&self.p.params, bf, &Message::new(*m))) {
            Ok(v) => v,
            Err(p) => {
                c.violation(
                    &format!("C09 verify_opening-panicked group={} N={} source={} case={} loc={}", G::NAME, N, self.source, class, repo_rel(&p.location)),
                    self.detail(m, r, json!({"panic": p.message, "commitment": hex(&el.to_wire())})),
                );
                return;
            }
        };
        c.count(&format!("{}:{}", class, if lib { "accepted" } else { "rejected" }), 1);
        let extra = json!({"commitment": hex(&el.to_wire()), "reference_of_opening": hex(&reference.to_wire()),
                           "library": lib, "oracle": oracle, "opening": what});
        if lib != oracle {
            c.violation(
                &format!("C09 verify_opening-disagrees-with-recomputation group={} N={} source={} case={}", G::NAME, N, self.source, class),
                self.detail(m, r, extra),
            );
        } else if let Some(s) = stated {
            if lib != s {
                let w = if s { "original-opening-rejected" } else { "changed-opening-accepted" };
                c.violation(&format!("C09 {} group={} N={} source={} case={}", w, G::NAME, N, self.source, class), self.detail(m, r, extra));
            }
        }
    }
}

fn opening_case<G: Grp, const N: usize>(c: &mut Ctx, name: &str, source: &str, inst: usize, mi: usize)
where
    PedersenParameters<G, N>: Serialize,
{
    let mut rng = c.rng(name);
    let p = match make_params::<G, N>(c, source, inst) {
        Ok(p) => p,
        Err(e) => return c.inconclusive(&e),
    };
    let (m, mname) = message::<N>(mi, &mut rng);
    let thorough = c.tier.pick(false, true);
    let bfcs: Vec<usize> = if mi == 10 { vec![0, 1, 2, 3, 5, 6] } else { vec![0, 1, 2, 3] };
    for bfc in bfcs {
        let r = sc_of(bfc, &mut rng);
        let cx = Cx::<G, N> { p: &p, source, key: format!("{}/N={}/{}/{}/msg={}/bf={}", G::NAME, N, source, inst, mname, SC_NAMES[bfc]) };

        // the map itself, and the original opening
        let Some((com, _reference)) = cx.commit_check(c, &m, &r, "original") else { continue };
        cx.opening_check(c, &com, &m, &r, "original-opening", "open/original", Some(true));
        // the negated opening opens the negated commitment, not this one (unless the commitment is the identity)
        {
            let mut mn = m;
            for x in mn.iter_mut() {
                *x = -*x;
            }
            let rn = -r;
            cx.opening_check(c, &com, &mn, &rn, "negated-opening", "open/negated", None);
        }
        if bfc == 3 && (mi == 4 || mi == 5) {
            c.sample(json!({"kind": "opening", "group": G::NAME, "N": N, "source": source, "message_classes": mname,
                            "blinding_factor_class": SC_NAMES[bfc], "commitment": hex(&com.to_element().to_wire()),
                            "detail": cx.detail(&m, &r, json!(null))}));
        }

        // every single-coordinate perturbation of the message
        for j in 0..N {
            // quick tier: +1 on every coordinate under the random blinding factor and one rotating
            // constant one, a random replacement on every coordinate under the random blinding
            // factor; one rotating coordinate gets +1, -1 and random under every blinding factor
            let full = thorough || bfc == 3 || bfc == mi % 3;
            let rotating = j == (mi + bfc) % N;
            let mut kinds = vec![];
            if full || rotating {
                kinds.push("+1");
            }
            if thorough || bfc == 3 || rotating {
                kinds.push("random");
            }
            if thorough || rotating || (j == N - 1 && full) {
                kinds.push("-1");
            }
            if thorough {
                kinds.push("zeroed-or-one");
            }
            for kind in kinds {
                let mut m2 = m;
                m2[j] = match kind {
                    "+1" => m[j] + Scalar::one(),
                    "-1" => m[j] - Scalar::one(),
                    "random" => Scalar::random(&mut rng),
                    _ => {
                        if bool::from(m[j].is_zero()) {
                            Scalar::one()
                        } else {
                            Scalar::zero()
                        }
                    }
                };
                if m2[j] == m[j] {
                    continue;
                }
                cx.opening_check(c, &com, &m2, &r, &format!("single-coordinate-change({})", kind), &format!("open/coord={}/{}", j, kind), Some(false));
            }
        }
        // perturbed blinding factor
        for (kind, r2) in [("+1", r + Scalar::one()), ("random", Scalar::random(&mut rng)), ("negated", -r)] {
            if r2 == r || (kind == "negated" && !thorough && bfc != 3) {
                continue;
            }
            cx.opening_check(c, &com, &m, &r2, &format!("blinding-factor-change({})", kind), &format!("open/bf/{}", kind), Some(false));
        }
        // a different commitment against the original opening, additivity, decoded commitments
        // (quick tier: under the random blinding factor and one rotating constant one)
        if thorough || bfc == 3 || bfc == mi % 3 {
            let (m3, _) = message::<N>(11, &mut rng);
            let r3 = Scalar::random(&mut rng);
            if let Some((other, _)) = cx.commit_check(c, &m3, &r3, "second") {
                if other.to_element() != com.to_element() {
                    cx.opening_check(c, &other, &m, &r, "different-commitment(another opening)", "open/other-commitment", Some(false));
                    // twin: that commitment opens to its own opening
                    cx.opening_check(c, &other, &m3, &r3, "original-opening", "open/other-commitment/own", Some(true));
                }
                // additivity, library on both sides and against the reference
                let mut ms = m;
                for i in 0..N {
                    ms[i] += m3[i];
                }
                let rs = r + r3;
                if let Some((sum_com, sum_ref)) = cx.commit_check(c, &ms, &rs, "sum") {
                    c.eval();
                    c.distinct(&format!("{}/additivity", cx.key));
                    let added = com.to_element() + other.to_element();
                    let ok = added == sum_com.to_element() && added == sum_ref;
                    c.count(&format!("additivity-holds:{}", ok), 1);
                    if !ok {
                        c.violation(
                            &format!("C09 additivity-fails group={} N={} source={}", G::NAME, N, source),
                            cx.detail(&m, &r, json!({"second_message": m3.iter().map(|s| hex(&s.to_bytes())).collect::<Vec<_>>(),
                                "second_blinding_factor": hex(&r3.to_bytes()), "sum_of_commitments": hex(&added.to_wire()),
                                "commitment_of_sums": hex(&sum_com.to_element().to_wire()), "reference_of_sums": hex(&sum_ref.to_wire())})),
                        );
                    }
                    // the sum of the commitments opens to the sums (through the wire: Commitment has no public constructor)
                    match dec::<Commitment<G>>(&added.to_wire()) {
                        Ok(ac) => cx.opening_check(c, &ac, &ms, &rs, "sum-of-commitments-opens-to-sums", "open/sum", None),
                        Err(e) => c.inconclusive(&format!("C09: sum of two commitments does not decode as a commitment: {}", e)),
                    }
                }
            }
            // a commitment decoded from a random element, and the identity commitment
            let rnd = G::random(&mut rng);
            for (kind, bytes) in [("random-element", rnd.to_wire()), ("identity", G::identity().to_wire())] {
                match dec::<Commitment<G>>(&bytes) {
                    Ok(dc) => {
                        c.count(&format!("decoded-commitment({}):decodes", kind), 1);
                        let stated = if dc.to_element() == com.to_element() { None } else { Some(false) };
                        cx.opening_check(c, &dc, &m, &r, &format!("different-commitment(decoded {})", kind), &format!("open/decoded-{}", kind), stated);
                    }
                    // an identity commitment is a legal value; a decoder refusing it is not this property's matter
                    Err(_) => c.count(&format!("decoded-commitment({}):refused-at-decode", kind), 1),
                }
            }
        }
        // openings that differ from the original and still recompute to the same element
        // (possible only because the harness knows the discrete logarithms): must be accepted
        if let Some((a0, a)) = &p.dlogs {
            // r -> r + a_0^-1 * a_j * d  and  m_j -> m_j - d  leave h^r g_j^{m_j} unchanged
            let j = (mi + bfc) % N;
            let d = Scalar::from(1 + (rng.next_u32() % 1000) as u64);
            let inv: Option<Scalar> = Option::from(a0.invert());
            if let Some(inv) = inv {
                let mut m2 = m;
                m2[j] -= d;
                let r2 = r + inv * a[j] * d;
                cx.opening_check(c, &com, &m2, &r2, "colliding-opening(message and blinding factor)", &format!("open/collision-bf/coord={}", j), None);
                c.count("colliding-openings-constructed", 1);
            }
            if N >= 2 {
                let j2 = (j + 1) % N;
                let inv2: Option<Scalar> = Option::from(a[j2].invert());
                if let Some(inv2) = inv2 {
                    let mut m2 = m;
                    m2[j] -= d;
                    m2[j2] += inv2 * a[j] * d;
                    cx.opening_check(c, &com, &m2, &r, "colliding-opening(two coordinates)", &format!("open/collision-2/coord={}", j), None);
                    c.count("colliding-openings-constructed", 1);
                }
            }
        }
    }
}

fn run_group_n<G: Grp, const N: usize>(c: &mut Ctx, insts: usize, msgs: usize)
where
    PedersenParameters<G, N>: Serialize,
{
    for source in SOURCES {
        for inst in 0..insts {
            for mi in 0..msgs {
                // quick tier: each message number meets one of the two parameter instances
                if c.tier.pick(true, false) && (mi + inst) % 2 == 1 {
                    continue;
                }
                let name = format!("open/{}/N={}/{}/{}/msg={}", G::NAME, N, source, inst, mi);
                c.case(&name, |c| opening_case::<G, N>(c, &name, source, inst, mi));
            }
        }
    }
}

fn run_n<const N: usize>(c: &mut Ctx, insts: usize, msgs: usize) {
    run_group_n::<G1Projective, N>(c, insts, msgs);
    run_group_n::<G2Projective, N>(c, insts, msgs);
}

/// Parameters *generated* under crafted randomness (a zero window at each draw of
/// PedersenParameters::new): whatever the stream, an opening that differs from the committed one in
/// the blinding factor or in one coordinate must be refused.
fn generated_under_zero_windows<const N: usize>(c: &mut Ctx) {
    use crate::srng::ScriptRng;
    use zkchannels_crypto::{BlindingFactor, Message};
    for g2 in [false, true] {
        let name = format!("generated-under-zero-window/{}/N={}", if g2 { "G2" } else { "G1" }, N);
        c.case(&name, |c| {
            let mut rng = c.rng(&name);
            let mut seed = [0u8; 32];
            rng.fill_bytes(&mut seed);
            let mut dry = ScriptRng::new(seed);
            if g2 {
                let _ = PedersenParameters::<G2Projective, N>::new(&mut dry);
            } else {
                let _ = PedersenParameters::<G1Projective, N>::new(&mut dry);
            }
            for d in 0..dry.draws() {
                let mut sr = ScriptRng::new(seed);
                sr.inject(d, vec![0u8; dry.log[d].len]);
                let mut vals = [Scalar::zero(); N];
                for v in vals.iter_mut() {
                    *v = Scalar::random(&mut rng);
                }
                let msg = Message::new(vals);
                let bf = BlindingFactor::new(&mut rng);
                let bf2 = BlindingFactor::new(&mut rng);
                let mut vals2 = vals;
                vals2[d % N] += Scalar::one();
                let msg2 = Message::new(vals2);
                c.eval();
                c.distinct(&format!("{}/draw{}", name, d));
                let r = crate::ctx::guard(|| {
                    if g2 {
                        let p = PedersenParameters::<G2Projective, N>::new(&mut sr);
                        let com = msg.commit(&p, bf);
                        (com.verify_opening(&p, bf, &msg), com.verify_opening(&p, bf2, &msg), com.verify_opening(&p, bf, &msg2))
                    } else {
                        let p = PedersenParameters::<G1Projective, N>::new(&mut sr);
                        let com = msg.commit(&p, bf);
                        (com.verify_opening(&p, bf, &msg), com.verify_opening(&p, bf2, &msg), com.verify_opening(&p, bf, &msg2))
                    }
                });
                match r {
                    Err(p) => c.violation(&format!("C09 generator-panicked group={} N={} loc={}", if g2 { "G2" } else { "G1" }, N, crate::props::util::repo_rel(&p.location)), json!({"draw": d, "panic": p.message})),
                    Ok((own, other_bf, other_coord)) => {
                        if !own || other_bf || other_coord {
                            c.violation(
                                &format!("C09 generated-parameters-do-not-bind group={} N={}", if g2 { "G2" } else { "G1" }, N),
                                json!({"zero_window_at_draw": d, "draw_length": dry.log[d].len, "original_opening_accepted": own,
                                       "other_blinding_factor_accepted": other_bf, "changed_coordinate_accepted": other_coord}),
                            );
                        } else {
                            c.count("generated-under-zero-window:binds", 1);
                        }
                    }
                }
            }
        });
    }
}

pub fn run(c: &mut Ctx) {
    c.note(
        "rule",
        json!("One case per (group in {G1,G2}, N in {1,2,3,5,8,13}, parameter source, parameter instance, message number; in the quick tier each message number meets one of two instances); inside, the four blinding-factor classes {0,1,q-1,random}. Sources: from_generators with random generators (odd instances repeat one generator), from_generators with generators a_i*B of known discrete logarithms (even instances small a_i), PedersenParameters::new (generators recovered from the wire form, fields h and gs[i]), ToPedersenParameters of a fresh public key (generators read from the key's wire form). Messages: numbers 0-3 constant class from {0,1,q-1,random}, 4-7 cyclic layouts, 8 one random coordinate, 9+ random class per coordinate. Per opening: to_element vs reference; verify_opening vs (reference == commitment) on the original opening, on every coordinate changed by +1 and to a random value (quick tier: +1 on every coordinate under the random and one rotating constant blinding-factor class, the random replacement on every coordinate under the random class, one rotating coordinate gets +1, -1 and random under every class, the last coordinate also -1; thorough tier: +1, -1, random and 0/1 everywhere), on the blinding factor +1 / random / negated, on a second commitment (this and the following checks under two of the four blinding-factor classes in the quick tier), on commitments decoded from a random element and from the identity, on the sum of two commitments with the summed opening, and (known discrete logarithms only) on two different openings that recompute to the same element, which must be accepted; additivity Com(m,r)+Com(m',r') = Com(m+m',r+r') against library and reference. Distinct = (group, N, source, instance, per-coordinate message classes, blinding-factor class, check). Added later: generated parameters under zero windows. Word-sized exponents and blinding factors; a second key sharing both generators read after the first; the negated opening."),
    );
    let insts = c.tier.pick(2usize, 4);
    let msgs = c.tier.pick(12usize, 26);
    run_n::<1>(c, insts, msgs);
    run_n::<2>(c, insts, msgs);
    run_n::<3>(c, insts, msgs);
    run_n::<5>(c, insts, msgs);
    run_n::<8>(c, insts, msgs);
    run_n::<13>(c, insts, msgs);
    generated_under_zero_windows::<1>(c);
    generated_under_zero_windows::<3>(c);
}
