//! C09 — monitor not written yet.
use crate::ctx::Ctx;

pub fn run(c: &mut Ctx) {
    c.inconclusive("C09: monitor not written yet");
}
