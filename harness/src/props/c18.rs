//! C18 — pay tokens and closing signatures can never stand in for each other.
//!
//! (1) nonce generation under RNG streams crafted so that the sampled scalar is the close tag, at
//! every 64-byte draw of the calls that create nonces; (2) decoded nonces; (3) a valid pay token
//! offered as closing signature and vice versa; (4) channel-id determinism and single-input
//! sensitivity.

use crate::ctx::{guard, hex, Ctx};
use crate::fixtures::{self, Merchant};
use crate::props::util::*;
use crate::refs::*;
use crate::session::{amount, new_channel_id, Sess, Stage};
use crate::srng::ScriptRng;
use crate::tracer::trace;
use crate::wire::{copy, dec, enc};
use bls12_381::Scalar;
use rand_core::RngCore;
use serde_json::json;
use zkabacus_crypto::{self as zk, customer::ClosingMessage, ChannelId, Context, CustomerRandomness, MerchantRandomness, Verification};

/// 64 bytes that `Scalar::random` maps to the close tag
fn tag_pattern() -> Vec<u8> {
    let mut b = close_tag_ref().to_bytes().to_vec();
    b.extend_from_slice(&[0u8; 32]);
    b
}

/// another 64-byte sample that `Scalar::random` maps to the close tag: tag + q (not the canonical
/// bytes of the tag, so a comparison of raw bytes would not notice)
fn tag_plus_q_pattern() -> Vec<u8> {
    let t = close_tag_ref().to_bytes();
    let mut out = vec![0u8; 64];
    let mut carry = 0u16;
    for i in 0..32 {
        let x = t[i] as u16 + crate::wire::Q_LE[i] as u16 + carry;
        out[i] = x as u8;
        carry = x >> 8;
    }
    out[32] = carry as u8;
    out
}

/// samples of `len` bytes that a scalar sampler maps to the close tag: the tag's own little-endian bytes
/// (zero-extended) and tag + q. Works for samplers that take 64 bytes (wide reduction) and for ones that
/// take 32 or 48 and reduce.
fn tag_patterns(len: usize) -> Vec<Vec<u8>> {
    if len < 32 {
        return vec![];
    }
    let mut a = tag_pattern();
    let mut b = tag_plus_q_pattern();
    a.resize(len.max(64), 0);
    b.resize(len.max(64), 0);
    a.truncate(len);
    b.truncate(len);
    vec![a, b]
}

fn seed_of(rng: &mut impl RngCore) -> [u8; 32] {
    let mut s = [0u8; 32];
    rng.fill_bytes(&mut s);
    s
}

fn is_tag(b: &[u8]) -> bool {
    b == close_tag_ref().to_bytes()
}

fn nonce_generation(c: &mut Ctx) {
    c.case("nonce/test_new_nonce", |c| {
        let mut rng = c.rng("nonce/test_new_nonce");
        // self-check of the pattern: it really samples the close tag
        {
            use ff::Field;
            let mut r = ScriptRng::new([1u8; 32]);
            r.inject(0, tag_pattern());
            if Scalar::random(&mut r) != close_tag_ref() {
                return c.inconclusive("C18: the crafted pattern does not sample the close tag");
            }
            let mut r = ScriptRng::new([1u8; 32]);
            r.inject(0, tag_plus_q_pattern());
            if Scalar::random(&mut r) != close_tag_ref() {
                return c.inconclusive("C18: the crafted tag+q pattern does not sample the close tag");
            }
        }
        // how many bytes does the generator ask for? (64 at the pinned commit)
        let len0 = {
            let mut dry = ScriptRng::new([2u8; 32]);
            let _ = zk::internal::test_new_nonce(&mut dry);
            dry.log.first().map(|d| d.len).unwrap_or(0)
        };
        let pats = tag_patterns(len0);
        if pats.is_empty() {
            return c.inconclusive("C18: the nonce generator's first draw is shorter than a scalar");
        }
        c.note("nonce_generator_draw_length", json!(len0));
        for run in 0..c.tier.pick(40, 400) {
            let k = 1 + run % 4; // tag sampled k times in a row
            let mut r = ScriptRng::new(seed_of(&mut rng));
            for i in 0..k {
                r.inject(i, pats[(run / 4 + i) % 2].clone());
            }
            c.eval();
            c.distinct(&format!("test_new_nonce/{}in-a-row/{}", k, run));
            let n = zk::internal::test_new_nonce(&mut r);
            let nb = enc(&n);
            if r.consumed != k || r.misaligned != 0 {
                c.inconclusive("C18: injection not consumed by test_new_nonce");
                continue;
            }
            c.count("nonce_generations_with_tag_sampled", 1);
            if is_tag(&nb) {
                c.violation("C18 generated-nonce-equals-close-tag call=test_new_nonce", json!({"in_a_row": k, "draws": r.draws()}));
            } else if r.draws() != k + 1 {
                // the rejection path must have been taken: one extra draw per rejected sample
                c.violation("C18 close-tag-sample-not-redrawn call=test_new_nonce", json!({"in_a_row": k, "draws": r.draws(), "nonce": hex(&nb)}));
            }
        }
        // decoded nonces
        c.eval();
        c.distinct("decode/close-tag");
        if dec::<zk::Nonce>(&close_tag_ref().to_bytes()).is_ok() {
            c.violation("C18 decoded-nonce-equals-close-tag", json!({}));
        }
        for d in [Scalar::one(), -Scalar::one()] {
            c.eval();
            let v = (close_tag_ref() + d).to_bytes();
            match dec::<zk::Nonce>(&v) {
                Ok(n) if enc(&n) == v => c.count("near_tag_nonces_decoded", 1),
                _ => c.violation("C18 neighbour-of-close-tag-rejected-as-nonce", json!({"value": hex(&v)})),
            }
        }
    });
}

fn requested_new(c: &mut Ctx, m: &'static Merchant) {
    let name = "nonce/Requested::new";
    c.case(name, |c| {
        let mut rng = c.rng(name);
        let cid = new_channel_id(m, &mut rng, b"m", b"c");
        let seed = seed_of(&mut rng);
        // dry run: where are the 64-byte draws?
        let mut dry = ScriptRng::new(seed);
        let (s0, _p0) = match Sess::request(m, &mut dry, cid, 10, 20, b"c18") {
            Ok(x) => x,
            Err(e) => return c.inconclusive(&e),
        };
        // every draw long enough to become a scalar (all are 64 bytes at the pinned commit)
        let draws64: Vec<usize> = dry.log.iter().filter(|d| d.len >= 32).map(|d| d.index).collect();
        let base_draws = dry.draws();
        c.note("Requested::new_scalar_draws", json!(draws64.len()));
        let _ = s0;
        let mut redrawn = 0;
        for &d in &draws64 {
            for k in 1..=c.tier.pick(1usize, 3) {
                let mut r = ScriptRng::new(seed);
                let pats = tag_patterns(dry.log[d].len);
                for i in 0..k {
                    r.inject(d + i, pats[(d + i) % 2].clone());
                }
                c.eval();
                c.distinct(&format!("Requested::new/draw{}/x{}", d, k));
                let res = guard(|| Sess::request(m, &mut r, cid, 10, 20, b"c18"));
                let (s, proof) = match res {
                    Ok(Ok(x)) => x,
                    Ok(Err(e)) => {
                        c.inconclusive(&e);
                        continue;
                    }
                    Err(p) => {
                        c.violation(&format!("C18 panic-under-crafted-rng call=Requested::new loc={}", repo_rel(&p.location)), json!({"draw": d, "panic": p.message}));
                        continue;
                    }
                };
                if r.consumed == 0 {
                    c.inconclusive("C18: injection not consumed by Requested::new");
                    continue;
                }
                let Stage::Requested(rq) = &s.stage else { continue };
                let nonce = trace(rq).and_then(|t| t.fget("state/nonce"));
                match nonce {
                    Ok(nb) if is_tag(&nb) => c.violation("C18 generated-nonce-equals-close-tag call=Requested::new", json!({"draw": d, "in_a_row": k})),
                    Ok(_) => {
                        if r.draws() > base_draws {
                            redrawn += 1;
                        }
                        // the proof made from the re-drawn state is still accepted
                        if k == 1 {
                            let mut s = s;
                            match s.m_initialize(&mut rng, 10, 20, &proof, b"c18") {
                                Ok(Some(_)) => c.count("proofs_after_redraw_accepted", 1),
                                _ => c.violation("C18 establish-proof-rejected-under-crafted-rng", json!({"draw": d})),
                            }
                        }
                    }
                    Err(e) => c.inconclusive(&e),
                }
            }
        }
        c.count("Requested::new_runs_with_extra_draw", redrawn);
        if redrawn == 0 {
            c.inconclusive("C18: no injected run of Requested::new took the rejection path (no extra draw observed)");
        }
    });
}

fn ready_start(c: &mut Ctx, m: &'static Merchant) {
    let states = c.tier.pick(2usize, 12);
    for si in 0..states {
        // fixture for this state
        let mut frng = Ctx::fixture_rng(c.seed, &format!("c18/ready/{}", si));
        let sess = Sess::open(m, &mut frng, 100 + si as u64, 50, b"c18");
        let ready_bytes = match sess {
            Ok(s) => s.stage.bytes(),
            Err(e) => return c.inconclusive(&e),
        };
        let seed = seed_of(&mut frng);
        let start = |r: &mut ScriptRng| -> Result<(Vec<u8>, Vec<u8>, Vec<u8>), String> {
            let rd: zk::customer::Ready = dec(&ready_bytes)?;
            match rd.start(r, amount(3)?, &Context::new(b"c18"), &m.ccfg) {
                Ok((st, msg)) => {
                    let t = trace(&st)?;
                    Ok((t.fget("new_state/nonce")?, enc(&msg.nonce), enc(&msg.pay_proof)))
                }
                Err((_, e)) => Err(format!("{:?}", e)),
            }
        };
        let mut dry = ScriptRng::new(seed);
        if let Err(e) = start(&mut dry) {
            return c.inconclusive(&e);
        }
        let draws64: Vec<usize> = dry.log.iter().filter(|d| d.len >= 32).map(|d| d.index).collect();
        let lens: Vec<usize> = dry.log.iter().map(|d| d.len).collect();
        let base_draws = dry.draws();
        c.note("Ready::start_scalar_draws", json!(draws64.len()));
        // quick: the first draws (where the state is created) and a spread of the others
        let picks: Vec<usize> = if c.tier == crate::ctx::Tier::Quick {
            draws64.iter().enumerate().filter(|(i, _)| *i < 4 || i % 16 == 5).map(|(_, d)| *d).collect()
        } else {
            draws64.clone()
        };
        for d in picks {
            let name = format!("nonce/Ready::start/state{}/draw{}", si, d);
            c.case(&name, |c| {
                let mut r = ScriptRng::new(seed);
                r.inject(d, tag_patterns(lens[d])[d % 2].clone());
                c.eval();
                c.distinct(&name);
                match guard(|| start(&mut r)) {
                    Ok(Ok((new_nonce, old_nonce, _proof))) => {
                        if r.consumed == 0 {
                            return c.inconclusive("C18: injection not consumed by Ready::start");
                        }
                        if is_tag(&new_nonce) || is_tag(&old_nonce) {
                            c.violation("C18 generated-nonce-equals-close-tag call=Ready::start", json!({"draw": d}));
                        }
                        if r.draws() > base_draws {
                            c.count("Ready::start_runs_with_extra_draw", 1);
                        }
                        c.count("Ready::start_runs_injected", 1);
                    }
                    Ok(Err(e)) => c.inconclusive(&e),
                    Err(p) => c.violation(&format!("C18 panic-under-crafted-rng call=Ready::start loc={}", repo_rel(&p.location)), json!({"draw": d, "panic": p.message})),
                }
            });
        }
    }
}

/// every nonce atom of every state of honest histories differs from the close tag
fn histories(c: &mut Ctx, m: &'static Merchant) {
    for h in 0..c.tier.pick(6usize, 60) {
        let name = format!("history{}", h);
        c.case(&name, |c| {
            let mut rng = c.rng(&name);
            let mut s = match Sess::open(m, &mut rng, 1000, 1000, b"c18h") {
                Ok(s) => s,
                Err(e) => return c.inconclusive(&e),
            };
            for p in 0..3 {
                let check = |c: &mut Ctx, s: &Sess| {
                    let t = match &s.stage {
                        Stage::Ready(x) => trace(x),
                        Stage::Started(x) => trace(x),
                        Stage::Locked(x) => trace(x),
                        _ => return,
                    };
                    if let Ok(t) = t {
                        for a in t.atoms.iter().filter(|a| a.path.contains("Nonce")) {
                            c.eval();
                            if is_tag(t.atom_bytes(a)) {
                                c.violation("C18 state-nonce-equals-close-tag", json!({"stage": s.stage.name(), "atom": a.path}));
                            }
                            c.count("state_nonce_atoms_checked", 1);
                        }
                    }
                };
                check(c, &s);
                c.distinct(&format!("{}/payment{}", name, p));
                // token / closing signature separation on this state
                if let Stage::Ready(r) = &s.stage {
                    separation(c, m, r, &mut rng);
                }
                if s.pay(&mut rng, amount(5 - 4 * p as i64).unwrap(), b"c18h").map(|r| r.is_ok()) != Ok(true) {
                    return c.inconclusive("C18: honest payment failed");
                }
            }
        });
    }
}

fn separation(c: &mut Ctx, m: &'static Merchant, r: &zk::customer::Ready, rng: &mut (impl RngCore + rand_core::CryptoRng)) {
    let Ok(t) = trace(r) else { return c.inconclusive("C18: trace") };
    let g = |p: &str| t.fget(p);
    let (Ok(cid), Ok(nonce), Ok(lock), Ok(cb), Ok(mb)) = (g("state/channel_id"), g("state/nonce"), g("state/revocation_pair/lock"), g("state/customer_balance"), g("state/merchant_balance")) else {
        return c.inconclusive("C18: Ready layout");
    };
    let st = [raw32_to_scalar(&cid), sc(&nonce).unwrap_or_default(), sc(&lock).unwrap_or_default(), Scalar::from(le64(&cb)), Scalar::from(le64(&mb))];
    let cl = [st[0], close_tag_ref(), st[2], st[3], st[4]];
    let tok = (g1(&g("pay_token/sigma1").unwrap_or_default()), g1(&g("pay_token/sigma2").unwrap_or_default()));
    let cs = (g1(&g("close_state_signature/sigma1").unwrap_or_default()), g1(&g("close_state_signature/sigma2").unwrap_or_default()));
    let ((Some(t1), Some(t2)), (Some(c1), Some(c2))) = (tok, cs) else { return c.inconclusive("C18: signatures") };
    // reference view
    c.eval();
    let ok = ps_verify_ref(&m.pk, &t1, &t2, &st) && ps_verify_ref(&m.pk, &c1, &c2, &cl);
    if !ok {
        return c.inconclusive("C18: the customer's own signatures do not verify by the reference (C04's subject)");
    }
    if ps_verify_ref(&m.pk, &t1, &t2, &cl) || ps_verify_ref(&m.pk, &c1, &c2, &st) {
        c.violation("C18 signatures-interchangeable-by-reference", json!({}));
    }
    // the pay token re-labelled as closing signature for the close state sharing its other fields
    match copy(r).map(|r2| r2.close(rng)) {
        Ok(cm) => {
            let Ok(mut ct) = trace(&cm) else { return };
            // positive control
            c.eval();
            let accept = |b: &[u8]| -> Option<bool> {
                let cm: ClosingMessage = dec(b).ok()?;
                let (sig, stt) = cm.into_parts();
                Some(matches!(m.cfg.check_close_signature(sig, &stt), Verification::Verified))
            };
            if accept(&ct.bytes) != Some(true) {
                return c.inconclusive("C18: honest closing message not accepted");
            }
            let _ = ct.fset("close_signature/sigma1", &t1.to_compressed());
            let _ = ct.fset("close_signature/sigma2", &t2.to_compressed());
            c.eval();
            match accept(&ct.bytes) {
                Some(false) => c.count("pay_token_refused_as_closing_signature", 1),
                Some(true) => c.violation("C18 pay-token-accepted-as-closing-signature", json!({})),
                None => c.inconclusive("C18: relabelled closing message does not decode"),
            }
        }
        Err(e) => c.inconclusive(&e),
    }
    // the closing signature re-labelled as pay token: the customer then cannot get a payment approved
    let mut rt = t.clone();
    let _ = rt.fset("pay_token/sigma1", &c1.to_compressed());
    let _ = rt.fset("pay_token/sigma2", &c2.to_compressed());
    match dec::<zk::customer::Ready>(&rt.bytes) {
        Ok(r2) => match r2.start(rng, amount(1).unwrap(), &Context::new(b"c18swap"), &m.ccfg) {
            Ok((_st, msg)) => {
                c.eval();
                let acc = m.cfg.allow_payment(rng, amount(1).unwrap(), &msg.nonce, msg.pay_proof, &Context::new(b"c18swap")).is_some();
                if acc {
                    c.violation("C18 closing-signature-accepted-as-pay-token", json!({}));
                } else {
                    c.count("closing_signature_refused_as_pay_token", 1);
                }
            }
            Err(_) => c.inconclusive("C18: start refused"),
        },
        Err(e) => c.inconclusive(&e),
    }
}

/// r + q as a 256-bit little-endian integer (None when it does not fit)
fn plus_q(r: &[u8; 32]) -> Option<[u8; 32]> {
    let mut out = [0u8; 32];
    let mut carry = 0u16;
    for i in 0..32 {
        let x = r[i] as u16 + crate::wire::Q_LE[i] as u16 + carry;
        out[i] = x as u8;
        carry = x >> 8;
    }
    if carry != 0 {
        None
    } else {
        Some(out)
    }
}

fn channel_id(c: &mut Ctx, m: &'static Merchant, m2: &'static Merchant) {
    c.case("channel-id", |c| {
        let mut rng = c.rng("channel-id");
        for k in 0..c.tier.pick(60, 1000) {
            let mut mr = [0u8; 32];
            let mut cr = [0u8; 32];
            rng.fill_bytes(&mut mr);
            rng.fill_bytes(&mut cr);
            // mostly short, every sixth round long (lengths around the powers of two up to 8 KiB)
            let len = |rng: &mut rand_chacha::ChaCha20Rng| -> usize {
                if k % 6 != 5 {
                    (rng.next_u32() % 40) as usize
                } else {
                    let base = [64usize, 72, 128, 136, 255, 256, 257, 512, 1024, 4096, 8192][(rng.next_u32() % 11) as usize];
                    base + (rng.next_u32() % 3) as usize
                }
            };
            let mut mi = vec![0u8; len(&mut rng)];
            let mut ci = vec![0u8; len(&mut rng)];
            rng.fill_bytes(&mut mi);
            rng.fill_bytes(&mut ci);
            // forced shapes in the first rounds: one side empty, text-like infos
            if k == 1 {
                mi.clear();
            }
            if k == 2 {
                ci.clear();
            }
            if k == 3 {
                mi = b"tz1-merchant-account".to_vec();
                ci = b"tz1-customer-account".to_vec();
            }
            let mk = |mr: &[u8; 32], cr: &[u8; 32], pk: &zk::PublicKey, mi: &[u8], ci: &[u8]| -> Option<[u8; 32]> {
                let a: MerchantRandomness = dec(mr).ok()?;
                let b: CustomerRandomness = dec(cr).ok()?;
                Some(ChannelId::new(a, b, pk, mi, ci).to_bytes())
            };
            let pk = m.ccfg.merchant_public_key();
            let Some(base) = mk(&mr, &cr, pk, &mi, &ci) else { return c.inconclusive("C18: randomness does not decode") };
            c.eval();
            c.distinct(&format!("cid/{}", k));
            if mk(&mr, &cr, pk, &mi, &ci) != Some(base) || mk(&mr, &cr, &dec(&enc(pk)).unwrap(), &mi.clone(), &ci.clone()) != Some(base) {
                c.violation("C18 channel-id-not-deterministic", json!({}));
            }
            // exactly one input changed
            let mut mr2 = mr;
            mr2[(rng.next_u32() % 32) as usize] ^= 1 << (rng.next_u32() % 8);
            let mut cr2 = cr;
            cr2[(rng.next_u32() % 32) as usize] ^= 1 << (rng.next_u32() % 8);
            let mut mi2 = mi.clone();
            if mi2.is_empty() { mi2.push(0) } else { let l = mi2.len(); mi2[(rng.next_u32() as usize) % l] ^= 1 }
            let mut ci2 = ci.clone();
            if ci2.is_empty() { ci2.push(0) } else { let l = ci2.len(); ci2[(rng.next_u32() as usize) % l] ^= 1 }
            let mut mi4 = mi.clone();
            if let Some(x) = mi4.last_mut() { *x ^= 0x80 } else { mi4.push(1) }
            let mut ci4 = ci.clone();
            if let Some(x) = ci4.last_mut() { *x ^= 0x80 } else { ci4.push(1) }
            let mut mi3 = mi.clone();
            mi3.push(7);
            let mut ci3 = ci.clone();
            ci3.push(7);
            let variants: Vec<(&str, Option<[u8; 32]>)> = vec![
                ("merchant-randomness", mk(&mr2, &cr, pk, &mi, &ci)),
                ("customer-randomness", mk(&mr, &cr2, pk, &mi, &ci)),
                ("public-key", mk(&mr, &cr, m2.ccfg.merchant_public_key(), &mi, &ci)),
                ("merchant-account-info-byte", mk(&mr, &cr, pk, &mi2, &ci)),
                ("customer-account-info-byte", mk(&mr, &cr, pk, &mi, &ci2)),
                ("merchant-account-info-last-byte", mk(&mr, &cr, pk, &mi4, &ci)),
                ("customer-account-info-last-byte", mk(&mr, &cr, pk, &mi, &ci4)),
                ("merchant-account-info-newline-appended", mk(&mr, &cr, pk, &[&mi[..], b"\n"].concat(), &ci)),
                ("customer-account-info-space-prepended", mk(&mr, &cr, pk, &mi, &[b" ", &ci[..]].concat())),
                ("merchant-account-info-invalid-utf8-byte", mk(&mr, &cr, pk, &[&mi[..], &[0xffu8][..]].concat(), &[&ci[..]].concat()).and_then(|a| mk(&mr, &cr, pk, &[&mi[..], &[0xfeu8][..]].concat(), &ci).map(|b| if a == b { base } else { a }))),
                ("merchant-randomness-plus-q", plus_q(&mr).and_then(|x| mk(&x, &cr, pk, &mi, &ci))),
                ("customer-randomness-plus-q", plus_q(&cr).and_then(|x| mk(&mr, &x, pk, &mi, &ci))),
                ("merchant-account-info-longer", mk(&mr, &cr, pk, &mi3, &ci)),
                ("customer-account-info-longer", mk(&mr, &cr, pk, &mi, &ci3)),
            ];
            // the key input changed in a single element (each of its elements in turn, first rounds only)
            if k < 3 {
                if let Ok(t) = trace(pk) {
                    for a in t.atoms.iter().filter(|a| matches!(a.kind, crate::tracer::Kind::G1 | crate::tracer::Kind::G2)) {
                        let Some(alt) = crate::wire::alt_valid(a.kind, t.atom_bytes(a), &mut rng) else { continue };
                        let Ok(pk2) = dec::<zk::PublicKey>(&t.with_replaced(a, &alt)) else { continue };
                        c.eval();
                        c.distinct(&format!("cid/key-element/{}", a.fpath));
                        if mk(&mr, &cr, &pk2, &mi, &ci) == Some(base) {
                            c.violation(&format!("C18 channel-id-unchanged input=public-key-element:{}", a.fpath), json!({"element": a.fpath}));
                        } else {
                            c.count("channel_id_changed[public-key-element]", 1);
                        }
                    }
                }
            }
            for (what, v) in variants {
                c.eval();
                if v == Some(base) {
                    c.violation(&format!("C18 channel-id-unchanged input={}", what), json!({"input": what}));
                } else {
                    c.count(&format!("channel_id_changed[{}]", what), 1);
                }
            }
            // information only: the harness's own recomputation of the derivation
            if k == 0 {
                use sha3::{Digest, Sha3_256};
                let mut h = Sha3_256::new();
                h.update(mr);
                h.update(cr);
                h.update(pk.to_bytes());
                h.update(&mi);
                h.update(&ci);
                let d = h.finalize();
                c.note("channel_id_equals_sha3_of_concatenation(information only)", json!(d.as_slice() == base));
                c.sample(json!({"channel_id": hex(&base), "merchant_randomness": hex(&mr), "customer_randomness": hex(&cr), "merchant_info_len": mi.len(), "customer_info_len": ci.len()}));
            }
        }
    });
}

/// A hostile customer who gets the merchant to sign, as "closing signature", a close state whose
/// second slot is not the close tag holds a pay token. One plan of the C01 forger, judged here.
fn forged_closing_signature(c: &mut Ctx, m: &'static Merchant) {
    use crate::props::c01;
    for k in 0..c.tier.pick(2usize, 10) {
        let name = format!("forger/close-tag-slot/{}", k);
        c.case(&name, |c| {
            let mut rng = c.rng(&name);
            let template = match c01::honest_template(m, c.seed) {
                Ok(t) => t,
                Err(e) => return c.inconclusive(&e),
            };
            let cid = new_channel_id(m, &mut rng, b"m", b"c");
            let a = c01::Agreed { cid_bytes: cid.to_bytes(), cid: raw32_to_scalar(&cid.to_bytes()), cust: 10 + k as u64, merch: 1000, context: name.as_bytes().to_vec() };
            let j = c01::Judge { m, a: &a, cid, template: &template, prop: "C18" };
            // positive control
            {
                use ff::Field;
                let n = Scalar::random(&mut rng);
                let l = Scalar::random(&mut rng);
                let p = crate::shadow::EstProver::commit(&mut rng, &m.pk, a.state(n, l), a.close(l));
                let Some(c0) = j.draft_challenge(c, &mut rng, &p) else { return };
                match j.submit(c, &mut rng, "control/honest", &p, &p.state.respond(&c0), &p.close.respond(&c0), true) {
                    Some((true, _)) => c.count("forger_positive_controls", 1),
                    _ => return c.inconclusive("C18: forger positive control rejected"),
                }
            }
            for w in c01::false_witnesses(&a, &mut rng).into_iter().filter(|w| w.name.starts_with("close-tag")) {
                c.distinct(&format!("forger/{}/{}", w.name, k));
                let mut p = crate::shadow::EstProver::commit(&mut rng, &m.pk, w.state, w.close);
                let Some(mut ch) = j.draft_challenge(c, &mut rng, &p) else { continue };
                for _ in 0..3 {
                    let rs = p.state.respond(&ch);
                    let rc = p.close.respond(&ch);
                    p.revealed[1] = rc.msg[1] - ch * close_tag_ref();
                    match j.submit(c, &mut rng, &format!("strategy=post-challenge field=close_tag_commitment_scalar witness={}", w.name), &p, &rs, &rc, true) {
                        Some((false, c1)) if c1 != ch => ch = c1,
                        _ => break,
                    }
                }
                c.count("forger_attempts", 1);
            }
        });
    }
}

/// The pay-side counterpart: the closing signature the customer already holds is spent as a pay token
/// under a nonce of the customer's choosing (the signed slot holds the close tag). The C02 forger's
/// strategies, judged here.
fn closing_signature_spent_as_pay_token(c: &mut Ctx, m: &'static Merchant, m2: &'static Merchant) {
    use crate::props::c02;
    for k in 0..c.tier.pick(2usize, 8) {
        let name = format!("forger/closing-signature-as-pay-token/{}", k);
        c.case(&name, |c| {
            let mut rng = c.rng(&name);
            let template = match c02::pay_template(m, c.seed) {
                Ok(t) => t,
                Err(e) => return c.inconclusive(&e),
            };
            let hist: Vec<i64> = if k % 2 == 0 { vec![] } else { vec![3] };
            let b = match c02::make_base(m, &mut rng, 300 + k as u64, 20, &hist, &template) {
                Ok(b) => b,
                Err(e) => return c.inconclusive(&e),
            };
            if b.close_sig.is_none() {
                return c.inconclusive("C18: Ready layout no longer shows the closing signature");
            }
            let j = c02::PayJudge { b: &b, context: b"c18-forger".to_vec(), prop: "C18", accepted_nonces: Default::default(), accepted_blinded: Default::default() };
            let amt = 4i64;
            let tp = c02::true_plan(&b, &mut rng, amt);
            let pr = crate::shadow::PayProver::commit(&mut rng, m, &tp.w);
            let Some((_, c0)) = j.submit(c, &mut rng, "draft", &pr, None, &Scalar::zero(), &tp, &tp.nonce_pub, amt) else { return };
            match j.submit(c, &mut rng, "control/true-statement", &pr, Some(&pr.responses(&c0)), &c0, &tp, &tp.nonce_pub, amt) {
                Some((true, _)) => c.count("pay_forger_positive_controls", 1),
                _ => return c.inconclusive("C18: pay forger positive control rejected"),
            }
            for p in c02::false_plans(&b, &mut rng, amt, m2).into_iter().filter(|p| p.name.starts_with("closing-signature-as-pay-token")) {
                c02::run_plan(c, &j, &mut rng, &p, &format!("forger/{}/{}", p.name, k));
                c.count("pay_forger_plans", 1);
            }
        });
    }
}

pub fn run(c: &mut Ctx) {
    c.note("rule", json!("nonce generation under RNG streams that sample the close tag (32 tag bytes || 32 zero bytes) at every 64-byte draw of test_new_nonce / Requested::new (1-4 times in a row) and of Ready::start (quick: first draws and a spread; thorough: all), with the draw log proving the rejection path was taken; every nonce atom of every state of honest histories; pay token re-labelled as closing signature and closing signature re-labelled as pay token on every Ready state; channel id: identical inputs and exactly-one-input changes. Distinct = distinct (call, draw index, repetitions) injections consumed, distinct states and channel-id input sets. Added later: tag+q sample pattern, single key elements in the channel id, account infos up to 8 KiB with the last byte changed, a close-tag forger on the establish side and the closing signature spent as pay token on the pay side. Tag patterns for draws of any length; empty / whitespace / invalid-UTF-8 account infos; randomness + q."));
    let m = match fixtures::merchant(c.seed, "m0") {
        Ok(m) => m,
        Err(e) => return c.inconclusive(&e),
    };
    let m2 = match fixtures::merchant(c.seed, "m1") {
        Ok(m) => m,
        Err(e) => return c.inconclusive(&e),
    };
    nonce_generation(c);
    requested_new(c, m);
    ready_start(c, m);
    histories(c, m);
    channel_id(c, m, m2);
    forged_closing_signature(c, m);
    closing_signature_spent_as_pay_token(c, m, m2);
}
