//! C15 — wire round trips are lossless and decoded values satisfy every type invariant.
//!
//! The invariant table is keyed on the *observed* layout (tracer paths): which positions forbid
//! the identity, zero, the close tag, an unmatched lock, a balance above 2^63-1; encodings that
//! are invalid everywhere (off-curve, out-of-subgroup, non-canonical) are tried at every atom.

use crate::ctx::{guard, hex, Ctx};
use crate::props::util::*;
use crate::refs::{close_tag_ref, revlock_ref};
use crate::tracer::{Atom, Kind};
use crate::types::{self, TypeEntry};
use crate::wire::{self, dec, enc};
use bls12_381::{G1Projective, G2Projective, Scalar};
use ff::Field;
use rand_core::RngCore;
use serde_json::json;
use std::str::FromStr;
use zkabacus_crypto as zk;
use zkchannels_crypto::{
    pedersen::PedersenParameters,
    pointcheval_sanders::{KeyPair, PublicKey},
    proofs::{ChallengeBuilder, CommitmentProofBuilder, RangeConstraintBuilder, RangeConstraintParameters},
    BlindingFactor, Message,
};

#[derive(Debug, Clone, Copy, PartialEq, Eq)]
enum Expect {
    Reject,
    RoundTrip,
}

fn requires_non_identity(a: &Atom) -> Option<&'static str> {
    if a.path.contains("PublicKey/") {
        return Some("PublicKey element");
    }
    if a.path.contains("PedersenParameters/") {
        return Some("PedersenParameters element");
    }
    if a.path.ends_with("SecretKey/x1") {
        return Some("SecretKey.x1");
    }
    if a.fpath.ends_with("sigma1") {
        return Some("sigma1");
    }
    None
}

fn requires_non_zero(a: &Atom) -> Option<&'static str> {
    if a.path.ends_with("SecretKey/x") {
        return Some("SecretKey.x");
    }
    if a.path.contains("SecretKey/ys/") {
        return Some("SecretKey.ys");
    }
    None
}

fn in_revocation_pair(a: &Atom) -> bool {
    a.path.contains("RevocationPair/")
}

struct Sub {
    /// class name for coverage accounting and signatures
    class: String,
    bytes: Vec<u8>,
    expect: Expect,
}

fn substitutions(e: &TypeEntry, a: &Atom, rng: &mut impl RngCore) -> Vec<Sub> {
    let mut v = vec![];
    let orig = e.trace.atom_bytes(a);
    match a.kind {
        Kind::G1 | Kind::G2 => {
            for (n, b) in wire::universally_invalid(a.kind, rng) {
                v.push(Sub { class: format!("point:{}", n), bytes: b, expect: Expect::Reject });
            }
            let id = if a.kind == Kind::G1 { wire::g1_identity_bytes().to_vec() } else { wire::g2_identity_bytes().to_vec() };
            match requires_non_identity(a) {
                Some(w) => v.push(Sub { class: format!("identity@{}", w), bytes: id, expect: Expect::Reject }),
                None => v.push(Sub { class: "identity@free-position".into(), bytes: id, expect: Expect::RoundTrip }),
            }
            // another valid point must round trip unless the position is inside a validated pair
            if let Some(b) = wire::alt_valid(a.kind, orig, rng) {
                v.push(Sub { class: "other-valid-point".into(), bytes: b, expect: Expect::RoundTrip });
            }
        }
        Kind::B32 if a.is_raw32() => {
            v.push(Sub { class: "raw32:all-ff".into(), bytes: vec![0xff; 32], expect: Expect::RoundTrip });
            v.push(Sub { class: "raw32:q".into(), bytes: wire::Q_LE.to_vec(), expect: Expect::RoundTrip });
        }
        Kind::B32 => {
            for (n, b) in wire::universally_invalid(a.kind, rng) {
                v.push(Sub { class: format!("scalar:{}", n), bytes: b, expect: Expect::Reject });
            }
            let pair = in_revocation_pair(a);
            match requires_non_zero(a) {
                Some(w) => v.push(Sub { class: format!("zero@{}", w), bytes: vec![0; 32], expect: Expect::Reject }),
                None if !pair => v.push(Sub { class: "zero@free-position".into(), bytes: vec![0; 32], expect: Expect::RoundTrip }),
                None => {}
            }
            let tag = close_tag_ref().to_bytes().to_vec();
            if a.path.contains("Nonce") {
                v.push(Sub { class: "close-tag@Nonce".into(), bytes: tag, expect: Expect::Reject });
            } else if !pair && requires_non_zero(a).is_none() {
                v.push(Sub { class: "close-tag@free-position".into(), bytes: tag, expect: Expect::RoundTrip });
            }
            if pair {
                // any other valid scalar in the lock or the secret breaks lock = H(secret, index)
                let what = if a.fpath.ends_with("lock") { "pair-lock" } else { "pair-secret" };
                for k in 0..2 {
                    let s = Scalar::random(&mut *rng).to_bytes().to_vec();
                    v.push(Sub { class: format!("{}:other-scalar{}", what, k), bytes: s, expect: Expect::Reject });
                }
                let mut plus1 = crate::refs::sc(orig).map(|s| (s + Scalar::one()).to_bytes().to_vec()).unwrap_or_default();
                if plus1.len() == 32 {
                    v.push(Sub { class: format!("{}:+1", what), bytes: std::mem::take(&mut plus1), expect: Expect::Reject });
                }
            }
        }
        Kind::U64 if a.path.contains("Balance") => {
            v.push(Sub { class: "balance:2^63".into(), bytes: (1u64 << 63).to_le_bytes().to_vec(), expect: Expect::Reject });
            v.push(Sub { class: "balance:2^63+1".into(), bytes: ((1u64 << 63) + 1).to_le_bytes().to_vec(), expect: Expect::Reject });
            v.push(Sub { class: "balance:2^64-1".into(), bytes: u64::MAX.to_le_bytes().to_vec(), expect: Expect::Reject });
            v.push(Sub { class: "balance:2^63-1".into(), bytes: (i64::MAX as u64).to_le_bytes().to_vec(), expect: Expect::RoundTrip });
            v.push(Sub { class: "balance:0".into(), bytes: 0u64.to_le_bytes().to_vec(), expect: Expect::RoundTrip });
        }
        Kind::U8 if in_revocation_pair(a) => {
            for d in [1u8, 2, 128, 255] {
                v.push(Sub { class: format!("pair-index:+{}", d), bytes: vec![orig[0].wrapping_add(d)], expect: Expect::Reject });
            }
        }
        Kind::Len => {
            // a sequence whose announced length differs from what follows is not a canonical encoding
            let n = le64(orig);
            let is_vec = e.name.contains("Vec<");
            for (nm, val) in [("n+1", n.wrapping_add(1)), ("n+2", n.wrapping_add(2)), ("2n+1", n.wrapping_mul(2).wrapping_add(1)), ("2^32", 1u64 << 32), ("2^63", 1u64 << 63), ("2^64-1", u64::MAX)] {
                if val > n {
                    v.push(Sub { class: format!("length-prefix:{}", nm), bytes: val.to_le_bytes().to_vec(), expect: Expect::Reject });
                }
            }
            if !is_vec && n > 0 {
                v.push(Sub { class: "length-prefix:n-1".into(), bytes: (n - 1).to_le_bytes().to_vec(), expect: Expect::Reject });
                v.push(Sub { class: "length-prefix:0".into(), bytes: 0u64.to_le_bytes().to_vec(), expect: Expect::Reject });
            }
        }
        Kind::I64 => {
            // a payment amount has no decode-time invariant: every i64 must round trip
            for x in [i64::MIN, -1, 0, i64::MAX] {
                v.push(Sub { class: format!("amount:{}", class_i64(x)), bytes: x.to_le_bytes().to_vec(), expect: Expect::RoundTrip });
            }
        }
        _ => {}
    }
    v.retain(|s| s.bytes != orig);
    v
}

fn check_roundtrip(c: &mut Ctx, e: &TypeEntry) {
    // (a) round trip of the honest value
    c.eval();
    match guard(|| (e.decode)(&e.trace.bytes)) {
        Err(p) => c.violation(
            &format!("C15 roundtrip-panic type={} loc={}", e.name, repo_rel(&p.location)),
            json!({"type": e.name, "panic": p.message}),
        ),
        Ok(Err(err)) => c.violation(
            &format!("C15 roundtrip-failed type={}", e.name),
            json!({"type": e.name, "error": err, "bytes": e.trace.bytes.len()}),
        ),
        Ok(Ok(b)) => {
            if b != e.trace.bytes {
                c.violation(
                    &format!("C15 roundtrip-differs type={}", e.name),
                    json!({"type": e.name, "first_difference": b.iter().zip(e.trace.bytes.iter()).position(|(x, y)| x != y)}),
                );
            } else {
                c.count("roundtrips_ok", 1);
            }
        }
    }
    c.distinct(&format!("{}|roundtrip", e.name));
}

/// (b) invariant table for atoms [lo, hi) of the type
fn check_atoms(c: &mut Ctx, e: &TypeEntry, lo: usize, hi: usize) {
    let mut rng = c.rng(&format!("subs/{}/{}", e.name, lo));
    for a in e.trace.atoms[lo..hi.min(e.trace.atoms.len())].iter() {
        for s in substitutions(e, a, &mut rng) {
            c.eval();
            c.distinct(&format!("{}|{}|{}", e.name, a.fpath, s.class));
            let cls = s.class.split(':').next().unwrap_or("").to_string();
            let input = e.trace.with_replaced(a, &s.bytes);
            let r = guard(|| (e.decode)(&input));
            match (r, s.expect) {
                (Err(_), _) => {
                    // panics on hostile bytes are C16's subject; here they only stop the observation
                    c.count("decode_panics_seen(C16)", 1);
                }
                (Ok(Ok(_)), Expect::Reject) => {
                    c.violation(
                        &format!("C15 invalid-accepted type={} position={} value={}", e.name, a.fpath, s.class),
                        json!({"type": e.name, "position": a.path, "value_class": s.class, "value_hex": hex(&s.bytes)}),
                    );
                }
                (Ok(Err(_)), Expect::Reject) => {
                    c.count(&format!("rejected[{}]", if cls.is_empty() { s.class.clone() } else { s.class.clone() }), 1);
                }
                (Ok(Ok(b)), Expect::RoundTrip) => {
                    if b != input {
                        c.violation(
                            &format!("C15 roundtrip-differs type={} position={} value={}", e.name, a.fpath, s.class),
                            json!({"type": e.name, "position": a.path, "value_class": s.class}),
                        );
                    } else {
                        c.count("valid_substitutions_roundtrip", 1);
                    }
                }
                (Ok(Err(err)), Expect::RoundTrip) => {
                    // a valid point / raw bytes / in-range balance at a position without invariant
                    // must decode, unless the enclosing value is cross-validated (pair, keys)
                    let cross = in_revocation_pair(a);
                    if !cross {
                        c.violation(
                            &format!("C15 valid-rejected type={} position={} value={}", e.name, a.fpath, s.class),
                            json!({"type": e.name, "position": a.path, "value_class": s.class, "error": err}),
                        );
                    }
                }
            }
        }
    }
}

fn behaviour_n<const N: usize>(c: &mut Ctx) {
    let name = format!("behaviour/keys/{}", N);
    c.case(&name, |c| {
        let mut rng = c.rng(&name);
        for round in 0..c.tier.pick(2, 12) {
            c.eval();
            c.distinct(&format!("{}/{}", name, round));
            let kp = KeyPair::<N>::new(&mut rng);
            let kp2: KeyPair<N> = match dec(&enc(&kp)) {
                Ok(k) => k,
                Err(e) => {
                    c.violation(&format!("C15 roundtrip-failed type=KeyPair<{}>", N), json!({"error": e}));
                    return;
                }
            };
            let pk2: PublicKey<N> = match dec(&enc(kp.public_key())) {
                Ok(k) => k,
                Err(e) => {
                    c.violation(&format!("C15 roundtrip-failed type=PublicKey<{}>", N), json!({"error": e}));
                    return;
                }
            };
            let msg = Message::<N>::random(&mut rng);
            let s1 = msg.sign(&mut rng, &kp);
            let s2 = msg.sign(&mut rng, &kp2);
            let ok = s1.verify(&pk2, &msg) && s2.verify(kp.public_key(), &msg) && s2.verify(&pk2, &msg) && kp2 == kp && pk2 == *kp.public_key();
            if !ok {
                c.violation(
                    &format!("C15 behaviour-differs type=KeyPair<{}>", N),
                    json!({"what": "signatures made with / verified under a decoded key"}),
                );
            }
            // Pedersen parameters, both groups
            let p1 = PedersenParameters::<G1Projective, N>::new(&mut rng);
            let p2 = PedersenParameters::<G2Projective, N>::new(&mut rng);
            let q1: Result<PedersenParameters<G1Projective, N>, _> = dec(&enc(&p1));
            let q2: Result<PedersenParameters<G2Projective, N>, _> = dec(&enc(&p2));
            let bf = BlindingFactor::new(&mut rng);
            match (q1, q2) {
                (Ok(q1), Ok(q2)) => {
                    let same = msg.commit(&p1, bf).to_element() == msg.commit(&q1, bf).to_element()
                        && msg.commit(&p2, bf).to_element() == msg.commit(&q2, bf).to_element()
                        && q1 == p1
                        && q2 == p2;
                    // a proof made under the original verifies under the decoded parameters
                    let b = CommitmentProofBuilder::<G1Projective, N>::generate_proof_commitments(&mut rng, msg.clone(), &[None; N], &p1);
                    let ch = ChallengeBuilder::new().with(&b).with(&p1).finish();
                    let pr = b.generate_proof_response(ch);
                    let ch2 = ChallengeBuilder::new().with(&pr).with(&q1).finish();
                    if !same || !pr.verify_knowledge_of_opening(&q1, ch2) {
                        c.violation(
                            &format!("C15 behaviour-differs type=PedersenParameters<{}>", N),
                            json!({"what": "commitments / proofs under decoded parameters"}),
                        );
                    }
                }
                _ => c.violation(&format!("C15 roundtrip-failed type=PedersenParameters<{}>", N), json!({})),
            }
            c.count("behaviour_rounds", 1);
        }
    });
}

pub fn run(c: &mut Ctx) {
    c.note("rule", json!("every serializable type of both crates (all N of the tier) and the codec wrappers: honest round trip, then every atom x every substitution of the invariant table (invalid everywhere: off-curve, out-of-subgroup, flag patterns, scalar >= q; forbidden by position: identity, zero, close tag, unmatched lock/secret/index, balance >= 2^63; valid alternatives that must still round trip). Distinct = distinct (type, atom path, substitution class). Added later: length prefixes, RevocationLock::from_bytes."));
    let m = match types::default_merchant(c) {
        Ok(m) => m,
        Err(e) => return c.inconclusive(&e),
    };
    let entries = match types::all_entries(c, m, "c15") {
        Ok(v) => v,
        Err(e) => return c.inconclusive(&e),
    };
    c.note("types", json!(entries.iter().map(|e| e.name.clone()).collect::<Vec<_>>()));
    // coverage guard: position classes that must be seen somewhere in the registry
    let mut seen = std::collections::BTreeSet::new();
    for e in &entries {
        for a in &e.trace.atoms {
            if let Some(w) = requires_non_identity(a) {
                let _ = seen.insert(format!("identity@{}", w));
            }
            if let Some(w) = requires_non_zero(a) {
                let _ = seen.insert(format!("zero@{}", w));
            }
            if a.path.contains("Nonce") && a.kind == Kind::B32 {
                let _ = seen.insert("close-tag@Nonce".to_string());
            }
            if in_revocation_pair(a) {
                let _ = seen.insert(format!("pair@{}", a.kind.name()));
            }
            if a.kind == Kind::U64 && a.path.contains("Balance") {
                let _ = seen.insert("balance".to_string());
            }
        }
    }
    for need in [
        "identity@PublicKey element",
        "identity@PedersenParameters element",
        "identity@SecretKey.x1",
        "identity@sigma1",
        "zero@SecretKey.x",
        "zero@SecretKey.ys",
        "close-tag@Nonce",
        "pair@B32",
        "pair@U8",
        "balance",
    ] {
        if !seen.contains(need) {
            c.inconclusive(&format!("C15: position class {:?} was not found in any traced type (layout changed?)", need));
        }
    }
    c.note("position_classes_seen", json!(seen.iter().cloned().collect::<Vec<_>>()));

    for e in &entries {
        let name = format!("type/{}", e.name);
        c.case(&name, |c| {
            check_roundtrip(c, e);
            if e.name == "customer::Ready" || e.name == "KeyPair<2>" {
                c.sample(json!({"type": e.name, "bytes": e.trace.bytes.len(), "atoms": e.trace.atoms.iter().map(|a| format!("{}:{}", a.fpath, a.kind.name())).collect::<Vec<_>>()}));
            }
        });
        // heavy types are split so that the shards stay balanced
        let chunk = if e.trace.bytes.len() > 4000 { 4 } else { 24 };
        let mut lo = 0;
        while lo < e.trace.atoms.len() {
            let name = format!("type/{}/atoms/{}", e.name, lo);
            c.case(&name, |c| check_atoms(c, e, lo, lo + chunk));
            lo += chunk;
        }
    }

    // revocation pairs whose digest is not a canonical scalar: no lock can make them valid
    c.case("pair/non-canonical-digest", |c| {
        let mut rng = c.rng("pair/non-canonical-digest");
        let pair_entry = entries.iter().find(|e| e.name == "RevocationPair");
        let Some(pe) = pair_entry else { return c.inconclusive("C15: RevocationPair not in registry") };
        let mut found = 0;
        let want = c.tier.pick(40, 1000);
        let mut tries = 0;
        while found < want && tries < 100 * want {
            tries += 1;
            let secret = Scalar::random(&mut rng).to_bytes();
            let index = (rng.next_u32() % 256) as u8;
            if revlock_ref(&secret, index).is_some() {
                continue;
            }
            found += 1;
            c.eval();
            c.distinct(&format!("pair-nc/{}/{}", hex(&secret), index));
            for lock in [Scalar::random(&mut rng).to_bytes(), [0u8; 32]] {
                let mut t = pe.trace.clone();
                let r = t.fset("lock", &lock).and_then(|_| t.fset("secret/secret", &secret)).and_then(|_| t.fset("secret/index", &[index]));
                if let Err(e) = r {
                    return c.inconclusive(&e);
                }
                if let Ok(Ok(_)) = guard(|| (pe.decode)(&t.bytes)) {
                    c.violation(
                        "C15 invalid-accepted type=RevocationPair position=secret value=pair-noncanonical-digest",
                        json!({"secret": hex(&secret), "index": index, "lock": hex(&lock)}),
                    );
                }
            }
        }
        c.count("noncanonical_digest_pairs", found as i64);
        if found == 0 {
            c.inconclusive("C15: no secret with a non-canonical digest was found");
        }
        // positive: a pair recomputed by the reference decodes and re-encodes identically
        let mut ok = 0;
        for _ in 0..c.tier.pick(40, 1000) {
            let secret = Scalar::random(&mut rng).to_bytes();
            let mut index = 0u8;
            let lock = loop {
                match revlock_ref(&secret, index) {
                    Some(l) => break l,
                    None => index = index.wrapping_add(1),
                }
            };
            let mut t = pe.trace.clone();
            let r = t.fset("lock", &lock.to_bytes()).and_then(|_| t.fset("secret/secret", &secret)).and_then(|_| t.fset("secret/index", &[index]));
            if let Err(e) = r {
                return c.inconclusive(&e);
            }
            c.eval();
            match guard(|| (pe.decode)(&t.bytes)) {
                Ok(Ok(b)) if b == t.bytes => ok += 1,
                other => c.violation(
                    "C15 valid-rejected type=RevocationPair position=* value=reference-recomputed-pair",
                    json!({"secret": hex(&secret), "index": index, "result": format!("{:?}", other.map(|r| r.map(|b| b.len())).map_err(|p| p.message))}),
                ),
            }
        }
        c.count("reference_pairs_accepted", ok);
    });

    // the second decoder of a revocation lock: from_bytes must accept exactly the canonical encodings
    c.case("revocation-lock/from_bytes", |c| {
        use zkabacus_crypto::RevocationLock;
        let mut rng = c.rng("revocation-lock/from_bytes");
        let add_q = |b: &[u8; 32]| -> Option<[u8; 32]> {
            let mut out = [0u8; 32];
            let mut carry = 0u16;
            for i in 0..32 {
                let x = b[i] as u16 + wire::Q_LE[i] as u16 + carry;
                out[i] = x as u8;
                carry = x >> 8;
            }
            if carry == 0 { Some(out) } else { None }
        };
        let mut inputs: Vec<(String, [u8; 32], bool)> = vec![];
        let mut q = [0u8; 32];
        q.copy_from_slice(&wire::Q_LE);
        inputs.push(("q".into(), q, false));
        let mut q1 = q;
        q1[0] = 2;
        inputs.push(("q+1".into(), q1, false));
        inputs.push(("2^256-1".into(), [0xff; 32], false));
        let mut top = [0u8; 32];
        top[31] = 0x80;
        inputs.push(("2^255".into(), top, false));
        inputs.push(("zero".into(), [0u8; 32], true));
        inputs.push(("q-1".into(), crate::refs::q_minus_1().to_bytes(), true));
        for k in 0..c.tier.pick(40, 400) {
            let s = Scalar::random(&mut rng).to_bytes();
            inputs.push((format!("canonical{}", k), s, true));
            if let Some(nc) = add_q(&s) {
                inputs.push((format!("canonical{}+q", k), nc, false));
            }
        }
        for (name, b, canonical) in inputs {
            c.eval();
            c.distinct(&format!("lock-from-bytes/{}", name));
            match guard(|| RevocationLock::from_bytes(&b)) {
                Err(p) => c.violation(&format!("C15 decoder-panicked type=RevocationLock::from_bytes loc={}", repo_rel(&p.location)), json!({"input": hex(&b), "panic": p.message})),
                Ok(Some(l)) => {
                    if !canonical {
                        c.violation(
                            "C15 invalid-accepted type=RevocationLock::from_bytes position=* value=scalar-non-canonical",
                            json!({"input": hex(&b), "class": name.split(char::is_numeric).next().unwrap_or(""), "as_bytes": hex(&l.as_bytes())}),
                        );
                    } else if l.as_bytes() != b {
                        c.violation("C15 roundtrip-differs type=RevocationLock::from_bytes", json!({"input": hex(&b), "as_bytes": hex(&l.as_bytes())}));
                    } else {
                        c.count("lock_from_bytes_roundtrips", 1);
                    }
                }
                Ok(None) => {
                    if canonical {
                        c.violation("C15 valid-rejected type=RevocationLock::from_bytes position=* value=canonical-scalar", json!({"input": hex(&b)}));
                    } else {
                        c.count("lock_from_bytes_rejected_non_canonical", 1);
                    }
                }
            }
        }
    });

    // channel id text form
    c.case("channel-id/print-parse", |c| {
        let mut rng = c.rng("channel-id");
        let mut ids: Vec<[u8; 32]> = vec![[0u8; 32], [0xff; 32]];
        for _ in 0..c.tier.pick(200, 5000) {
            let mut b = [0u8; 32];
            rng.fill_bytes(&mut b);
            ids.push(b);
        }
        for b in ids {
            c.eval();
            c.distinct(&format!("cid/{}", hex(&b)));
            let cid: zk::ChannelId = match dec(&b) {
                Ok(x) => x,
                Err(e) => return c.inconclusive(&format!("C15: raw channel id does not decode: {}", e)),
            };
            let text = cid.to_string();
            match zk::ChannelId::from_str(&text) {
                Ok(back) if back.to_bytes() == b && cid.to_bytes() == b => c.count("channel_id_text_roundtrips", 1),
                other => c.violation(
                    "C15 roundtrip-differs type=ChannelId(text)",
                    json!({"bytes": hex(&b), "text": text, "parsed": format!("{:?}", other.map(|x| hex(&x.to_bytes())))}),
                ),
            }
        }
    });

    behaviour_n::<1>(c);
    behaviour_n::<2>(c);
    behaviour_n::<3>(c);
    behaviour_n::<5>(c);
    if c.tier == crate::ctx::Tier::Thorough {
        behaviour_n::<8>(c);
        behaviour_n::<13>(c);
    }
    // decoded range parameters / customer configuration behave like the originals
    c.case("behaviour/config", |c| {
        let mut rng = c.rng("behaviour/config");
        c.eval();
        c.distinct("behaviour/config");
        let cfg2: zk::customer::Config = match dec(&enc(&m.ccfg)) {
            Ok(x) => x,
            Err(e) => return c.violation("C15 roundtrip-failed type=customer::Config", json!({"error": e})),
        };
        if cfg2 != m.ccfg {
            c.violation("C15 behaviour-differs type=customer::Config", json!({"what": "decoded != original"}));
        }
        let rp2: RangeConstraintParameters = match dec(&enc(m.ccfg.range_constraint_parameters())) {
            Ok(x) => x,
            Err(e) => return c.violation("C15 roundtrip-failed type=RangeConstraintParameters", json!({"error": e})),
        };
        if rp2.validate().is_err() {
            c.violation("C15 behaviour-differs type=RangeConstraintParameters", json!({"what": "decoded parameters do not validate"}));
        }
        // constraint made under the decoded parameters verifies under the original ones
        for v in [0i64, 127, 128, i64::MAX] {
            c.eval();
            let b = match RangeConstraintBuilder::generate_constraint_commitments(v, &rp2, &mut rng) {
                Ok(b) => b,
                Err(e) => return c.violation("C15 behaviour-differs type=RangeConstraintParameters", json!({"error": e.to_string()})),
            };
            let pp = PedersenParameters::<G1Projective, 1>::new(&mut rng);
            let cb = CommitmentProofBuilder::generate_proof_commitments(&mut rng, Message::from(Scalar::from(v as u64)), &[Some(b.commitment_scalar())], &pp);
            let ch = ChallengeBuilder::new().with(&b).with(&cb).finish();
            let rc = b.generate_constraint_response(ch);
            let cp = cb.generate_proof_response(ch);
            if !rc.verify_range_constraint(m.ccfg.range_constraint_parameters(), ch, cp.conjunction_response_scalars()[0]) {
                c.violation("C15 behaviour-differs type=RangeConstraintParameters", json!({"what": "constraint under decoded parameters fails under the original", "value": v.to_string()}));
            }
        }
        // a customer using the decoded configuration completes a payment with the original merchant
        let r = guard(|| -> Result<(), String> {
            let m2 = crate::fixtures::from_config("decoded", zk::merchant::Config::from_parts(
                dec(&enc(m.cfg.signing_keypair()))?,
                dec(&enc(m.cfg.revocation_commitment_parameters()))?,
                dec(&enc(m.cfg.range_constraint_parameters()))?,
            ))?;
            let m2: &'static crate::fixtures::Merchant = Box::leak(Box::new(m2));
            let mut s = crate::session::Sess::open(m2, &mut rng, 40, 2, b"c15")?;
            s.pay(&mut rng, crate::session::amount(40)?, b"c15")?.map_err(|e| format!("{:?}", e))?;
            // close message of the decoded-merchant session is accepted by the original merchant
            let cm = s.stage.close_from_copy(&mut rng)?.ok_or("no close")?;
            let (sig, st) = cm.into_parts();
            match m.cfg.check_close_signature(sig, &st) {
                zk::Verification::Verified => Ok(()),
                zk::Verification::Failed => Err("close signature made by the decoded merchant key fails under the original".into()),
            }
        });
        match r {
            Ok(Ok(())) => c.count("decoded_merchant_sessions", 1),
            Ok(Err(e)) => c.violation("C15 behaviour-differs type=merchant-parts", json!({"error": e})),
            Err(p) => c.violation("C15 behaviour-differs type=merchant-parts", json!({"panic": p.message})),
        }
    });
}
