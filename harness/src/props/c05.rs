//! C05 — a new pay token is issued only against a valid revocation of the previous state.
//!
//! At the completion point of real payments, a matrix of candidate (pair, blinding factor)
//! combinations is offered to `complete_payment`; the oracle recomputes the Pedersen opening from
//! the commitment atom of the accepted pay proof. Second part: every byte string that decodes as
//! a revocation pair has lock = SHA3(secret || index) as a canonical scalar.

use crate::ctx::{guard, hex, Ctx};
use crate::fixtures::{self, Merchant};
use crate::props::util::*;
use crate::refs::*;
use crate::session::{amount, Sess, Stage};
use crate::srng::ScriptRng;
use crate::tracer::trace;
use crate::wire::{dec, enc};
use bls12_381::{G1Affine, Scalar};
use ff::Field;
use group::Curve;
use rand_core::{CryptoRng, RngCore};
use serde_json::json;
use zkabacus_crypto::{self as zk, revlock::RevocationPair};

struct Candidate {
    kind: String,
    pair: Vec<u8>,
    bf: Vec<u8>,
}

fn pair_from_state(s: &Stage, prefix: &str) -> Result<Vec<u8>, String> {
    let t = match s {
        Stage::Ready(x) => trace(x)?,
        Stage::Locked(x) => trace(x)?,
        Stage::Started(x) => trace(x)?,
        Stage::Inactive(x) => trace(x)?,
        _ => return Err("no state".into()),
    };
    let mut b = t.fget(&format!("{}/revocation_pair/lock", prefix))?;
    b.extend(t.fget(&format!("{}/revocation_pair/secret/secret", prefix))?);
    b.extend(t.fget(&format!("{}/revocation_pair/secret/index", prefix))?);
    Ok(b)
}

/// reference: does (lock of pair, bf) open `com` under (h, g)?
fn opens(m: &Merchant, com: &G1Affine, pair: &[u8], bf: &[u8]) -> Option<bool> {
    let lock = sc(&pair[..32])?;
    let bf = sc(bf)?;
    let r = pedersen_ref_g1(&m.rev_h, &[m.rev_g], &[lock], &bf);
    Some(r.to_affine() == *com)
}

fn run_channel(c: &mut Ctx, m: &'static Merchant, name: &str, foreign: &[(String, Vec<u8>, Vec<u8>)]) {
    let mut rng = c.rng(name);
    let ctxb = name.as_bytes().to_vec();
    let cust = 1000 + (rng.next_u64() % 1000);
    let merch = rng.next_u64() % 1000;
    let mut s = match Sess::open(m, &mut rng, cust, merch, &ctxb) {
        Ok(s) => s,
        Err(e) => return c.inconclusive(&e),
    };
    let mut earlier: Vec<(Vec<u8>, Vec<u8>)> = vec![]; // (pair, bf) of earlier payments of this channel
    let npay = c.tier.pick(3usize, 8);
    for p in 0..npay {
        let a = (rng.next_u64() % 50) as i64 - 20;
        let a = if ledger_apply(s.ledger.0, s.ledger.1, a).is_ok() { a } else { 0 };
        let pa = amount(a).unwrap();
        let (nonce, proof) = match s.c_start(&mut rng, pa, &ctxb) {
            Ok(Ok(x)) => x,
            _ => return c.inconclusive("C05: honest start refused"),
        };
        let sig = match s.m_allow(&mut rng, pa, &nonce, &proof, &ctxb) {
            Ok(Some(x)) => x,
            _ => return c.inconclusive("C05: honest pay proof refused"),
        };
        // the commitment the merchant stored is the atom of the accepted proof
        let com = dec::<zk::PayProof>(&proof).and_then(|pp| trace(&pp)).and_then(|t| t.fget("old_revocation_lock_proof/commitment"));
        let Some(com) = com.ok().and_then(|b| g1(&b)) else { return c.inconclusive("C05: cannot read the commitment atom") };
        let (pair, bf) = match s.c_lock(&sig) {
            Ok(Some(x)) => x,
            _ => return c.inconclusive("C05: honest closing signature refused"),
        };
        // candidate matrix
        let mut cands: Vec<Candidate> = vec![];
        let bfs = sc(&bf).unwrap_or(Scalar::zero());
        let newer = pair_from_state(&s.stage, "state").unwrap_or_default(); // the new state's pair
        cands.push(Candidate { kind: "right-pair/bf+1".into(), pair: pair.clone(), bf: (bfs + Scalar::one()).to_bytes().to_vec() });
        cands.push(Candidate { kind: "right-pair/bf-random".into(), pair: pair.clone(), bf: Scalar::random(&mut rng).to_bytes().to_vec() });
        cands.push(Candidate { kind: "right-pair/bf-zero".into(), pair: pair.clone(), bf: vec![0u8; 32] });
        cands.push(Candidate { kind: "right-pair/bf-negated".into(), pair: pair.clone(), bf: (-bfs).to_bytes().to_vec() });
        if newer.len() == 65 {
            cands.push(Candidate { kind: "pair-of-new-state/right-bf".into(), pair: newer, bf: bf.clone() });
        }
        for (i, (ep, eb)) in earlier.iter().enumerate() {
            cands.push(Candidate { kind: format!("pair-of-earlier-payment{}/right-bf", i % 2), pair: ep.clone(), bf: bf.clone() });
            cands.push(Candidate { kind: format!("right-pair/bf-of-earlier-payment{}", i % 2), pair: pair.clone(), bf: eb.clone() });
            cands.push(Candidate { kind: format!("earlier-pair-and-its-bf{}", i % 2), pair: ep.clone(), bf: eb.clone() });
        }
        for (k, fp, fb) in foreign {
            cands.push(Candidate { kind: format!("pair-of-{}/right-bf", k), pair: fp.clone(), bf: bf.clone() });
            cands.push(Candidate { kind: format!("pair-and-bf-of-{}", k), pair: fp.clone(), bf: fb.clone() });
        }
        let fresh = enc(&zk::internal::test_new_revocation_pair(&mut rng));
        cands.push(Candidate { kind: "fresh-pair/right-bf".into(), pair: fresh, bf: bf.clone() });
        // wrong attempts in a row, then the right one
        let mut refusals = 0;
        for cand in &cands {
            let expect = match opens(m, &com, &cand.pair, &cand.bf) {
                Some(x) => x,
                None => continue,
            };
            c.eval();
            c.distinct(&format!("cand/{}/{}", cand.kind, p));
            c.count(&format!("candidates[{}]", cand.kind.split('/').next().unwrap_or("")), 1);
            match s.m_complete(&mut rng, &cand.pair, &cand.bf) {
                Ok(Some(_tok)) => {
                    if !expect {
                        return c.violation(
                            &format!("C05 token-issued-without-valid-opening candidate={}", cand.kind),
                            json!({"candidate": cand.kind, "pair": hex(&cand.pair), "bf": hex(&cand.bf), "commitment": hex(&com.to_compressed())}),
                        );
                    }
                    return c.inconclusive("C05: a wrong candidate opened the commitment (negligible coincidence)");
                }
                Ok(None) => {
                    if expect {
                        return c.violation(&format!("C05 valid-opening-refused candidate={}", cand.kind), json!({"candidate": cand.kind}));
                    }
                    refusals += 1;
                }
                Err(e) => return c.inconclusive(&format!("C05: candidate could not be offered: {}", e)),
            }
        }
        c.count("refusals_before_right_pair", refusals);
        // the pending payment must have survived all refusals
        c.eval();
        if opens(m, &com, &pair, &bf) != Some(true) {
            return c.violation("C05 honest-pair-does-not-open-commitment", json!({"payment": p}));
        }
        let tok = match s.m_complete(&mut rng, &pair, &bf) {
            Ok(Some(t)) => t,
            Ok(None) => return c.violation("C05 right-pair-refused-after-refusals", json!({"refusals": refusals, "payment": p})),
            Err(e) => return c.violation("C05 pending-payment-lost", json!({"error": e, "refusals": refusals})),
        };
        match s.c_unlock(&tok) {
            Ok(true) => c.count("payments_completed_after_refusals", 1),
            _ => return c.violation("C05 token-after-refusals-invalid", json!({"refusals": refusals, "payment": p})),
        }
        earlier.push((pair, bf));
    }
    c.sample(json!({"channel": name, "payments": npay, "candidate_kinds_per_payment": 10 + 2 * foreign.len()}));
}

fn decoder_part(c: &mut Ctx) {
    let chunks = c.tier.pick(8usize, 64);
    let per = c.tier.pick(600usize, 3000);
    for k in 0..chunks {
        let name = format!("decode/{}", k);
        c.case(&name, |c| {
            let mut rng = c.rng(&name);
            let mut decoded = 0;
            let mut rejected = 0;
            for i in 0..per {
                let base = enc(&zk::internal::test_new_revocation_pair(&mut rng));
                let mut b = base.clone();
                let kind = match i % 9 {
                    0 => "honest",
                    1 => {
                        b[..32].copy_from_slice(&Scalar::random(&mut rng).to_bytes());
                        "lock-random"
                    }
                    2 => {
                        b[32..64].copy_from_slice(&Scalar::random(&mut rng).to_bytes());
                        "secret-random"
                    }
                    3 => {
                        b[64] = b[64].wrapping_add(1 + (rng.next_u32() % 255) as u8);
                        "index-changed"
                    }
                    4 => {
                        let pos = (rng.next_u32() as usize) % 64;
                        b[pos] ^= 1 << (rng.next_u32() % 8);
                        "bit-flip"
                    }
                    5 => {
                        // a secret whose digest at this index is not a canonical scalar, with the
                        // digest itself offered as lock (only decodable if the check is missing)
                        let mut secret;
                        let mut idx;
                        loop {
                            secret = Scalar::random(&mut rng).to_bytes();
                            idx = (rng.next_u32() % 256) as u8;
                            if revlock_ref(&secret, idx).is_none() {
                                break;
                            }
                        }
                        b[32..64].copy_from_slice(&secret);
                        b[64] = idx;
                        b[..32].copy_from_slice(&Scalar::random(&mut rng).to_bytes());
                        "digest-not-canonical"
                    }
                    6 => {
                        // consistent pair recomputed by the reference at a later index
                        let secret = Scalar::random(&mut rng).to_bytes();
                        let mut idx = (rng.next_u32() % 200) as u8;
                        let lock = loop {
                            if let Some(l) = revlock_ref(&secret, idx) {
                                break l;
                            }
                            idx = idx.wrapping_add(1);
                        };
                        b[..32].copy_from_slice(&lock.to_bytes());
                        b[32..64].copy_from_slice(&secret);
                        b[64] = idx;
                        "reference-pair-any-index"
                    }
                    7 => {
                        // a digest just above the modulus: its top byte equals the modulus' top byte, so
                        // only an exact comparison refuses it; the reduced value is offered as lock
                        let mut secret;
                        let mut idx;
                        let digest;
                        loop {
                            secret = Scalar::random(&mut rng).to_bytes();
                            idx = (rng.next_u32() % 256) as u8;
                            use sha3::{Digest, Sha3_256};
                            let mut h = Sha3_256::new();
                            h.update(secret);
                            h.update([idx]);
                            let d = h.finalize();
                            if d[31] == crate::wire::Q_LE[31] && revlock_ref(&secret, idx).is_none() {
                                digest = d;
                                break;
                            }
                        }
                        // digest mod q, computed by subtracting q once (digest < 2q here)
                        let mut red = [0u8; 32];
                        let mut borrow = 0i16;
                        for k in 0..32 {
                            let x = digest[k] as i16 - crate::wire::Q_LE[k] as i16 - borrow;
                            red[k] = x.rem_euclid(256) as u8;
                            borrow = if x < 0 { 1 } else { 0 };
                        }
                        b[..32].copy_from_slice(&red);
                        b[32..64].copy_from_slice(&secret);
                        b[64] = idx;
                        "digest-just-above-modulus"
                    }
                    _ => {
                        // lock and secret exchanged
                        let (l, s) = (base[..32].to_vec(), base[32..64].to_vec());
                        b[..32].copy_from_slice(&s);
                        b[32..64].copy_from_slice(&l);
                        "lock-secret-swapped"
                    }
                };
                c.eval();
                if i < 64 {
                    c.distinct(&format!("decode/{}/{}", kind, i));
                } else {
                    c.distinct(&format!("decode/{}", hex(&b[..16])));
                }
                let must_decode = kind == "honest" || kind == "reference-pair-any-index";
                match guard(|| dec::<RevocationPair>(&b)) {
                    Err(_) => c.count("decode_panics(C16)", 1),
                    Ok(Ok(pair)) => {
                        decoded += 1;
                        let sec = pair.revocation_secret().as_bytes();
                        let recomputed = revlock_ref(&sec[..32], sec[32]);
                        let ok = recomputed.map(|l| l.to_bytes() == pair.revocation_lock().as_bytes()).unwrap_or(false);
                        if !ok {
                            c.violation(
                                &format!("C05 decoded-pair-lock-is-not-hash mutation={}", kind),
                                json!({"bytes": hex(&b), "mutation": kind}),
                            );
                        }
                        if enc(&pair) != b {
                            c.violation(&format!("C05 decoded-pair-reencodes-differently mutation={}", kind), json!({"bytes": hex(&b)}));
                        }
                    }
                    Ok(Err(e)) => {
                        rejected += 1;
                        if must_decode {
                            c.violation(&format!("C05 valid-pair-rejected mutation={}", kind), json!({"bytes": hex(&b), "error": e}));
                        }
                    }
                }
                c.count(&format!("pair_encodings[{}]", kind), 1);
            }
            c.count("pairs_decoded", decoded);
            c.count("pairs_rejected", rejected);
        });
    }
}

pub fn run(c: &mut Ctx) {
    c.note("rule", json!("for every accepted payment of real histories: candidates = right pair x {bf+1, random, zero, negated, bf of earlier payments}, pair of the new state / of earlier payments / of other channels and sessions / fresh x right bf, foreign pair with its own bf, several wrong ones in a row and then the right one (which must still complete and yield a token the customer accepts); oracle = recomputed Pedersen opening of the commitment atom of the accepted pay proof. Decoder: honest pair encodings with lock / secret / index altered, bit flips, digests that are not canonical scalars, reference-recomputed pairs at any index. Distinct = distinct (candidate kind, payment) and distinct mutated encodings. Added later: band digests and crafted pair generation, the C02 forger's committed-lock plans under all strategies. A payment whose revocation commitment uses the blinding factor zero."));
    let m = match fixtures::merchant(c.seed, "m0") {
        Ok(m) => m,
        Err(e) => return c.inconclusive(&e),
    };
    let m2 = match fixtures::merchant(c.seed, "m1") {
        Ok(m) => m,
        Err(e) => return c.inconclusive(&e),
    };
    // foreign material: lock messages of another channel (same merchant) and another session (other merchant)
    let foreign = {
        let mut rng = Ctx::fixture_rng(c.seed, "c05/foreign");
        let mut v = vec![];
        for (k, mm) in [("other-channel", m), ("other-merchant-session", m2)] {
            match Sess::open(mm, &mut rng, 100, 100, b"foreign") {
                Ok(mut s) => {
                    let _ = s.pay(&mut rng, amount(3).unwrap(), b"foreign");
                    let pair = s.log.iter().find(|r| r.kind == "revocation_pair").map(|r| r.bytes.clone());
                    let bf = s.log.iter().find(|r| r.kind == "revocation_blinding_factor").map(|r| r.bytes.clone());
                    if let (Some(p), Some(b)) = (pair, bf) {
                        v.push((k.to_string(), p, b));
                    }
                }
                Err(e) => return c.inconclusive(&e),
            }
        }
        v
    };
    // a payment whose revocation-lock commitment was made under the blinding factor zero (the customer's
    // draw for it scripted to zero): the right pair with that factor opens the commitment like any other
    for k in 0..c.tier.pick(2usize, 8) {
        let name = format!("zero-blinding-factor/{}", k);
        c.case(&name, |c| {
            let mut rng = c.rng(&name);
            let s0 = match Sess::open(m, &mut rng, 50 + k as u64, 9, b"c05z") {
                Ok(s) => s,
                Err(e) => return c.inconclusive(&e),
            };
            let ready = s0.stage.bytes();
            let mut seed = [0u8; 32];
            rng.fill_bytes(&mut seed);
            let fresh = |ready: &[u8]| -> Result<Sess, String> { Ok(Sess::from_stage(m, s0.cid, crate::session::Stage::from_bytes("ready", ready)?, s0.ledger)) };
            let mut dry = ScriptRng::new(seed);
            match fresh(&ready).and_then(|mut s| s.c_start(&mut dry, amount(2)?, b"c05z").map(|_| ())) {
                Ok(()) => {}
                Err(e) => return c.inconclusive(&e),
            }
            let mut hit = false;
            for d in dry.draws_of_len(64) {
                let mut r = ScriptRng::new(seed);
                r.inject(d, vec![0u8; 64]);
                let Ok(mut s) = fresh(&ready) else { return c.inconclusive("C05: state copy") };
                let Ok(Ok((nonce, proof))) = s.c_start(&mut r, amount(2).unwrap(), b"c05z") else { continue };
                // cheap look first: does the started state hold a zero blinding factor for the lock commitment?
                let zero_bf_held = match &s.stage {
                    Stage::Started(st) => trace(st).map(|t| t.atoms.iter().any(|a| a.fpath.contains("blinding_factor") && a.len == 32 && t.atom_bytes(a).iter().all(|x| *x == 0))).unwrap_or(false),
                    _ => false,
                };
                if !zero_bf_held {
                    continue;
                }
                let Ok(Some(sig)) = s.m_allow(&mut rng, amount(2).unwrap(), &nonce, &proof, b"c05z") else { continue };
                let Ok(Some((pair, bf))) = s.c_lock(&sig) else { continue };
                if bf.iter().any(|x| *x != 0) {
                    continue;
                }
                hit = true;
                c.eval();
                c.distinct(&name);
                c.count("payments_with_zero_revocation_blinding_factor", 1);
                match s.m_complete(&mut rng, &pair, &bf) {
                    Ok(Some(tok)) => match s.c_unlock(&tok) {
                        Ok(true) => c.count("zero_blinding_factor_payments_completed", 1),
                        _ => c.violation("C05 issued-token-refused-by-customer candidate=right-pair,zero-blinding-factor", json!({"draw": d})),
                    },
                    Ok(None) => c.violation("C05 right-pair-refused candidate=right-pair,zero-blinding-factor", json!({"draw": d, "blinding_factor": hex(&bf)})),
                    Err(e) => c.inconclusive(&e),
                }
                break;
            }
            if !hit {
                c.inconclusive("C05: no scalar draw of Ready::start could be aimed at the revocation blinding factor");
            }
        });
    }
    let nch = c.tier.pick(32usize, 300);
    for i in 0..nch {
        let name = format!("channel{}", i);
        c.case(&name, |c| {
            if let Err(p) = guard(|| run_channel(c, m, &name, &foreign)) {
                c.violation(&format!("C05 panic loc={}", repo_rel(&p.location)), json!({"panic": p.message}));
            }
        });
    }
    decoder_part(c);
    // generated pairs under crafted randomness: the secret is chosen so that its digest at index 0 is
    // not a canonical scalar (in particular just above the modulus); the generator must move on to
    // another index and the pair it returns must satisfy lock = SHA3(secret || index)
    c.case("generate/crafted-secrets", |c| {
        use crate::srng::ScriptRng;
        let mut rng = c.rng("generate/crafted-secrets");
        let mut band = 0;
        for k in 0..c.tier.pick(40, 400) {
            let want_band = k % 2 == 0;
            let secret = loop {
                let s = Scalar::random(&mut rng).to_bytes();
                if revlock_ref(&s, 0).is_some() {
                    continue;
                }
                if want_band {
                    use sha3::{Digest, Sha3_256};
                    let mut h = Sha3_256::new();
                    h.update(s);
                    h.update([0u8]);
                    if h.finalize()[31] != crate::wire::Q_LE[31] {
                        continue;
                    }
                }
                break s;
            };
            if want_band {
                band += 1;
            }
            let mut pat = secret.to_vec();
            pat.extend_from_slice(&[0u8; 32]);
            let mut r = ScriptRng::new([k as u8; 32]);
            r.inject(0, pat);
            c.eval();
            c.distinct(&format!("generate/{}", hex(&secret[..8])));
            let pair = zk::internal::test_new_revocation_pair(&mut r);
            if r.consumed != 1 {
                c.inconclusive("C05: crafted secret not consumed by the generator");
                continue;
            }
            let sec = pair.revocation_secret().as_bytes();
            let ok = sec[..32] == secret[..] && revlock_ref(&sec[..32], sec[32]).map(|l| l.to_bytes() == pair.revocation_lock().as_bytes()).unwrap_or(false);
            if !ok {
                c.violation(
                    &format!("C05 generated-pair-lock-is-not-hash digest-class={}", if want_band { "just-above-modulus" } else { "not-canonical" }),
                    json!({"secret": hex(&secret), "index": sec[32], "lock": hex(&pair.revocation_lock().as_bytes())}),
                );
            } else {
                c.count("crafted_generations_ok", 1);
            }
        }
        c.count("crafted_generations_in_band", band);
    });
    // a hostile customer who commits to a throw-away pair's lock instead of the old state's: if the
    // merchant approves, completion succeeds without the old state ever being revoked
    for k in 0..c.tier.pick(2usize, 12) {
        let name = format!("forger/committed-lock-foreign/{}", k);
        c.case(&name, |c| {
            use crate::props::c02;
            let mut rng = c.rng(&name);
            let template = match c02::pay_template(m, c.seed) {
                Ok(t) => t,
                Err(e) => return c.inconclusive(&e),
            };
            let hist: Vec<i64> = if k % 2 == 0 { vec![] } else { vec![5, -2] };
            let b = match c02::make_base(m, &mut rng, 500 + k as u64, 40, &hist, &template) {
                Ok(b) => b,
                Err(e) => return c.inconclusive(&e),
            };
            let j = c02::PayJudge { b: &b, context: b"c05-forger".to_vec(), prop: "C05", accepted_nonces: Default::default(), accepted_blinded: Default::default() };
            let amt = 7i64;
            // positive control
            let tp = c02::true_plan(&b, &mut rng, amt);
            let pr = crate::shadow::PayProver::commit(&mut rng, m, &tp.w);
            let Some((_, c0)) = j.submit(c, &mut rng, "draft", &pr, None, &Scalar::zero(), &tp, &tp.nonce_pub, amt) else { return };
            match j.submit(c, &mut rng, "control/true-statement", &pr, Some(&pr.responses(&c0)), &c0, &tp, &tp.nonce_pub, amt) {
                Some((true, _)) => c.count("forger_positive_controls", 1),
                _ => return c.inconclusive("C05: forger positive control rejected"),
            }
            for p in c02::false_plans(&b, &mut rng, amt, m2).into_iter().filter(|p| p.name.starts_with("committed-lock")) {
                // every strategy of the forger family: honest-but-lying, answer-as-if-true, post-challenge
                // scalar commitments
                c02::run_plan(c, &j, &mut rng, &p, &format!("forger/{}/{}", p.name, k));
                c.count("forger_plans", 1);
            }
        });
    }
    let _ = |r: &mut dyn RngCore| r.next_u32();
    fn _assert<T: CryptoRng>() {}
}
