//! C20 — a customer restored from storage at any step continues exactly as the original.
//!
//! Lock-step twin execution: track A is never stored; track B is replaced by
//! decode(encode(state)) before every step (pass "every") or before a random subset of steps
//! (pass "random"). Both tracks draw from identically seeded per-step RNGs and receive the same
//! merchant reply bytes, injected bad replies included. Only A's messages go to the merchant; B's
//! must be byte-identical.

use crate::ctx::{guard, hex, Ctx};
use crate::fixtures::{self, Merchant};
use crate::props::c04::candidate_amounts;
use crate::props::util::*;
use crate::refs::ledger_apply;
use crate::session::{amount, new_channel_id, Sess, Stage};
use crate::srng::ScriptRng;
use crate::wire::{enc, rand_g1};
use rand_core::RngCore;
use serde_json::json;

const MAXB: u64 = i64::MAX as u64;

struct Twin {
    a: Sess,
    b: Sess,
    restore_every: bool,
    /// store format: binary, JSON document, or alternating
    json: u8,
    restores: usize,
    steps: usize,
    trail: Vec<String>,
    name: String,
}

fn seed_of(rng: &mut impl RngCore) -> [u8; 32] {
    let mut s = [0u8; 32];
    rng.fill_bytes(&mut s);
    s
}

impl Twin {
    /// store-and-restore point for track B
    fn maybe_restore(&mut self, c: &mut Ctx, rng: &mut impl RngCore, at: &str) -> bool {
        self.steps += 1;
        if self.restore_every || rng.next_u32() % 3 == 0 {
            c.eval();
            c.distinct(&format!("restore/{}/{}/{}/{}", self.name, at, self.b.stage.name(), self.steps));
            let as_json = self.json == 1 || (self.json == 2 && self.steps % 2 == 0);
            let r = if as_json { self.b.restore_json() } else { self.b.restore() };
            if as_json {
                c.count("restores_through_json", 1);
            }
            if let Err(e) = r {
                c.violation(
                    &format!("C20 restore-failed stage={}{}", self.b.stage.name(), if as_json { " format=json" } else { "" }),
                    json!({"error": e, "at": at, "trail": self.trail}),
                );
                return false;
            }
            self.restores += 1;
            c.count(&format!("restores[{}]", self.b.stage.name()), 1);
        }
        true
    }
    fn differ(&self, c: &mut Ctx, what: &str, at: &str, detail: serde_json::Value) {
        c.violation(
            &format!("C20 restored-differs what={} stage={}", what, at),
            json!({"detail": detail, "trail": self.trail}),
        );
    }
    /// closing messages from copies of both tracks must agree (same randomness: byte-identical)
    fn compare_close(&self, c: &mut Ctx, rng: &mut impl RngCore, at: &str) {
        let seed = seed_of(rng);
        let ca = self.a.stage.close_from_copy(&mut ScriptRng::new(seed));
        let cb = self.b.stage.close_from_copy(&mut ScriptRng::new(seed));
        match (ca, cb) {
            (Ok(None), Ok(None)) => {}
            (Ok(Some(x)), Ok(Some(y))) => {
                c.eval();
                let same_fields = x.channel_id().to_bytes() == y.channel_id().to_bytes()
                    && x.customer_balance() == y.customer_balance()
                    && x.merchant_balance() == y.merchant_balance()
                    && x.revocation_lock().as_bytes() == y.revocation_lock().as_bytes();
                if !same_fields {
                    self.differ(c, "closing-message-fields", at, json!({}));
                } else if enc(&x) != enc(&y) {
                    self.differ(c, "closing-message-bytes", at, json!({}));
                } else {
                    c.count("closing_messages_compared", 1);
                }
            }
            (x, y) => self.differ(c, "close-availability", at, json!({"a": format!("{:?}", x.map(|o| o.is_some())), "b": format!("{:?}", y.map(|o| o.is_some()))})),
        }
    }
    /// feed the same reply to both tracks through `f`; outcomes must agree
    fn both<T: PartialEq + std::fmt::Debug>(&mut self, c: &mut Ctx, at: &str, f: impl Fn(&mut Sess) -> Result<T, String>) -> Option<T> {
        let ra = f(&mut self.a);
        let rb = f(&mut self.b);
        c.eval();
        match (ra, rb) {
            (Ok(x), Ok(y)) => {
                if x != y {
                    self.differ(c, "outcome", at, json!({"a": format!("{:?}", x), "b": format!("{:?}", y)}));
                    None
                } else {
                    Some(x)
                }
            }
            (x, y) => {
                c.violation(
                    &format!("C20 step-error stage={}", at),
                    json!({"a": format!("{:?}", x.err()), "b": format!("{:?}", y.err()), "trail": self.trail}),
                );
                None
            }
        }
    }
}

fn bad_reply(rng: &mut impl RngCore) -> Vec<u8> {
    let mut b = rand_g1(rng).to_compressed().to_vec();
    b.extend_from_slice(&rand_g1(rng).to_compressed());
    b
}

fn run_twin(c: &mut Ctx, m: &'static Merchant, name: &str, cust0: u64, merch0: u64, steps: usize, restore_every: bool, crafted: Option<(usize, [u8; 64])>, json: u8, nbad: usize) {
    let mut rng = c.rng(name);
    let ctxb = name.as_bytes().to_vec();
    let cid = new_channel_id(m, &mut rng, b"m", b"c");
    // both tracks start from one request made with one RNG stream
    let seed = seed_of(&mut rng);
    // optional crafted randomness: one scalar sample of the request is zero on both tracks (a zero
    // blinding factor, nonce or secret is a value the customer can hold; it must restore like any other)
    let zero_draw = crafted;
    let scripted = |z: Option<(usize, [u8; 64])>| {
        let mut r = ScriptRng::new(seed);
        if let Some((k, pat)) = z {
            let mut dry = ScriptRng::new(seed);
            let _ = Sess::request(m, &mut dry, cid, cust0, merch0, &ctxb);
            let d64 = dry.draws_of_len(64);
            if !d64.is_empty() {
                r.inject(d64[k % d64.len()], pat.to_vec());
            }
        }
        r
    };
    let ra = Sess::request(m, &mut scripted(zero_draw), cid, cust0, merch0, &ctxb);
    let rb = Sess::request(m, &mut scripted(zero_draw), cid, cust0, merch0, &ctxb);
    if zero_draw.is_some() {
        c.count("histories_with_a_crafted_scalar_sample", 1);
    }
    let ((a, pa), (b, pb)) = match (ra, rb) {
        (Ok(x), Ok(y)) => (x, y),
        _ => return c.inconclusive("C20: request failed"),
    };
    if pa != pb {
        return c.inconclusive("C20: identical RNG streams gave different establish proofs");
    }
    let mut t = Twin { a, b, restore_every, json, restores: 0, steps: 0, trail: vec![format!("open {} {}", cust0, merch0)], name: name.to_string() };
    macro_rules! tryo {
        ($e:expr) => {
            match $e {
                Some(x) => x,
                None => return,
            }
        };
    }
    if !t.maybe_restore(c, &mut rng, "requested") {
        return;
    }
    let sig = match t.a.m_initialize(&mut rng, cust0, merch0, &pa, &ctxb) {
        Ok(Some(s)) => s,
        _ => return c.inconclusive("C20: honest establish refused (C04's subject)"),
    };
    // a refused reply first, then restore, then the honest one
    for _ in 0..nbad {
        let bad = bad_reply(&mut rng);
        if tryo!(t.both(c, "requested/bad-reply", |s| s.c_complete(&bad))) {
            return c.inconclusive("C20: random signature accepted (C03's subject)");
        }
    }
    t.trail.push("bad closing signature refused".into());
    if !t.maybe_restore(c, &mut rng, "requested-after-refusal") {
        return;
    }
    if !tryo!(t.both(c, "requested", |s| s.c_complete(&sig))) {
        return c.violation("C20 honest-reply-refused stage=requested", json!({"trail": t.trail}));
    }
    t.compare_close(c, &mut rng, "inactive");
    if !t.maybe_restore(c, &mut rng, "inactive") {
        return;
    }
    let tok = match t.a.m_activate(&mut rng) {
        Ok(x) => x,
        Err(e) => return c.inconclusive(&e),
    };
    for _ in 0..nbad {
        let bad = bad_reply(&mut rng);
        if tryo!(t.both(c, "inactive/bad-reply", |s| s.c_activate(&bad))) {
            return c.inconclusive("C20: random pay token accepted (C03's subject)");
        }
    }
    if !t.maybe_restore(c, &mut rng, "inactive-after-refusal") {
        return;
    }
    t.compare_close(c, &mut rng, "inactive-after-refusal");
    if !tryo!(t.both(c, "inactive", |s| s.c_activate(&tok))) {
        return c.violation("C20 honest-reply-refused stage=inactive", json!({"trail": t.trail}));
    }
    t.compare_close(c, &mut rng, "ready");
    for step in 0..steps {
        if !t.maybe_restore(c, &mut rng, "ready") {
            return;
        }
        let (cust, merch) = t.a.ledger;
        let cands = candidate_amounts(cust, merch, &mut rng);
        let amt = cands[(rng.next_u32() as usize) % cands.len()];
        let Ok(pa_) = amount(amt) else { continue };
        t.trail.push(format!("pay {}", amt));
        let seed = seed_of(&mut rng);
        // start on both tracks with identical randomness
        let mk = |z: Option<(usize, [u8; 64])>| {
            let mut r = ScriptRng::new(seed);
            if let Some((k, pat)) = z {
                // scalar draws of start are 64-byte draws; aim at one of the first forty
                r.inject_nth_of_len(64, (k * 7 + step * 3) % 40, pat.to_vec());
            }
            r
        };
        let ra = t.a.c_start(&mut mk(zero_draw), pa_, &ctxb);
        let rb = t.b.c_start(&mut mk(zero_draw), pa_, &ctxb);
        c.eval();
        let started = match (ra, rb) {
            (Ok(Ok(x)), Ok(Ok(y))) => {
                if x != y {
                    t.differ(c, "start-message-bytes", "ready", json!({"nonce_equal": x.0 == y.0, "proof_equal": x.1 == y.1, "amount": amt.to_string()}));
                    return;
                }
                Some(x)
            }
            (Ok(Err(e1)), Ok(Err(e2))) => {
                if format!("{:?}", e1) != format!("{:?}", e2) {
                    t.differ(c, "start-error", "ready", json!({"a": format!("{:?}", e1), "b": format!("{:?}", e2)}));
                    return;
                }
                if ledger_apply(cust, merch, amt).is_ok() {
                    c.count("in_range_refused(C04)", 1);
                }
                None
            }
            (x, y) => {
                t.differ(c, "start-outcome", "ready", json!({"a": format!("{:?}", x.map(|r| r.is_ok())), "b": format!("{:?}", y.map(|r| r.is_ok()))}));
                return;
            }
        };
        let Some((nonce, proof)) = started else {
            t.compare_close(c, &mut rng, "ready-after-refused-start");
            continue;
        };
        c.distinct(&format!("twin-pay/{}/{}/{}/{}", cust, merch, amt, step));
        t.compare_close(c, &mut rng, "started");
        if !t.maybe_restore(c, &mut rng, "started") {
            return;
        }
        let sig = match t.a.m_allow(&mut rng, pa_, &nonce, &proof, &ctxb) {
            Ok(Some(s)) => s,
            _ if zero_draw.is_some() => {
                // a zero sample can make the proof itself degenerate (e.g. an all-identity blinded
                // signature, which does not even decode): both tracks produced the same bytes, the
                // history simply ends here
                c.count("payment_not_approved_under_crafted_randomness", 1);
                return;
            }
            _ => return c.inconclusive("C20: honest pay proof refused (C04's subject)"),
        };
        for _ in 0..nbad {
            let bad = bad_reply(&mut rng);
            if tryo!(t.both(c, "started/bad-reply", |s| s.c_lock(&bad))).is_some() {
                return c.inconclusive("C20: random closing signature accepted (C03's subject)");
            }
        }
        if !t.maybe_restore(c, &mut rng, "started-after-refusal") {
            return;
        }
        t.compare_close(c, &mut rng, "started-after-refusal");
        let lockmsg = tryo!(t.both(c, "started", |s| s.c_lock(&sig)));
        let Some((pair, bf)) = lockmsg else {
            return c.violation("C20 honest-reply-refused stage=started", json!({"trail": t.trail}));
        };
        t.compare_close(c, &mut rng, "locked");
        if !t.maybe_restore(c, &mut rng, "locked") {
            return;
        }
        let tok = match t.a.m_complete(&mut rng, &pair, &bf) {
            Ok(Some(x)) => x,
            _ => return c.inconclusive("C20: honest revocation refused (C05's subject)"),
        };
        for _ in 0..nbad {
            let bad = bad_reply(&mut rng);
            if tryo!(t.both(c, "locked/bad-reply", |s| s.c_unlock(&bad))) {
                return c.inconclusive("C20: random pay token accepted (C03's subject)");
            }
        }
        if !t.maybe_restore(c, &mut rng, "locked-after-refusal") {
            return;
        }
        t.compare_close(c, &mut rng, "locked-after-refusal");
        if !tryo!(t.both(c, "locked", |s| s.c_unlock(&tok))) {
            return c.violation("C20 honest-reply-refused stage=locked", json!({"trail": t.trail}));
        }
        t.compare_close(c, &mut rng, "ready");
        c.count("twin_payments_completed", 1);
        // diagnostic only: the two tracks' state images
        if t.a.stage.bytes() != t.b.stage.bytes() {
            c.count("state_images_differ(diagnostic)", 1);
        }
    }
    c.count("twin_histories", 1);
    c.sample(json!({"initial": [cust0.to_string(), merch0.to_string()], "restore": if restore_every { "every step" } else { "random subset" },
                     "restores": t.restores, "steps": t.steps, "trail": t.trail, "final_state_head": hex(&t.a.stage.bytes()[..32])}));
    let _ = Stage::None;
}

pub fn run(c: &mut Ctx) {
    c.note("rule", json!("lock-step twin execution of C04-style histories: track B is restored from bytes before every step (pass 1) or before a random third of the steps (pass 2), also immediately after refused bad replies; identical per-step randomness and identical merchant replies; compared: every emitted message byte-for-byte, every accept/refuse and error variant, closing messages from copies of both tracks. Distinct = distinct (stage, history position) restore points and distinct twin payments. Added later: histories with a zero or close-tag scalar sample, and a JSON store format (alone and alternating with the binary one) on balances around 2^53. Several refused replies in a row before a restore."));
    let pairs: Vec<(u64, u64)> = vec![(10, 1000), (0, 7), (7, 0), (MAXB, 0), (0, MAXB), (1 << 62, 1 << 62), (MAXB - 1, 1), (1 << 32, 1 << 31)];
    let steps = c.tier.pick(6usize, 16);
    let nrand = c.tier.pick(24usize, 120);
    let m = match fixtures::merchant(c.seed, "m0") {
        Ok(m) => m,
        Err(e) => return c.inconclusive(&e),
    };
    let mut all = pairs.clone();
    let mut rng = c.rng("pairs");
    for _ in 0..nrand {
        all.push((shaped_u64(&mut rng) & MAXB, shaped_u64(&mut rng) & MAXB));
    }
    // crafted scalar samples: zero, and the close tag (a value the nonce generator must never return and
    // the nonce decoder refuses)
    let mut close_pat = [0u8; 64];
    close_pat[..32].copy_from_slice(&crate::refs::close_tag_ref().to_bytes());
    let patterns: [(&str, [u8; 64]); 2] = [("zero", [0u8; 64]), ("close-tag", close_pat)];
    // balances around 2^53 (the largest integer every JSON consumer represents exactly) come first in the
    // JSON passes
    let json_pairs: Vec<(u64, u64)> = vec![((1 << 53) - 11, 100), (100, (1 << 53) - 3), (1 << 53, 1 << 53), (MAXB, 0), (0, MAXB), (10, 1000)];
    for (i, (cust, merch)) in json_pairs.into_iter().enumerate() {
        if i >= c.tier.pick(4usize, 6) {
            break;
        }
        for mode in [1u8, 2] {
            let name = format!("twin-json{}/{}-{}/{}", i, cust, merch, if mode == 1 { "json" } else { "alternating" });
            c.case(&name, |c| {
                if let Err(p) = guard(|| run_twin(c, m, &name, cust, merch, steps.min(4), true, None, mode, 1)) {
                    c.violation(&format!("C20 panic loc={}", repo_rel(&p.location)), json!({"panic": p.message}));
                }
            });
        }
    }
    for (i, (cust, merch)) in all.into_iter().enumerate() {
        for every in [true, false] {
            let name = format!("twin{}/{}-{}/{}", i, cust, merch, if every { "every" } else { "random" });
            c.case(&name, |c| {
                if let Err(p) = guard(|| run_twin(c, m, &name, cust, merch, steps, every, None, if i % 5 == 4 { 2 } else { 0 }, if i % 4 == 1 { 4 } else { 1 })) {
                    c.violation(&format!("C20 panic loc={}", repo_rel(&p.location)), json!({"panic": p.message}));
                }
            });
        }
        // crafted randomness: the i-th scalar sample of the request (and one of each start) is zero / the close tag
        if i < c.tier.pick(14usize, 40) {
            for (pname, pat) in patterns.iter() {
                let name = format!("twin{}/{}-{}/{}-sample{}", i, cust, merch, pname, i);
                c.case(&name, |c| {
                    if let Err(p) = guard(|| run_twin(c, m, &name, cust, merch, steps.min(3), true, Some((i, *pat)), 0, 1)) {
                        c.violation(&format!("C20 panic loc={}", repo_rel(&p.location)), json!({"panic": p.message}));
                    }
                });
            }
        }
    }
}
