//! C10 — honest proofs and the documented constraint patterns always verify.
//!
//! Everything here is built with the library's own provers. Refuting events: an honestly built
//! commitment / signature / signature-request proof or range constraint fails its verifier under
//! the challenge derived from the finished proof; the challenge derived from the builder differs
//! from the one derived from the proof; a documented constraint pattern (partial opening, equality
//! within / across proofs, secret sum, public addition, public product, range link) does not hold
//! on the response scalars.

use crate::ctx::{guard, hex, Ctx, PanicInfo};
use crate::fixtures::{self, Merchant};
use crate::props::util::{class_u64, repo_rel};
use crate::refs::{q_minus_1, sc};
use crate::tracer::trace;
use bls12_381::{G1Projective, G2Projective, Scalar};
use ff::Field;
use rand_chacha::ChaCha20Rng;
use rand_core::RngCore;
use serde_json::{json, Value};
use zkchannels_crypto::{
    pedersen::PedersenParameters,
    pointcheval_sanders::KeyPair,
    proofs::{
        verif_hooks, Challenge, ChallengeBuilder, CommitmentProof, CommitmentProofBuilder, RangeConstraint, RangeConstraintBuilder,
        RangeConstraintParameters, SignatureProof, SignatureProofBuilder, SignatureRequestProof, SignatureRequestProofBuilder,
    },
    Message,
};

type R = ChaCha20Rng;

thread_local! {
    /// which stage of `Prf::verify` refused the last honest proof
    static WHY: std::cell::RefCell<String> = std::cell::RefCell::new(String::new());
}

#[derive(Debug, Clone, Copy, PartialEq, Eq)]
enum Ty {
    ComG1,
    ComG2,
    Sig,
    Req,
}

impl Ty {
    const ALL: [Ty; 4] = [Ty::ComG1, Ty::ComG2, Ty::Sig, Ty::Req];
    fn name(self) -> &'static str {
        match self {
            Ty::ComG1 => "CommitmentProof<G1>",
            Ty::ComG2 => "CommitmentProof<G2>",
            Ty::Sig => "SignatureProof",
            Ty::Req => "SignatureRequestProof",
        }
    }
    fn short(self) -> &'static str {
        match self {
            Ty::ComG1 => "ComG1",
            Ty::ComG2 => "ComG2",
            Ty::Sig => "Sig",
            Ty::Req => "Req",
        }
    }
}

/// Keys and parameters for one tuple length.
struct Env<const N: usize> {
    kp: KeyPair<N>,
    p1: PedersenParameters<G1Projective, N>,
    p2: PedersenParameters<G2Projective, N>,
}

impl<const N: usize> Env<N> {
    fn new(rng: &mut R) -> Self {
        Env {
            kp: KeyPair::new(rng),
            p1: PedersenParameters::new(rng),
            p2: PedersenParameters::new(rng),
        }
    }
}

enum Bld<const N: usize> {
    C1(CommitmentProofBuilder<G1Projective, N>),
    C2(CommitmentProofBuilder<G2Projective, N>),
    S(SignatureProofBuilder<N>),
    R(SignatureRequestProofBuilder<N>),
}

enum Prf<const N: usize> {
    C1(CommitmentProof<G1Projective, N>),
    C2(CommitmentProof<G2Projective, N>),
    S(SignatureProof<N>),
    R(SignatureRequestProof<N>),
}

impl<const N: usize> Bld<N> {
    /// the library's commitment phase (for signature proofs: on a fresh honest signature)
    fn new(ty: Ty, rng: &mut R, env: &Env<N>, msg: &[Scalar; N], cs: &[Option<Scalar>; N]) -> Self {
        let m = Message::new(*msg);
        match ty {
            Ty::ComG1 => Bld::C1(CommitmentProofBuilder::generate_proof_commitments(rng, m, cs, &env.p1)),
            Ty::ComG2 => Bld::C2(CommitmentProofBuilder::generate_proof_commitments(rng, m, cs, &env.p2)),
            Ty::Sig => {
                let sig = m.sign(rng, &env.kp);
                Bld::S(SignatureProofBuilder::generate_proof_commitments(rng, m, sig, cs, env.kp.public_key()))
            }
            Ty::Req => Bld::R(SignatureRequestProofBuilder::generate_proof_commitments(rng, m, cs, env.kp.public_key())),
        }
    }
    fn ty(&self) -> Ty {
        match self {
            Bld::C1(_) => Ty::ComG1,
            Bld::C2(_) => Ty::ComG2,
            Bld::S(_) => Ty::Sig,
            Bld::R(_) => Ty::Req,
        }
    }
    fn cs(&self) -> [Scalar; N] {
        match self {
            Bld::C1(b) => *b.conjunction_commitment_scalars(),
            Bld::C2(b) => *b.conjunction_commitment_scalars(),
            Bld::S(b) => *b.conjunction_commitment_scalars(),
            Bld::R(b) => *b.conjunction_commitment_scalars(),
        }
    }
    fn feed(&self, cb: ChallengeBuilder) -> ChallengeBuilder {
        match self {
            Bld::C1(b) => cb.with(b),
            Bld::C2(b) => cb.with(b),
            Bld::S(b) => cb.with(b),
            Bld::R(b) => cb.with(b),
        }
    }
    fn respond(self, ch: Challenge) -> Prf<N> {
        match self {
            Bld::C1(b) => Prf::C1(b.generate_proof_response(ch)),
            Bld::C2(b) => Prf::C2(b.generate_proof_response(ch)),
            Bld::S(b) => Prf::S(b.generate_proof_response(ch)),
            Bld::R(b) => Prf::R(b.generate_proof_response(ch)),
        }
    }
}

impl<const N: usize> Prf<N> {
    fn feed(&self, cb: ChallengeBuilder) -> ChallengeBuilder {
        match self {
            Prf::C1(p) => cb.with(p),
            Prf::C2(p) => cb.with(p),
            Prf::S(p) => cb.with(p),
            Prf::R(p) => cb.with(p),
        }
    }
    fn verify_once(&self, env: &Env<N>, ch: Challenge) -> bool {
        match self {
            Prf::C1(p) => p.verify_knowledge_of_opening(&env.p1, ch),
            Prf::C2(p) => p.verify_knowledge_of_opening(&env.p2, ch),
            Prf::S(p) => p.verify_knowledge_of_signature(env.kp.public_key(), ch),
            Prf::R(p) => p.verify_knowledge_of_opening(env.kp.public_key(), ch).is_some(),
        }
    }
    /// the proof after a trip through its wire form (None: it does not decode)
    fn through_the_wire(&self) -> Option<Prf<N>> {
        Some(match self {
            Prf::C1(p) => Prf::C1(crate::wire::dec(&crate::wire::enc(p)).ok()?),
            Prf::C2(p) => Prf::C2(crate::wire::dec(&crate::wire::enc(p)).ok()?),
            Prf::S(p) => Prf::S(crate::wire::dec(&crate::wire::enc(p)).ok()?),
            Prf::R(p) => Prf::R(crate::wire::dec(&crate::wire::enc(p)).ok()?),
        })
    }
    /// An honest proof verifies: when first asked, when asked again, and after it went through its wire
    /// form (which is how a verifier gets it). The stage that failed is left in WHY.
    fn verify(&self, env: &Env<N>, ch: Challenge) -> bool {
        let why = |s: &str| WHY.with(|w| *w.borrow_mut() = s.to_string());
        if !self.verify_once(env, ch) {
            why("in memory");
            return false;
        }
        if !self.verify_once(env, ch) {
            why("second verification of the same object");
            return false;
        }
        match self.through_the_wire() {
            None => {
                why("the honest proof does not decode from its own encoding");
                false
            }
            Some(p) => {
                if p.verify_once(env, ch) {
                    true
                } else {
                    why("after a trip through the wire form");
                    false
                }
            }
        }
    }
    fn rs(&self) -> [Scalar; N] {
        match self {
            Prf::C1(p) => *p.conjunction_response_scalars(),
            Prf::C2(p) => *p.conjunction_response_scalars(),
            Prf::S(p) => *p.conjunction_response_scalars(),
            Prf::R(p) => *p.conjunction_response_scalars(),
        }
    }
}

// ------------------------------------------------------------------------------------------
// values

const CLASSES: [&str; 5] = ["0", "1", "q-1", "small", "random"];

fn val(rng: &mut R, class: usize) -> Scalar {
    match class % 5 {
        0 => Scalar::zero(),
        1 => Scalar::one(),
        2 => q_minus_1(),
        // "small": values that fit a machine word, including the top of the 63- and 64-bit ranges
        3 => match rng.next_u32() % 6 {
            0 => Scalar::from(1u64 << 63),
            1 => Scalar::from(u64::MAX),
            2 => Scalar::from(i64::MAX as u64),
            3 => Scalar::from((1u64 << 63) + (rng.next_u32() as u64)),
            _ => Scalar::from(2 + (rng.next_u32() % 100_000) as u64),
        },
        _ => Scalar::random(&mut *rng),
    }
}

/// message variant v: 0..5 = every entry of one class, then rotating mixtures
fn message<const N: usize>(rng: &mut R, v: usize) -> ([Scalar; N], String) {
    let mut m = [Scalar::zero(); N];
    let mut names = vec![];
    for i in 0..N {
        let cl = if v < 5 { v } else { (v + i * (1 + v / 5)) % 5 };
        m[i] = val(rng, cl);
        names.push(CLASSES[cl % 5]);
    }
    let label = if v < 5 { format!("all:{}", CLASSES[v]) } else { names.join(",") };
    (m, label)
}

fn chosen_cs(rng: &mut R, k: usize) -> Scalar {
    match k % 6 {
        0 => Scalar::zero(),
        1 => q_minus_1(),
        2 => Scalar::from((1u64 << 63) | (rng.next_u64() >> 1)),
        _ => Scalar::random(&mut *rng),
    }
}

fn hexs(v: &[Scalar]) -> Vec<String> {
    v.iter().map(|s| hex(&s.to_bytes())).collect()
}

/// subsets of slots (bit masks) that get caller-chosen commitment scalars
fn subsets(c: &Ctx, n: usize, rng: &mut R) -> Vec<u32> {
    if n <= 5 {
        return (0..(1u32 << n)).collect();
    }
    let full = (1u32 << n) - 1;
    let mut v = vec![0, full, 1, 1 << (n - 1), full ^ 1, full ^ (1 << (n / 2))];
    let want = c.tier.pick(12usize, 120);
    while v.len() < want {
        let m = rng.next_u32() & full;
        if !v.contains(&m) {
            v.push(m);
        }
    }
    v
}

fn distinct_slots(rng: &mut R, n: usize, k: usize) -> Vec<usize> {
    let mut v: Vec<usize> = (0..n).collect();
    for i in 0..k.min(n) {
        let j = i + (rng.next_u32() as usize) % (n - i);
        v.swap(i, j);
    }
    v.truncate(k.min(n));
    v
}

fn panic_report(c: &mut Ctx, what: &str, p: &PanicInfo, detail: Value) {
    let loc = repo_rel(&p.location);
    if loc.starts_with("zkchannels-crypto/") || loc.starts_with("zkabacus-crypto/") || loc.starts_with("dep:") || loc.starts_with("std:") {
        c.violation(&format!("C10 honest-prover-or-verifier-panicked {} loc={}", what, loc), json!({"panic": p.message, "location": p.location, "inputs": detail}));
    } else {
        c.inconclusive(&format!("C10: harness panic in {}: {} at {}", what, p.message, p.location));
    }
}

// ------------------------------------------------------------------------------------------
// conjunctions of proofs under one challenge

struct ConjOut<const N: usize> {
    c: Scalar,
    ch: Challenge,
    rs: Vec<[Scalar; N]>,
    cs: Vec<[Scalar; N]>,
    range: Option<RangeConstraint>,
}

/// Derive the challenge from the builders (and public scalars), answer, derive the challenge from
/// the finished proofs, compare, verify every proof. `sig` is the stable part of violation
/// signatures.
fn run_conj<const N: usize>(
    c: &mut Ctx,
    env: &Env<N>,
    sig: &str,
    blds: Vec<Bld<N>>,
    publics: &[Scalar],
    range: Option<(RangeConstraintBuilder, &RangeConstraintParameters)>,
    detail: &Value,
) -> Option<ConjOut<N>> {
    let tys: Vec<Ty> = blds.iter().map(|b| b.ty()).collect();
    let r = guard(|| {
        let cs: Vec<[Scalar; N]> = blds.iter().map(|b| b.cs()).collect();
        let mut cb = ChallengeBuilder::new();
        if let Some((rb, _)) = &range {
            cb = cb.with(rb);
        }
        for b in &blds {
            cb = b.feed(cb);
        }
        for p in publics {
            cb = cb.with(p);
        }
        let ch_b = cb.finish();
        let (rc, rp) = match range {
            Some((rb, rp)) => (Some(rb.generate_constraint_response(ch_b)), Some(rp)),
            None => (None, None),
        };
        let prfs: Vec<Prf<N>> = blds.into_iter().map(|b| b.respond(ch_b)).collect();
        let mut cb = ChallengeBuilder::new();
        if let Some(rc) = &rc {
            cb = cb.with(rc);
        }
        for p in &prfs {
            cb = p.feed(cb);
        }
        for p in publics {
            cb = cb.with(p);
        }
        let ch_p = cb.finish();
        let oks: Vec<bool> = prfs.iter().map(|p| p.verify(env, ch_p)).collect();
        let rs: Vec<[Scalar; N]> = prfs.iter().map(|p| p.rs()).collect();
        (cs, ch_b, ch_p, oks, rs, rc, rp)
    });
    let (cs, ch_b, ch_p, oks, rs, rc, _rp) = match r {
        Ok(x) => x,
        Err(p) => {
            panic_report(c, sig, &p, detail.clone());
            return None;
        }
    };
    c.eval();
    if ch_b.to_scalar() != ch_p.to_scalar() {
        c.count("challenge_builder!=proof", 1);
        c.violation(
            &format!("C10 builder-and-proof-challenges-differ {}", sig),
            json!({"builder_challenge": hex(&ch_b.to_scalar().to_bytes()), "proof_challenge": hex(&ch_p.to_scalar().to_bytes()), "inputs": detail}),
        );
    } else {
        c.count("challenge_builder==proof", 1);
    }
    for (i, ok) in oks.iter().enumerate() {
        c.eval();
        if *ok {
            c.count(&format!("honest_verified[{}]", tys[i].short()), 1);
        } else {
            c.count(&format!("honest_rejected[{}]", tys[i].short()), 1);
            c.violation(
                &format!("C10 honest-proof-rejected {} proof={}:{}", sig, i, tys[i].short()),
                json!({"challenge": hex(&ch_p.to_scalar().to_bytes()), "responses": hexs(&rs[i]), "commitment_scalars": hexs(&cs[i]), "inputs": detail, "refused": WHY.with(|w| w.borrow().clone())}),
            );
        }
    }
    Some(ConjOut {
        c: ch_p.to_scalar(),
        ch: ch_p,
        rs,
        cs,
        range: rc,
    })
}

fn relation(c: &mut Ctx, sig: &str, name: &str, holds: bool, detail: &Value) {
    c.eval();
    if holds {
        c.count(&format!("pattern_holds[{}]", name), 1);
    } else {
        c.count(&format!("pattern_fails[{}]", name), 1);
        c.violation(&format!("C10 pattern-relation-failed pattern={} {}", name, sig), json!({"inputs": detail}));
    }
}

// ------------------------------------------------------------------------------------------
// basic completeness: every subset of slots with caller-chosen commitment scalars

fn basic_cases<const N: usize>(c: &mut Ctx) {
    let variants = c.tier.pick(12usize, 25);
    for ty in Ty::ALL {
        for v in 0..variants {
            let name = format!("basic/{}/N={}/msg{}", ty.short(), N, v);
            c.case(&name, |c| {
                let mut rng = c.rng(&name);
                let env = Env::<N>::new(&mut rng);
                let (msg, mclass) = message::<N>(&mut rng, v);
                let masks = subsets(c, N, &mut rng);
                for (k, mask) in masks.iter().enumerate() {
                    let mut cs = [None; N];
                    for i in 0..N {
                        if (mask >> i) & 1 == 1 {
                            cs[i] = Some(chosen_cs(&mut rng, k + i));
                        }
                    }
                    let sig = format!("type={} N={}", ty.name(), N);
                    let detail = json!({"message_classes": mclass, "message": hexs(&msg), "chosen_slots_mask": format!("{:#x}", mask),
                        "chosen": cs.iter().map(|x| x.map(|s| hex(&s.to_bytes()))).collect::<Vec<_>>()});
                    let blds = match guard(|| vec![Bld::new(ty, &mut rng, &env, &msg, &cs)]) {
                        Ok(b) => b,
                        Err(p) => {
                            panic_report(c, &sig, &p, detail);
                            continue;
                        }
                    };
                    c.distinct(&format!("basic/{}/N={}/msg={}/mask={:x}", ty.short(), N, mclass, mask));
                    c.count(&format!("proofs[{}]", ty.short()), 1);
                    c.count(&format!("chosen_slots_total[N={}]", N), mask.count_ones() as i64);
                    let Some(out) = run_conj(c, &env, &sig, blds, &[], None, &detail) else { continue };
                    // partial opening on every slot: r_i = c*m_i + cs_i, with cs_i the caller's
                    // value where one was given
                    let mut all = true;
                    let mut honoured = true;
                    for i in 0..N {
                        let s = cs[i].unwrap_or(out.cs[0][i]);
                        honoured &= out.cs[0][i] == s;
                        all &= out.rs[0][i] == out.c * msg[i] + s;
                    }
                    relation(c, &sig, "partial-opening(all-slots)", all && honoured, &detail);
                    if k == 0 && v == 0 {
                        c.sample(json!({"kind": "basic", "type": ty.name(), "N": N, "message_classes": mclass, "subsets": masks.len(),
                            "challenge": hex(&out.c.to_bytes())}));
                    }
                }
                verif_hooks::clear();
            });
        }
    }
}

// ------------------------------------------------------------------------------------------
// patterns inside one proof

fn within_cases<const N: usize>(c: &mut Ctx) {
    let insts = c.tier.pick(2usize, 8);
    for ty in Ty::ALL {
        for inst in 0..insts {
            let name = format!("pattern/within/{}/N={}/{}", ty.short(), N, inst);
            c.case(&name, |c| {
                let mut rng = c.rng(&name);
                let env = Env::<N>::new(&mut rng);
                let base = format!("types={} N={}", ty.short(), N);
                for cl in 0..5usize {
                    for cl2 in 0..5usize {
                        // quick, long tuples: the second class rotates instead of looping
                        if c.tier.pick(true, false) && N > 5 && cl2 != (cl + inst + 2) % 5 {
                            continue;
                        }
                        let (mut msg, _) = message::<N>(&mut rng, 5 + cl + inst);
                        let x = val(&mut rng, cl);
                        let p = val(&mut rng, cl2);
                        let key = format!("{}/{}", CLASSES[cl], CLASSES[cl2]);
                        // partial opening of a public value with a caller-chosen commitment scalar
                        {
                            let s = distinct_slots(&mut rng, N, 1);
                            let mut m = msg;
                            m[s[0]] = p;
                            let mut cs = [None; N];
                            let k = chosen_cs(&mut rng, cl + cl2);
                            cs[s[0]] = Some(k);
                            let detail = json!({"pattern": "partial-opening", "public": hex(&p.to_bytes()), "commitment_scalar": hex(&k.to_bytes()), "slot": s[0], "message": hexs(&m)});
                            if let Ok(b) = guard(|| Bld::new(ty, &mut rng, &env, &m, &cs)).map_err(|e| panic_report(c, &base, &e, detail.clone())) {
                                c.distinct(&format!("within/partial-opening/{}/N={}/{}", ty.short(), N, key));
                                // the public value and its commitment scalar go into the challenge
                                if let Some(o) = run_conj(c, &env, &base, vec![b], &[p, k], None, &detail) {
                                    relation(c, &base, "partial-opening", o.c * p + k == o.rs[0][s[0]], &detail);
                                }
                            }
                        }
                        if N >= 2 {
                            let s = distinct_slots(&mut rng, N, 2);
                            let (i, j) = (s[0], s[1]);
                            // equality within one proof
                            {
                                msg[i] = x;
                                msg[j] = x;
                                let mut cs = [None; N];
                                let k = chosen_cs(&mut rng, 2 + cl2);
                                cs[i] = Some(k);
                                cs[j] = Some(k);
                                let detail = json!({"pattern": "equality-within", "slots": [i, j], "message": hexs(&msg)});
                                if let Ok(b) = guard(|| Bld::new(ty, &mut rng, &env, &msg, &cs)).map_err(|e| panic_report(c, &base, &e, detail.clone())) {
                                    c.distinct(&format!("within/equality/{}/N={}/{}", ty.short(), N, key));
                                    if let Some(o) = run_conj(c, &env, &base, vec![b], &[], None, &detail) {
                                        relation(c, &base, "equality-within", o.rs[0][i] == o.rs[0][j], &detail);
                                    }
                                }
                            }
                            // public addition within one proof: m_j = m_i + p, same commitment scalar
                            {
                                msg[i] = x;
                                msg[j] = x + p;
                                let mut cs = [None; N];
                                let k = chosen_cs(&mut rng, 3 + cl);
                                cs[i] = Some(k);
                                cs[j] = Some(k);
                                let detail = json!({"pattern": "public-addition-within", "slots": [i, j], "public": hex(&p.to_bytes()), "message": hexs(&msg)});
                                if let Ok(b) = guard(|| Bld::new(ty, &mut rng, &env, &msg, &cs)).map_err(|e| panic_report(c, &base, &e, detail.clone())) {
                                    c.distinct(&format!("within/public-addition/{}/N={}/{}", ty.short(), N, key));
                                    if let Some(o) = run_conj(c, &env, &base, vec![b], &[p], None, &detail) {
                                        relation(c, &base, "public-addition-within", o.rs[0][j] == o.rs[0][i] + o.c * p, &detail);
                                    }
                                }
                            }
                            // public product within one proof: m_j = m_i * p, cs_j = cs_i * p
                            {
                                msg[i] = x;
                                msg[j] = x * p;
                                let mut cs = [None; N];
                                let k = chosen_cs(&mut rng, 4 + cl);
                                cs[i] = Some(k);
                                cs[j] = Some(k * p);
                                let detail = json!({"pattern": "public-product-within", "slots": [i, j], "public": hex(&p.to_bytes()), "message": hexs(&msg)});
                                if let Ok(b) = guard(|| Bld::new(ty, &mut rng, &env, &msg, &cs)).map_err(|e| panic_report(c, &base, &e, detail.clone())) {
                                    c.distinct(&format!("within/public-product/{}/N={}/{}", ty.short(), N, key));
                                    if let Some(o) = run_conj(c, &env, &base, vec![b], &[p], None, &detail) {
                                        relation(c, &base, "public-product-within", o.rs[0][j] == o.rs[0][i] * p, &detail);
                                    }
                                }
                            }
                        }
                        if N >= 3 {
                            // secret sum within one proof: m_k = m_i + m_j, cs_k = cs_i + cs_j
                            let s = distinct_slots(&mut rng, N, 3);
                            let (i, j, k) = (s[0], s[1], s[2]);
                            msg[i] = x;
                            msg[j] = p;
                            msg[k] = x + p;
                            let mut cs = [None; N];
                            let (a, b_) = (chosen_cs(&mut rng, cl), chosen_cs(&mut rng, 2 + cl2));
                            cs[i] = Some(a);
                            cs[j] = Some(b_);
                            cs[k] = Some(a + b_);
                            let detail = json!({"pattern": "secret-sum-within", "slots": [i, j, k], "message": hexs(&msg)});
                            if let Ok(b) = guard(|| Bld::new(ty, &mut rng, &env, &msg, &cs)).map_err(|e| panic_report(c, &base, &e, detail.clone())) {
                                c.distinct(&format!("within/secret-sum/{}/N={}/{}", ty.short(), N, key));
                                if let Some(o) = run_conj(c, &env, &base, vec![b], &[], None, &detail) {
                                    relation(c, &base, "secret-sum-within", o.rs[0][k] == o.rs[0][i] + o.rs[0][j], &detail);
                                }
                            }
                        }
                    }
                }
                verif_hooks::clear();
            });
        }
    }
}

// ------------------------------------------------------------------------------------------
// patterns across two and three proofs of the same length

fn across_cases<const N: usize>(c: &mut Ctx) {
    let insts = c.tier.pick(2usize, 6);
    for ta in Ty::ALL {
        for inst in 0..insts {
            let name = format!("pattern/across/{}/N={}/{}", ta.short(), N, inst);
            c.case(&name, |c| {
                let mut rng = c.rng(&name);
                let env = Env::<N>::new(&mut rng);
                for (bi, tb) in Ty::ALL.into_iter().enumerate() {
                    let base = format!("types={}+{} N={}", ta.short(), tb.short(), N);
                    for cl in 0..5usize {
                        // quick, long tuples: one class per pair instead of five
                        if c.tier.pick(true, false) && N > 5 && cl != (bi + inst) % 5 {
                            continue;
                        }
                        let cl2 = (cl + bi + inst + 1) % 5;
                        let x = val(&mut rng, cl);
                        let p = val(&mut rng, cl2);
                        let key = format!("{}+{}/N={}/{}/{}", ta.short(), tb.short(), N, CLASSES[cl], CLASSES[cl2]);
                        let i = distinct_slots(&mut rng, N, 1)[0];
                        let j = distinct_slots(&mut rng, N, 1)[0];
                        let (mut ma, _) = message::<N>(&mut rng, 5 + cl);
                        let (mut mb, _) = message::<N>(&mut rng, 6 + cl2);
                        ma[i] = x;
                        // the three two-proof relations: (name, value in B's slot, cs of B's slot from A's)
                        for rel in ["equality-across", "public-addition-across", "public-product-across"] {
                            mb[j] = match rel {
                                "equality-across" => x,
                                "public-addition-across" => x + p,
                                _ => x * p,
                            };
                            let detail = json!({"pattern": rel, "slots": [i, j], "public": hex(&p.to_bytes()), "message_a": hexs(&ma), "message_b": hexs(&mb)});
                            let built = guard(|| {
                                let a = Bld::new(ta, &mut rng, &env, &ma, &[None; N]);
                                let mut cs = [None; N];
                                cs[j] = Some(if rel == "public-product-across" { a.cs()[i] * p } else { a.cs()[i] });
                                let b = Bld::new(tb, &mut rng, &env, &mb, &cs);
                                vec![a, b]
                            });
                            let blds = match built {
                                Ok(b) => b,
                                Err(e) => {
                                    panic_report(c, &base, &e, detail);
                                    continue;
                                }
                            };
                            c.distinct(&format!("across/{}/{}", rel, key));
                            let publics: Vec<Scalar> = if rel == "equality-across" { vec![] } else { vec![p] };
                            if let Some(o) = run_conj(c, &env, &base, blds, &publics, None, &detail) {
                                let (ra, rb) = (o.rs[0][i], o.rs[1][j]);
                                let holds = match rel {
                                    "equality-across" => rb == ra,
                                    "public-addition-across" => rb == ra + o.c * p,
                                    _ => rb == ra * p,
                                };
                                relation(c, &base, rel, holds, &detail);
                            }
                        }
                        // secret sum across three proofs: A.i + B.j = C.k, cs_C.k = cs_A.i + cs_B.j
                        {
                            let tc = Ty::ALL[(bi + cl + inst) % 4];
                            let base3 = format!("types={}+{}+{} N={}", ta.short(), tb.short(), tc.short(), N);
                            let k = distinct_slots(&mut rng, N, 1)[0];
                            let (mut mc, _) = message::<N>(&mut rng, 7 + cl);
                            mb[j] = p;
                            mc[k] = x + p;
                            let detail = json!({"pattern": "secret-sum-across", "slots": [i, j, k], "message_a": hexs(&ma), "message_b": hexs(&mb), "message_c": hexs(&mc)});
                            let built = guard(|| {
                                let a = Bld::new(ta, &mut rng, &env, &ma, &[None; N]);
                                let b = Bld::new(tb, &mut rng, &env, &mb, &[None; N]);
                                let mut cs = [None; N];
                                cs[k] = Some(a.cs()[i] + b.cs()[j]);
                                let d = Bld::new(tc, &mut rng, &env, &mc, &cs);
                                vec![a, b, d]
                            });
                            match built {
                                Ok(blds) => {
                                    c.distinct(&format!("across/secret-sum/{}+{}", key, tc.short()));
                                    if let Some(o) = run_conj(c, &env, &base3, blds, &[], None, &detail) {
                                        relation(c, &base3, "secret-sum-across", o.rs[2][k] == o.rs[0][i] + o.rs[1][j], &detail);
                                    }
                                }
                                Err(e) => panic_report(c, &base3, &e, detail),
                            }
                        }
                    }
                }
                verif_hooks::clear();
            });
        }
    }
}

// ------------------------------------------------------------------------------------------
// equality across two proofs of different lengths

fn cross_len<const N: usize, const M: usize>(c: &mut Ctx) {
    let name = format!("pattern/cross-length/N={}+M={}", N, M);
    c.case(&name, |c| {
        let mut rng = c.rng(&name);
        let ea = Env::<N>::new(&mut rng);
        let eb = Env::<M>::new(&mut rng);
        let reps = c.tier.pick(1usize, 5);
        for rep in 0..reps {
            for (ai, ta) in Ty::ALL.into_iter().enumerate() {
                for (bi, tb) in Ty::ALL.into_iter().enumerate() {
                    let cl = (ai * 4 + bi + rep) % 5;
                    let x = val(&mut rng, cl);
                    let p = val(&mut rng, cl + 2);
                    let i = distinct_slots(&mut rng, N, 1)[0];
                    let j = distinct_slots(&mut rng, M, 1)[0];
                    let (mut ma, _) = message::<N>(&mut rng, 5 + cl);
                    let (mut mb, _) = message::<M>(&mut rng, 6 + cl);
                    ma[i] = x;
                    mb[j] = x + p;
                    let sig = format!("types={}+{} N={}+{}", ta.short(), tb.short(), N, M);
                    let detail = json!({"pattern": "public-addition-across-lengths", "slots": [i, j], "public": hex(&p.to_bytes()), "message_a": hexs(&ma), "message_b": hexs(&mb)});
                    let r = guard(|| {
                        let a = Bld::new(ta, &mut rng, &ea, &ma, &[None; N]);
                        let mut cs = [None; M];
                        cs[j] = Some(a.cs()[i]);
                        let b = Bld::new(tb, &mut rng, &eb, &mb, &cs);
                        let ch_b = b.feed(a.feed(ChallengeBuilder::new())).with(&p).finish();
                        let pa = a.respond(ch_b);
                        let pb = b.respond(ch_b);
                        let ch_p = pb.feed(pa.feed(ChallengeBuilder::new())).with(&p).finish();
                        (ch_b.to_scalar(), ch_p.to_scalar(), pa.verify(&ea, ch_p), pb.verify(&eb, ch_p), pa.rs()[i], pb.rs()[j])
                    });
                    let (cb, cp, oka, okb, ra, rb) = match r {
                        Ok(x) => x,
                        Err(e) => {
                            panic_report(c, &sig, &e, detail);
                            continue;
                        }
                    };
                    c.distinct(&format!("cross-length/{}+{}/{}+{}/{}", ta.short(), tb.short(), N, M, CLASSES[cl]));
                    c.eval();
                    if cb != cp {
                        c.count("challenge_builder!=proof", 1);
                        c.violation(&format!("C10 builder-and-proof-challenges-differ {}", sig), json!({"inputs": detail}));
                    } else {
                        c.count("challenge_builder==proof", 1);
                    }
                    for (ok, t) in [(oka, ta), (okb, tb)] {
                        c.eval();
                        if ok {
                            c.count(&format!("honest_verified[{}]", t.short()), 1);
                        } else {
                            c.count(&format!("honest_rejected[{}]", t.short()), 1);
                            c.violation(&format!("C10 honest-proof-rejected {} proof={}", sig, t.short()), json!({"inputs": detail}));
                        }
                    }
                    relation(c, &sig, "public-addition-across", rb == ra + cp * p, &detail);
                }
            }
        }
        verif_hooks::clear();
    });
}

// ------------------------------------------------------------------------------------------
// four proofs (and a range constraint) under one challenge

fn conj4_cases<const N: usize>(c: &mut Ctx, m: &'static Merchant) {
    let insts = c.tier.pick(2usize, 6);
    for rot in 0..4usize {
        for inst in 0..insts {
            let name = format!("pattern/four-proofs/N={}/rot{}/{}", N, rot, inst);
            c.case(&name, |c| {
                let mut rng = c.rng(&name);
                let env = Env::<N>::new(&mut rng);
                let tys: Vec<Ty> = (0..4).map(|k| Ty::ALL[(k + rot) % 4]).collect();
                let tnames = tys.iter().map(|t| t.short()).collect::<Vec<_>>().join("+");
                // (a) the same message in all four, every commitment scalar shared
                for v in [rot + inst, 5 + rot + inst] {
                    let (msg, mclass) = message::<N>(&mut rng, v % 10);
                    let sig = format!("types={} N={}", tnames, N);
                    let detail = json!({"pattern": "four-proofs-same-message", "message": hexs(&msg), "message_classes": mclass});
                    let built = guard(|| {
                        let a = Bld::new(tys[0], &mut rng, &env, &msg, &[None; N]);
                        let mut cs = [None; N];
                        for i in 0..N {
                            cs[i] = Some(a.cs()[i]);
                        }
                        let mut v = vec![a];
                        for t in &tys[1..] {
                            v.push(Bld::new(*t, &mut rng, &env, &msg, &cs));
                        }
                        v
                    });
                    match built {
                        Ok(blds) => {
                            c.distinct(&format!("four/same/{}/N={}/{}", tnames, N, mclass));
                            if let Some(o) = run_conj(c, &env, &sig, blds, &[], None, &detail) {
                                relation(c, &sig, "equality-across(four-proofs)", o.rs[1] == o.rs[0] && o.rs[2] == o.rs[0] && o.rs[3] == o.rs[0], &detail);
                            }
                        }
                        Err(e) => panic_report(c, &sig, &e, detail),
                    }
                }
                // (b) a chain: A.a = x (range-constrained), B.b = x + p, C.c = x * p2, D.d = B.b + C.c
                {
                    let rp: &RangeConstraintParameters = m.ccfg.range_constraint_parameters();
                    let xv: i64 = match (rot + inst) % 4 {
                        0 => 0,
                        1 => i64::MAX,
                        2 => 128,
                        _ => (rng.next_u64() >> 1) as i64,
                    };
                    let x = Scalar::from(xv as u64);
                    let p = val(&mut rng, rot + inst);
                    let p2 = val(&mut rng, rot + inst + 3);
                    let sl: Vec<usize> = (0..4).map(|_| distinct_slots(&mut rng, N, 1)[0]).collect();
                    let mut ms: Vec<[Scalar; N]> = (0..4).map(|k| message::<N>(&mut rng, 5 + k + inst).0).collect();
                    ms[0][sl[0]] = x;
                    ms[1][sl[1]] = x + p;
                    ms[2][sl[2]] = x * p2;
                    ms[3][sl[3]] = x + p + x * p2;
                    let sig = format!("types=Range+{} N={}", tnames, N);
                    let detail = json!({"pattern": "four-proofs-chain", "range_value": xv.to_string(), "slots": sl, "public_add": hex(&p.to_bytes()), "public_mul": hex(&p2.to_bytes()),
                        "messages": ms.iter().map(|m| hexs(m)).collect::<Vec<_>>()});
                    let built = guard(|| {
                        let rb = RangeConstraintBuilder::generate_constraint_commitments(xv, rp, &mut rng);
                        let rb = match rb {
                            Ok(rb) => rb,
                            Err(_) => return None,
                        };
                        let mut cs = [None; N];
                        cs[sl[0]] = Some(rb.commitment_scalar());
                        let a = Bld::new(tys[0], &mut rng, &env, &ms[0], &cs);
                        let mut cs = [None; N];
                        cs[sl[1]] = Some(a.cs()[sl[0]]);
                        let b = Bld::new(tys[1], &mut rng, &env, &ms[1], &cs);
                        let mut cs = [None; N];
                        cs[sl[2]] = Some(a.cs()[sl[0]] * p2);
                        let d = Bld::new(tys[2], &mut rng, &env, &ms[2], &cs);
                        let mut cs = [None; N];
                        cs[sl[3]] = Some(b.cs()[sl[1]] + d.cs()[sl[2]]);
                        let e = Bld::new(tys[3], &mut rng, &env, &ms[3], &cs);
                        Some((rb, vec![a, b, d, e]))
                    });
                    match built {
                        Ok(Some((rb, blds))) => {
                            c.distinct(&format!("four/chain/{}/N={}/{}", tnames, N, class_u64(xv as u64)));
                            if let Some(o) = run_conj(c, &env, &sig, blds, &[p, p2], Some((rb, rp)), &detail) {
                                let (ra, rb_, rc, rd) = (o.rs[0][sl[0]], o.rs[1][sl[1]], o.rs[2][sl[2]], o.rs[3][sl[3]]);
                                relation(c, &sig, "public-addition-across", rb_ == ra + o.c * p, &detail);
                                relation(c, &sig, "public-product-across", rc == ra * p2, &detail);
                                relation(c, &sig, "secret-sum-across", rd == rb_ + rc, &detail);
                                match &o.range {
                                    Some(rcst) => {
                                        let ok = guard(|| rcst.verify_range_constraint(rp, o.ch, ra));
                                        match ok {
                                            Ok(ok) => relation(c, &sig, "range-link", ok, &detail),
                                            Err(e) => panic_report(c, &sig, &e, detail.clone()),
                                        }
                                    }
                                    None => c.inconclusive("C10: range constraint missing from conjunction output"),
                                }
                            }
                        }
                        Ok(None) => {
                            c.eval();
                            c.violation(&format!("C10 range-prover-refused-in-range-value value={}", class_u64(xv as u64)), json!({"value": xv.to_string()}));
                        }
                        Err(e) => panic_report(c, &sig, &e, detail),
                    }
                }
                verif_hooks::clear();
            });
        }
    }
}

// ------------------------------------------------------------------------------------------
// range constraints linked to one slot of a proof

fn range_values(c: &Ctx) -> Vec<(String, i64)> {
    let mut v: Vec<(String, i64)> = vec![("0".into(), 0), ("1".into(), 1)];
    for k in 1..=8u32 {
        let p = 128i64.pow(k);
        v.push((format!("128^{}-1", k), p - 1));
        v.push((format!("128^{}", k), p));
    }
    v.push(("2^63-1".into(), i64::MAX));
    let mut rng = c.rng("range-values");
    for k in 0..c.tier.pick(3usize, 40) {
        let bits = 1 + (rng.next_u32() % 63);
        let x = (rng.next_u64() >> (64 - bits)) as i64;
        v.push((format!("random{}", k), x & i64::MAX));
    }
    v
}

/// sum_j U^j * r_j over the digit response scalars read from the wire form of the constraint
fn wire_digit_sum(rc: &RangeConstraint, radix: u64) -> Result<(Scalar, usize), String> {
    let t = trace(rc)?;
    let mut acc = Scalar::zero();
    let mut pw = Scalar::one();
    let mut j = 0;
    loop {
        let path = format!("digit_proofs/[{}]/commitment_proof/message_response_scalars/[0]", j);
        if t.by_fpath(&path).is_empty() {
            break;
        }
        let r = sc(&t.fget(&path)?).ok_or("range constraint: digit response is not a canonical scalar")?;
        acc += pw * r;
        pw *= Scalar::from(radix);
        j += 1;
    }
    if j == 0 {
        return Err("range constraint: no digit proofs found in the traced layout".into());
    }
    Ok((acc, j))
}

fn range_case<const N: usize>(c: &mut Ctx, m: &'static Merchant, ty: Ty, vname: &str, v: i64, pos_seed: usize) {
    let pos = pos_seed % N;
    let name = format!("range/{}/v={}/N={}/pos={}", ty.short(), vname, N, pos);
    c.case(&name, |c| {
        let mut rng = c.rng(&name);
        let env = Env::<N>::new(&mut rng);
        let rp: &RangeConstraintParameters = m.ccfg.range_constraint_parameters();
        let vclass = if vname.starts_with("random") { "random".to_string() } else { vname.to_string() };
        let sig = format!("types=Range+{} N={} value={}", ty.short(), N, vclass);
        let (mut msg, _) = message::<N>(&mut rng, 5 + pos_seed);
        msg[pos] = Scalar::from(v as u64);
        let detail = json!({"pattern": "range-link", "value": v.to_string(), "slot": pos, "message": hexs(&msg)});
        // the range builder alone: builder challenge = constraint challenge
        let built = guard(|| {
            let rb = match RangeConstraintBuilder::generate_constraint_commitments(v, rp, &mut rng) {
                Ok(rb) => rb,
                Err(_) => return None,
            };
            let alone_b = ChallengeBuilder::new().with(&rb).finish().to_scalar();
            let mut cs = [None; N];
            cs[pos] = Some(rb.commitment_scalar());
            let b = Bld::new(ty, &mut rng, &env, &msg, &cs);
            Some((rb, alone_b, b))
        });
        let (rb, alone_b, b) = match built {
            Ok(Some(x)) => x,
            Ok(None) => {
                c.eval();
                c.violation(&format!("C10 range-prover-refused-in-range-value value={}", vclass), json!({"value": v.to_string()}));
                return;
            }
            Err(e) => return panic_report(c, &sig, &e, detail),
        };
        c.distinct(&format!("range/{}/N={}/pos={}/{}", ty.short(), N, pos, vname));
        c.count("range_constraints", 1);
        let Some(o) = run_conj(c, &env, &sig, vec![b], &[], Some((rb, rp)), &detail) else { return };
        let Some(rc) = &o.range else { return c.inconclusive("C10: range constraint missing from conjunction output") };
        c.eval();
        let alone_p = ChallengeBuilder::new().with(rc).finish().to_scalar();
        if alone_b != alone_p {
            c.count("challenge_builder!=proof", 1);
            c.violation(&format!("C10 builder-and-proof-challenges-differ types=Range value={}", vclass), json!({"inputs": detail}));
        } else {
            c.count("challenge_builder==proof", 1);
        }
        match guard(|| rc.verify_range_constraint(rp, o.ch, o.rs[0][pos])) {
            Ok(ok) => {
                relation(c, &sig, "range-link", ok, &detail);
                if ok {
                    c.count("honest_verified[Range]", 1);
                } else {
                    c.count("honest_rejected[Range]", 1);
                }
            }
            Err(e) => panic_report(c, &sig, &e, detail.clone()),
        }
        // the same link read from the wire: sum U^j r_j == response of the linked slot, with U the
        // number of published digit signatures (an observation, not a refuting event by itself)
        match wire_digit_sum(rc, m.digit_sigs.len() as u64) {
            Ok((sum, digits)) => {
                c.max("digits_in_constraint", digits as i64);
                if sum == o.rs[0][pos] {
                    c.count("range_link_sum_matches_on_the_wire", 1);
                } else {
                    c.count("range_link_sum_differs_on_the_wire", 1);
                }
            }
            Err(e) => c.inconclusive(&e),
        }
        if v == i64::MAX {
            c.sample(json!({"kind": "range", "type": ty.name(), "N": N, "slot": pos, "value": v.to_string(), "challenge": hex(&o.c.to_bytes())}));
        }
        verif_hooks::clear();
    });
}

fn range_dispatch(c: &mut Ctx, m: &'static Merchant, n: usize, ty: Ty, vname: &str, v: i64, pos_seed: usize) {
    match n {
        1 => range_case::<1>(c, m, ty, vname, v, pos_seed),
        2 => range_case::<2>(c, m, ty, vname, v, pos_seed),
        3 => range_case::<3>(c, m, ty, vname, v, pos_seed),
        5 => range_case::<5>(c, m, ty, vname, v, pos_seed),
        8 => range_case::<8>(c, m, ty, vname, v, pos_seed),
        _ => range_case::<13>(c, m, ty, vname, v, pos_seed),
    }
}

const NS: [usize; 6] = [1, 2, 3, 5, 8, 13];

fn range_cases(c: &mut Ctx, m: &'static Merchant) {
    let values = range_values(c);
    let thorough = c.tier.pick(false, true);
    for (vi, (vname, v)) in values.iter().enumerate() {
        for (ti, ty) in Ty::ALL.into_iter().enumerate() {
            if thorough {
                for (ni, n) in NS.into_iter().enumerate() {
                    let p1 = (vi + ti) % n;
                    range_dispatch(c, m, n, ty, vname, *v, p1);
                    if n > 1 {
                        // a second, different slot
                        range_dispatch(c, m, n, ty, vname, *v, (p1 + 1 + ni % (n - 1)) % n);
                    }
                }
            } else {
                // four tuple lengths per (value, type), rotating so that every length and many
                // slots are reached
                for k in 0..4usize {
                    let n = NS[(vi + ti + [0, 2, 4, 1][k]) % 6];
                    range_dispatch(c, m, n, ty, vname, *v, vi + ti * 3 + k * 5);
                }
            }
        }
    }
}

/// Signature proofs built while one scalar draw of the prover is zero (a zero blinding factor, a zero
/// commitment scalar): unless the draw was the signature randomiser (which gives the all-identity signature,
/// C11's subject) the proof is an honest proof and must verify.
fn scripted_signature_proofs<const N: usize>(c: &mut Ctx) {
    let name = format!("scripted-prover/Sig/N={}", N);
    c.case(&name, |c| {
        let mut rng = c.rng(&name);
        let env = Env::<N>::new(&mut rng);
        let (msg, mname) = message::<N>(&mut rng, 9);
        let m = Message::new(msg);
        let sig = m.sign(&mut rng, &env.kp);
        let mut seed = [0u8; 32];
        rng.fill_bytes(&mut seed);
        let mut dry = crate::srng::ScriptRng::new(seed);
        let _ = SignatureProofBuilder::generate_proof_commitments(&mut dry, Message::new(msg), sig, &[None; N], env.kp.public_key());
        let id1 = crate::wire::g1_identity_bytes();
        for d in dry.draws_of_len(64) {
            let mut r = crate::srng::ScriptRng::new(seed);
            r.inject(d, vec![0u8; 64]);
            let b = SignatureProofBuilder::generate_proof_commitments(&mut r, Message::new(msg), sig, &[None; N], env.kp.public_key());
            if r.consumed != 1 {
                continue;
            }
            let ch = ChallengeBuilder::new().with(&b).finish();
            let p = b.generate_proof_response(ch);
            let degenerate = crate::tracer::trace(&p).ok().and_then(|t| t.fget("blinded_signature/sigma1").ok()).map(|x| x == id1).unwrap_or(true);
            if degenerate {
                c.count("scripted_prover_degenerate_signature(skipped)", 1);
                continue;
            }
            c.eval();
            c.distinct(&format!("{}/zero-draw{}", name, d));
            let prf = Prf::<N>::S(p);
            if prf.verify(&env, ch) {
                c.count("honest_verified[Sig,scripted-prover]", 1);
            } else {
                c.violation(
                    &format!("C10 honest-proof-rejected scripted-prover:zero-draw N={} proof=0:Sig", N),
                    json!({"draw": d, "message_classes": mname, "refused": WHY.with(|w| w.borrow().clone())}),
                );
            }
        }
    });
}

pub fn run(c: &mut Ctx) {
    // a prover that starts its challenge with ChallengeBuilder::new() and a verifier that starts with
    // ChallengeBuilder::default() (or the other way round) must agree
    c.case("constructors/new-vs-default", |c| {
        use zkchannels_crypto::pedersen::PedersenParameters;
        use zkchannels_crypto::proofs::CommitmentProofBuilder;
        let mut rng = c.rng("constructors/new-vs-default");
        for k in 0..c.tier.pick(6, 60) {
            c.eval();
            c.distinct(&format!("constructors/{}", k));
            let params = PedersenParameters::<G1Projective, 3>::new(&mut rng);
            let msg = Message::<3>::random(&mut rng);
            let b = CommitmentProofBuilder::generate_proof_commitments(&mut rng, msg, &[None; 3], &params);
            let prover = ChallengeBuilder::new().with(&b).with(&params).finish();
            let proof = b.generate_proof_response(prover);
            let verifier = ChallengeBuilder::default().with(&proof).with(&params).finish();
            if prover.to_scalar() != verifier.to_scalar() || !proof.verify_knowledge_of_opening(&params, verifier) {
                c.violation("C10 honest-proof-fails constructors=prover-new-verifier-default", json!({"k": k}));
            }
        }
    });
    c.note(
        "rule",
        json!("basic: for N in {1,2,3,5,8,13} x {CommitmentProof<G1>, CommitmentProof<G2>, SignatureProof, SignatureRequestProof} x message variants (every entry 0 / 1 / q-1 / small / random, then rotating mixtures) x every subset of slots with caller-chosen commitment scalars (0, q-1, random) for N<=5 and sampled subsets for N=8,13: builder challenge == proof challenge, proof verifies, r_i == c*m_i + cs_i on every slot. patterns: partial opening, equality, public addition, public product, secret sum inside one proof and across 2-3 proofs of every ordered type pair, across proofs of different lengths, four proofs sharing all scalars, and a four-proof chain with a range constraint under one challenge; shared / public values from the five classes. range: values {0,1,128^k-1,128^k (k=1..8),2^63-1,random} linked to a slot of every proof type. Distinct = distinct (family, types, N, value classes, subset mask or slot). Added later: word-sized values, new() versus default constructors. Every honest proof verified twice and after a trip through its wire form; signature proofs under scripted zero draws."),
    );
    let m = match fixtures::merchant(c.seed, "m0") {
        Ok(m) => m,
        Err(e) => return c.inconclusive(&e),
    };
    verif_hooks::clear();
    scripted_signature_proofs::<1>(c);
    scripted_signature_proofs::<2>(c);
    scripted_signature_proofs::<5>(c);
    basic_cases::<1>(c);
    basic_cases::<2>(c);
    basic_cases::<3>(c);
    basic_cases::<5>(c);
    basic_cases::<8>(c);
    basic_cases::<13>(c);
    within_cases::<1>(c);
    within_cases::<2>(c);
    within_cases::<3>(c);
    within_cases::<5>(c);
    within_cases::<8>(c);
    within_cases::<13>(c);
    across_cases::<1>(c);
    across_cases::<2>(c);
    across_cases::<3>(c);
    across_cases::<5>(c);
    across_cases::<8>(c);
    across_cases::<13>(c);
    cross_len::<1, 5>(c);
    cross_len::<2, 3>(c);
    cross_len::<5, 13>(c);
    cross_len::<8, 1>(c);
    cross_len::<3, 8>(c);
    cross_len::<13, 2>(c);
    conj4_cases::<1>(c, m);
    conj4_cases::<2>(c, m);
    conj4_cases::<3>(c, m);
    conj4_cases::<5>(c, m);
    conj4_cases::<8>(c, m);
    conj4_cases::<13>(c, m);
    range_cases(c, m);
}
