//! C10 — monitor not written yet.
use crate::ctx::Ctx;

pub fn run(c: &mut Ctx) {
    c.inconclusive("C10: monitor not written yet");
}
