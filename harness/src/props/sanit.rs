//! Sanitizer-layer workloads (DESIGN.md I8). These run the same monitors as C15/C16/C17 but on a
//! corpus that the slow tools can execute:
//!
//! * `SAN-SCALAR` — scalar-shaped decoders and the arithmetic API only (no group operations):
//!   meant for Miri, where one G1 decompression costs ~10 s.
//! * `SAN-DECODE` — the C16 corpus of the quick tier restricted to every k-th case
//!   (`--param sample=k`): meant for valgrind memcheck (~50x) and ASan (~2x, sample=1).

use crate::ctx::Ctx;
use crate::props::{c16, c17};
use crate::types::{Codec, TypeEntry};
use crate::tracer::trace;
use crate::wire::{dec, enc};
use bls12_381::Scalar;
use ff::Field;
use serde::{de::DeserializeOwned, Serialize};
use serde_json::json;
use zkabacus_crypto as zk;
use zkchannels_crypto::BlindingFactor;

fn entry<T: Serialize + DeserializeOwned + 'static>(name: &str, v: &T) -> Result<TypeEntry, String> {
    let t = trace(v)?;
    Ok(TypeEntry {
        name: name.to_string(),
        trace: t,
        decode: Box::new(|b: &[u8]| dec::<T>(b).map(|v| enc(&v))),
        group: "scalar-shaped",
        json: serde_json::to_vec(v).map_err(|e| e.to_string())?,
        decode_json: Box::new(|b: &[u8]| serde_json::from_slice::<T>(b).map(|_| ()).map_err(|e| e.to_string())),
    })
}

fn scalar_entries(c: &Ctx) -> Result<Vec<TypeEntry>, String> {
    let mut rng = c.rng("san-scalar");
    let mut v = vec![];
    let s = |rng: &mut rand_chacha::ChaCha20Rng| Scalar::random(rng);
    v.push(entry("codec Scalar", &Codec(s(&mut rng)))?);
    v.push(entry("codec [Scalar;1]", &Codec([s(&mut rng)]))?);
    v.push(entry("codec [Scalar;3]", &Codec([s(&mut rng), s(&mut rng), s(&mut rng)]))?);
    v.push(entry("codec [Scalar;5]", &Codec([s(&mut rng), s(&mut rng), s(&mut rng), s(&mut rng), s(&mut rng)]))?);
    v.push(entry("codec Box<[Scalar;5]>", &Codec(Box::new([s(&mut rng), s(&mut rng), s(&mut rng), s(&mut rng), s(&mut rng)])))?);
    v.push(entry("codec Vec<Scalar>/4", &Codec(vec![s(&mut rng), s(&mut rng), s(&mut rng), s(&mut rng)]))?);
    v.push(entry("codec Vec<Scalar>/0", &Codec(Vec::<Scalar>::new()))?);
    v.push(entry("BlindingFactor", &BlindingFactor::new(&mut rng))?);
    v.push(entry("Nonce", &zk::internal::test_new_nonce(&mut rng))?);
    let pair = zk::internal::test_new_revocation_pair(&mut rng);
    v.push(entry("RevocationLock", &pair.revocation_lock())?);
    v.push(entry("RevocationSecret", &pair.revocation_secret())?);
    v.push(entry("RevocationPair", &pair)?);
    v.push(entry("MerchantBalance", &zk::MerchantBalance::try_new(12345).map_err(|e| format!("{:?}", e))?)?);
    v.push(entry("CustomerBalance", &zk::CustomerBalance::try_new(i64::MAX as u64).map_err(|e| format!("{:?}", e))?)?);
    v.push(entry("PaymentAmount", &zk::PaymentAmount::pay_customer(77).map_err(|e| format!("{:?}", e))?)?);
    v.push(entry("Error::AmountTooLarge", &zk::Error::AmountTooLarge(9))?);
    v.push(entry("Error::InsufficientFunds", &zk::Error::InsufficientFunds)?);
    v.push(entry("CustomerRandomness", &zk::CustomerRandomness::new(&mut rng))?);
    v.push(entry("MerchantRandomness", &zk::MerchantRandomness::new(&mut rng))?);
    v.push(entry("ChannelId", &dec::<zk::ChannelId>(&[7u8; 32])?)?);
    Ok(v)
}

pub fn run_scalar(c: &mut Ctx) {
    c.note("rule", json!("sanitizer layer: scalar-shaped decoders (element codecs for scalars, arrays, boxed arrays, vectors; nonce, revocation pair, balances, amounts, error enum, channel id) under all C16 length-prefix and atom mutations, truncations and a few random strings; plus the C17 constructor / try_add lattice. Executed under an undefined-behaviour interpreter or sanitizer; the monitors are the same as in C16 / C17."));
    let entries = match scalar_entries(c) {
        Ok(v) => v,
        Err(e) => return c.inconclusive(&e),
    };
    for e in &entries {
        let mut rng = c.rng(&format!("mut/{}", e.name));
        let mut muts = c16::len_mutations(e);
        muts.extend(c16::atom_mutations(e, &mut rng, 0));
        muts.extend(c16::shape_mutations(e, &mut rng, 2, 2));
        let name = format!("{}|all", e.name);
        c.case(&name, |c| {
            c.distinct(&format!("{}|honest", e.name));
            if c16::monitored_decode(c, e, "honest", &e.trace.bytes) != Some(true) {
                c.inconclusive(&format!("SAN: honest encoding of {} does not decode", e.name));
            }
            for mu in &muts {
                c.distinct(&format!("{}|{}", e.name, mu.name));
                let _ = c16::monitored_decode(c, e, &mu.name, &mu.bytes);
            }
            c.sample(json!({"type": e.name, "mutations": muts.len()}));
        });
    }
    c.case("arithmetic-lattice", |c| {
        for &v in &c17::lattice_u64() {
            c17::check_constructors(c, v);
        }
        for &a in &c17::lattice_u64() {
            for &b in &c17::lattice_u64() {
                c17::check_try_add(c, a, b);
            }
        }
    });
}

/// The C16 corpus, every k-th case only.
pub fn run_decode_sample(c: &mut Ctx) {
    let k: u64 = c.params.get("sample").and_then(|s| s.parse().ok()).unwrap_or(1);
    c.sample_every = k.max(1);
    c16::run(c);
    c.note("sample_every", json!(k));
}
