//! C07 — `Signature::verify` accepts exactly the Pointcheval-Sanders relation.
//!
//! Oracle: `refs::ps_verify_ref` (sigma1 != 1 and e(sigma1, X~ * prod Y~i^mi) = e(sigma2, g~)),
//! evaluated with `bls12_381::pairing` on atoms read from the wire form of the public key and of
//! the signature. Every call of `Signature::verify` made here is compared with the oracle; on top
//! of that the consequences the property names are checked against a fixed expectation: a
//! signature derived through the API verifies on its message, and no longer verifies after a
//! single-coordinate change, under another key, or after unblinding with a wrong blinding factor;
//! the all-identity signature (reached through the API with a scripted RNG) never verifies.

use crate::ctx::{guard, hex, Ctx};
use crate::props::util::repo_rel;
use crate::refs::{self, ps_pairing_only, ps_verify_ref, q_minus_1, PkAtoms};
use crate::srng::ScriptRng;
use crate::tracer::trace;
use crate::wire::{self, dec, enc};
use bls12_381::{G1Affine, G1Projective, Scalar};
use ff::Field;
use group::Curve;
use rand_core::RngCore;
use serde_json::{json, Value};
use zkchannels_crypto::{
    pointcheval_sanders::{BlindedSignature, KeyPair, PublicKey, Signature},
    proofs::{ChallengeBuilder, SignatureRequestProofBuilder},
    BlindingFactor, Message,
};

// ------------------------------------------------------------------------------------------
// shared input generators (also used by the C08 monitor)
// ------------------------------------------------------------------------------------------

pub(crate) const EDGE_NAMES: [&str; 9] = ["0", "1", "q-1", "small", "2^63-1", "2^63", "random", "2^63|r", "2^64-1"];

/// One entry of EDGE = {0, 1, q-1, small, 2^63-1, 2^63, random, a 64-bit value with bit 63 set, 2^64-1}.
pub(crate) fn edge_scalar(class: usize, rng: &mut impl RngCore) -> Scalar {
    match class % 9 {
        0 => Scalar::zero(),
        1 => Scalar::one(),
        2 => q_minus_1(),
        3 => Scalar::from(2 + (rng.next_u32() % 65_534) as u64),
        4 => Scalar::from(i64::MAX as u64),
        5 => Scalar::from(1u64 << 63),
        6 => Scalar::random(&mut *rng),
        7 => Scalar::from(rng.next_u64() | (1 << 63)),
        _ => Scalar::from(u64::MAX),
    }
}

pub(crate) struct Msg<const N: usize> {
    pub vals: [Scalar; N],
    pub classes: [usize; N],
    /// the per-coordinate classes, e.g. "0.q-1.random"
    pub name: String,
}

/// Message number `mi`: 0..9 all coordinates of one EDGE class; 9..18 the EDGE classes laid out
/// cyclically from a shifting start; from 18 on every coordinate draws its class at random.
pub(crate) fn edge_message<const N: usize>(mi: usize, rng: &mut impl RngCore) -> Msg<N> {
    let mut vals = [Scalar::zero(); N];
    let mut classes = [0usize; N];
    for i in 0..N {
        let cl = if mi < 9 {
            mi
        } else if mi < 18 {
            (i + mi - 9) % 9
        } else {
            (rng.next_u32() % 9) as usize
        };
        classes[i] = cl;
        vals[i] = edge_scalar(cl, rng);
    }
    let name = classes.iter().map(|c| EDGE_NAMES[*c]).collect::<Vec<_>>().join(".");
    Msg { vals, classes, name }
}

pub(crate) fn msg_hex(m: &[Scalar]) -> Vec<String> {
    m.iter().map(|s| hex(&s.to_bytes())).collect()
}

pub(crate) const BF_NAMES: [&str; 4] = ["0", "1", "q-1", "random"];

/// A blinding factor with a chosen scalar, obtained the way a program can obtain one: from the wire.
pub(crate) fn bf_from_scalar(s: &Scalar) -> Result<BlindingFactor, String> {
    dec::<BlindingFactor>(&s.to_bytes())
}

pub(crate) fn bf_of_class(class: usize, rng: &mut (impl RngCore + rand_core::CryptoRng)) -> Result<BlindingFactor, String> {
    match class % 4 {
        0 => bf_from_scalar(&Scalar::zero()),
        1 => bf_from_scalar(&Scalar::one()),
        2 => bf_from_scalar(&q_minus_1()),
        _ => Ok(BlindingFactor::new(rng)),
    }
}

/// Deterministic key pair number `k` for tuple length N (the same in every case that names it).
pub(crate) fn keypair<const N: usize>(c: &Ctx, k: usize, other: bool) -> KeyPair<N> {
    let mut rng = c.rng(&format!("key/N={}/{}{}", N, k, if other { "/other" } else { "" }));
    KeyPair::<N>::new(&mut rng)
}

pub(crate) struct SigAtoms {
    pub s1: G1Affine,
    pub s2: G1Affine,
    pub b1: Vec<u8>,
    pub b2: Vec<u8>,
}

/// sigma1 / sigma2 read from the wire form of a signature
pub(crate) fn sig_atoms(sig: &Signature) -> Result<SigAtoms, String> {
    let t = trace(sig)?;
    let b1 = t.fget("sigma1")?;
    let b2 = t.fget("sigma2")?;
    let s1 = refs::g1(&b1).ok_or("C07: sigma1 of an in-memory signature does not decompress")?;
    let s2 = refs::g1(&b2).ok_or("C07: sigma2 of an in-memory signature does not decompress")?;
    Ok(SigAtoms { s1, s2, b1, b2 })
}

// ------------------------------------------------------------------------------------------
// the comparison
// ------------------------------------------------------------------------------------------

struct Env<'a, const N: usize> {
    pk: &'a PublicKey<N>,
    pka: &'a PkAtoms,
}

/// Compare `Signature::verify` with the oracle on one triple. `class` names the kind of triple
/// (counter and signature key); `expect` is the verdict the property statement itself fixes for
/// this class, if any. Returns the library's answer.
fn compare<const N: usize>(
    c: &mut Ctx,
    env: &Env<N>,
    class: &str,
    sig: &Signature,
    m: &[Scalar; N],
    expect: Option<bool>,
    info: &Value,
) -> Option<bool> {
    let atoms = match sig_atoms(sig) {
        Ok(a) => a,
        Err(e) => {
            c.inconclusive(&e);
            return None;
        }
    };
    let oracle = ps_verify_ref(env.pka, &atoms.s1, &atoms.s2, m);
    let msg = Message::new(*m);
    let lib = guard(|| sig.verify(env.pk, &msg));
    c.eval();
    let detail = |lib: Value| {
        json!({
            "N": N, "class": class, "library": lib, "oracle": oracle,
            "sigma1": hex(&atoms.b1), "sigma2": hex(&atoms.b2), "message": msg_hex(m),
            "public_key": hex(&enc(env.pk)), "info": info,
        })
    };
    let lib = match lib {
        Ok(v) => v,
        Err(p) => {
            c.violation(
                &format!("C07 verify-panicked N={} case={} loc={}", N, class, repo_rel(&p.location)),
                detail(json!(format!("panic: {}", p.message))),
            );
            return None;
        }
    };
    c.count(&format!("{}:{}", class, if lib { "accepted" } else { "rejected" }), 1);
    // the public well-formedness predicate is the first conjunct of the relation: sigma1 != identity,
    // nothing more (sigma2 = identity is a legitimate signature)
    let wf_ref = atoms.b1 != crate::wire::g1_identity_bytes();
    if sig.is_well_formed() != wf_ref {
        c.violation(&format!("C07 is_well_formed-disagrees-with-relation N={} case={}", N, class), detail(json!({"is_well_formed": sig.is_well_formed(), "sigma1_is_identity": !wf_ref})));
    }
    if lib != oracle {
        c.violation(&format!("C07 verify-disagrees-with-relation N={} case={}", N, class), detail(json!(lib)));
    } else if let Some(e) = expect {
        if lib != e {
            let what = if e { "derived-signature-rejected" } else { "accepted-what-must-not-verify" };
            c.violation(&format!("C07 {} N={} case={}", what, N, class), detail(json!(lib)));
        }
    }
    Some(lib)
}

/// Honest blind-signing path: request proof -> verified blinded message -> blind signature.
fn blind_sign_path<const N: usize>(
    c: &mut Ctx,
    rng: &mut (impl RngCore + rand_core::CryptoRng),
    kp: &KeyPair<N>,
    m: &[Scalar; N],
) -> Option<(BlindedSignature, BlindingFactor)> {
    let builder = SignatureRequestProofBuilder::<N>::generate_proof_commitments(&mut *rng, Message::new(*m), &[None; N], kp.public_key());
    let challenge = ChallengeBuilder::new().with(&builder).finish();
    let bf = builder.message_blinding_factor();
    let proof = builder.generate_proof_response(challenge);
    match proof.verify_knowledge_of_opening(kp.public_key(), challenge) {
        Some(vbm) => Some((vbm.blind_sign(kp, &mut *rng), bf)),
        None => {
            // completeness of the request proof is C08 / C10; here the path cannot be observed
            c.inconclusive("C07: honest signature request did not verify, blind-sign path unobservable");
            None
        }
    }
}

fn chain_case<const N: usize>(c: &mut Ctx, name: &str, k: usize, mi: usize) {
    let mut rng = c.rng(name);
    let kp = keypair::<N>(c, k, false);
    let kp2 = keypair::<N>(c, k, true);
    let (pka, pka2) = match (PkAtoms::from_value(kp.public_key()), PkAtoms::from_value(kp2.public_key())) {
        (Ok(a), Ok(b)) => (a, b),
        (Err(e), _) | (_, Err(e)) => return c.inconclusive(&e),
    };
    if pka.n() != N || pka2.n() != N {
        return c.inconclusive("C07: public key atoms do not have N entries");
    }
    let env = Env { pk: kp.public_key(), pka: &pka };
    let env2 = Env { pk: kp2.public_key(), pka: &pka2 };
    let m = edge_message::<N>(mi, &mut rng);
    let msg = Message::new(m.vals);
    let thorough = c.tier.pick(false, true);

    // --- derivation chain
    let mut chain: Vec<String> = vec![];
    let mut sig: Signature;
    if (mi + k) % 2 == 1 {
        let Some((bs, bf)) = blind_sign_path(c, &mut rng, &kp, &m.vals) else { return };
        sig = bs.unblind(bf);
        chain.push("blind-sign>unblind".into());
        // the same blind signature, wrong factor
        let info = json!({"chain": chain, "blinding_factor": hex(&bf.as_scalar().to_bytes())});
        match bf_from_scalar(&(bf.as_scalar() + Scalar::one())) {
            Ok(w) => {
                let wrong = bs.unblind(w);
                c.distinct(&format!("N={}/key={}/msg={}/blind-sign/wrong-bf+1", N, k, m.name));
                let _ = compare(c, &env, "blind-sign-wrong-blinding-factor", &wrong, &m.vals, Some(false), &info);
            }
            Err(e) => c.inconclusive(&e),
        }
    } else {
        sig = msg.sign(&mut rng, &kp);
        chain.push("sign".into());
    }
    c.distinct(&format!("N={}/key={}/msg={}/chain={}/right", N, k, m.name, chain.join(">")));
    let _ = compare(c, &env, "right-message", &sig, &m.vals, Some(true), &json!({"chain": chain}));

    let nsteps = (rng.next_u32() % 4) as usize;
    for _ in 0..nsteps {
        match rng.next_u32() % 3 {
            0 => {
                sig.randomize(&mut rng);
                chain.push("randomize".into());
            }
            s => {
                let bfc = (rng.next_u32() % 4) as usize;
                let bf = match bf_of_class(bfc, &mut rng) {
                    Ok(b) => b,
                    Err(e) => return c.inconclusive(&e),
                };
                let mut bs = sig.blind_and_randomize(&mut rng, bf);
                if s == 2 {
                    bs.randomize(&mut rng);
                    chain.push(format!("blind(bf={})>randomize>unblind", BF_NAMES[bfc]));
                } else {
                    chain.push(format!("blind(bf={})>unblind", BF_NAMES[bfc]));
                }
                sig = bs.unblind(bf);
            }
        }
        c.distinct(&format!("N={}/key={}/msg={}/chain={}/right", N, k, m.name, chain.join(">")));
        let _ = compare(c, &env, "right-message", &sig, &m.vals, Some(true), &json!({"chain": chain}));
    }
    let chain_s = chain.join(">");
    let info = json!({"chain": chain, "message_classes": m.name});
    let key = format!("N={}/key={}/msg={}/chain={}", N, k, m.name, chain_s);
    c.count(&format!("chains_of_length_{}", chain.len()), 1);
    c.count(&format!("chains_starting_with_{}", chain[0]), 1);
    if mi < 2 {
        if let Ok(a) = sig_atoms(&sig) {
            c.sample(json!({"kind": "derived signature", "N": N, "key": k, "message_classes": m.name, "chain": chain_s,
                            "sigma1": hex(&a.b1), "sigma2": hex(&a.b2), "message": msg_hex(&m.vals)}));
        }
    }

    // --- every single-coordinate change of the message
    for j in 0..N {
        let mut kinds: Vec<&str> = vec!["+1", "random"];
        if thorough || j == mi % N {
            kinds.push("other-edge");
            kinds.push("-1");
        }
        for kind in kinds {
            let mut m2 = m.vals;
            m2[j] = match kind {
                "+1" => m.vals[j] + Scalar::one(),
                "-1" => m.vals[j] - Scalar::one(),
                "random" => Scalar::random(&mut rng),
                _ => edge_scalar(m.classes[j] + 1 + (rng.next_u32() % 5) as usize, &mut rng),
            };
            if m2[j] == m.vals[j] {
                continue;
            }
            c.distinct(&format!("{}/coord={}/{}", key, j, kind));
            let info = json!({"chain": chain, "coordinate": j, "change": kind});
            let _ = compare(c, &env, &format!("single-coordinate-change({})", kind), &sig, &m2, Some(false), &info);
        }
    }
    // two coordinates exchanged (not a single-coordinate change: the oracle alone decides)
    if N >= 2 {
        let j = mi % (N - 1);
        if m.vals[j] != m.vals[j + 1] {
            let mut m2 = m.vals;
            m2.swap(j, j + 1);
            c.distinct(&format!("{}/swap={}", key, j));
            let _ = compare(c, &env, "two-coordinates-exchanged", &sig, &m2, None, &info);
        }
    }

    // --- another key
    c.distinct(&format!("{}/other-key", key));
    let _ = compare(c, &env2, "other-key", &sig, &m.vals, Some(false), &info);

    // --- blinding factors: the matching one and wrong ones
    let bfc = (mi / 2) % 4;
    let bf = match bf_of_class(bfc, &mut rng) {
        Ok(b) => b,
        Err(e) => return c.inconclusive(&e),
    };
    let bfs = bf.as_scalar();
    let bs = sig.blind_and_randomize(&mut rng, bf);
    let binfo = json!({"chain": chain, "blinding_factor": hex(&bfs.to_bytes()), "bf_class": BF_NAMES[bfc]});
    c.distinct(&format!("{}/bf={}/matching", key, BF_NAMES[bfc]));
    let _ = compare(c, &env, "unblind-matching-blinding-factor", &bs.unblind(bf), &m.vals, Some(true), &binfo);
    let wrongs = [
        ("+1", bfs + Scalar::one()),
        ("random", Scalar::random(&mut rng)),
        ("zero", Scalar::zero()),
        ("negated", -bfs),
    ];
    for (wname, ws) in wrongs.iter() {
        if *ws == bfs {
            continue;
        }
        let w = match bf_from_scalar(ws) {
            Ok(w) => w,
            Err(e) => return c.inconclusive(&e),
        };
        c.distinct(&format!("{}/bf={}/wrong={}", key, BF_NAMES[bfc], wname));
        let _ = compare(c, &env, &format!("unblind-wrong-blinding-factor({})", wname), &bs.unblind(w), &m.vals, Some(false), &binfo);
    }
}

// ------------------------------------------------------------------------------------------
// signatures decoded from attacker bytes
// ------------------------------------------------------------------------------------------

fn sig_bytes(s1: &G1Affine, s2: &G1Affine) -> Vec<u8> {
    let mut b = s1.to_compressed().to_vec();
    b.extend_from_slice(&s2.to_compressed());
    b
}

/// secret scalars of a key pair, read from its wire form (the harness plays a forger who knows them)
fn secret_scalars<const N: usize>(kp: &KeyPair<N>) -> Result<(Scalar, Vec<Scalar>), String> {
    let t = trace(kp)?;
    let x = refs::sc(&t.fget("sk/x")?).ok_or("C07: sk/x is not a canonical scalar")?;
    let mut ys = vec![];
    for i in 0..N {
        ys.push(refs::sc(&t.fget(&format!("sk/ys/[{}]", i))?).ok_or("C07: sk/ys entry is not a canonical scalar")?);
    }
    Ok((x, ys))
}

fn attacker_case<const N: usize>(c: &mut Ctx, name: &str, k: usize) {
    let mut rng = c.rng(name);
    let kp = keypair::<N>(c, k, false);
    let pka = match PkAtoms::from_value(kp.public_key()) {
        Ok(a) => a,
        Err(e) => return c.inconclusive(&e),
    };
    let env = Env { pk: kp.public_key(), pka: &pka };
    let secrets = match secret_scalars(&kp) {
        Ok(s) => s,
        Err(e) => return c.inconclusive(&e),
    };
    let reps = c.tier.pick(1usize, 4);
    let mis: Vec<usize> = if c.tier.pick(true, false) { vec![0, 2, 7, 11, 18] } else { (0..20).collect() };
    for &mi in &mis {
        for rep in 0..reps {
            let m = edge_message::<N>(mi, &mut rng);
            let msg = Message::new(m.vals);
            let key = format!("attacker/N={}/key={}/msg={}/rep={}", N, k, m.name, rep);
            let honest = msg.sign(&mut rng, &kp);
            let ha = match sig_atoms(&honest) {
                Ok(a) => a,
                Err(e) => return c.inconclusive(&e),
            };
            // x + sum y_i m_i
            let mut t = secrets.0;
            for i in 0..N {
                t += secrets.1[i] * m.vals[i];
            }
            let p = wire::rand_g1(&mut rng);
            let r = Scalar::random(&mut rng);
            let xr = Scalar::random(&mut rng);
            let id = G1Affine::identity();
            let mul = |a: &G1Affine, s: &Scalar| (G1Projective::from(*a) * *s).to_affine();
            // (class, bytes, expectation fixed by the statement or by construction)
            let cands: Vec<(&str, Vec<u8>, Option<bool>)> = vec![
                ("decoded:honest-bytes", enc(&honest), Some(true)),
                ("decoded:rerandomized-outside-the-api", sig_bytes(&mul(&ha.s1, &r), &mul(&ha.s2, &r)), Some(true)),
                ("decoded:forged-with-secret-key(P,(x+sum yi mi)P)", sig_bytes(&p, &mul(&p, &t)), Some(true)),
                ("decoded:(P,(x+sum yi mi+1)P)", sig_bytes(&p, &mul(&p, &(t + Scalar::one()))), Some(false)),
                ("decoded:(P,xP)-random-x", sig_bytes(&p, &mul(&p, &xr)), None),
                ("decoded:random-points", sig_bytes(&wire::rand_g1(&mut rng), &wire::rand_g1(&mut rng)), None),
                ("decoded:sigma2-identity", sig_bytes(&p, &id), None),
                ("decoded:honest-sigma2-negated", sig_bytes(&ha.s1, &(-ha.s2)), None),
                ("decoded:honest-halves-exchanged", sig_bytes(&ha.s2, &ha.s1), None),
                ("decoded:sigma1-identity", sig_bytes(&id, &ha.s2), Some(false)),
                ("decoded:all-identity", sig_bytes(&id, &id), Some(false)),
            ];
            for (class, bytes, expect) in cands {
                let info = json!({"bytes": hex(&bytes), "message_classes": m.name});
                match dec::<Signature>(&bytes) {
                    Ok(sig) => {
                        c.count(&format!("{}:decodes", class), 1);
                        c.distinct(&format!("{}/{}", key, class));
                        let _ = compare(c, &env, class, &sig, &m.vals, expect, &info);
                    }
                    Err(_) => {
                        // refusing to decode is never an alarm here (decode-time invariants are C15)
                        c.count(&format!("{}:refused-at-decode", class), 1);
                        if expect == Some(true) {
                            c.inconclusive(&format!("C07: positive control {} does not decode", class));
                        }
                    }
                }
            }
            // a message whose exponent x + sum y_i m_i is zero: the honest signature on it is (h, 1) with
            // h != 1, which satisfies the relation and must verify (sigma2 may be the identity)
            {
                let j = (mi + rep) % N;
                let mut mz = m.vals;
                let inv = secrets.1[j].invert();
                if bool::from(inv.is_some()) {
                    let mut others = secrets.0;
                    for i in 0..N {
                        if i != j {
                            others += secrets.1[i] * mz[i];
                        }
                    }
                    mz[j] = -(others * inv.unwrap());
                    let msgz = Message::new(mz);
                    let info = json!({"message_classes": format!("{} with coordinate {} solving x+sum=0", m.name, j)});
                    // by signing
                    let sz = msgz.sign(&mut rng, &kp);
                    c.distinct(&format!("{}/zero-exponent/signed", key));
                    let _ = compare(c, &env, "zero-exponent-message:signed", &sz, &mz, Some(true), &info);
                    // decoded (P, identity)
                    if let Ok(sd) = dec::<Signature>(&sig_bytes(&p, &id)) {
                        c.distinct(&format!("{}/zero-exponent/decoded", key));
                        let _ = compare(c, &env, "zero-exponent-message:decoded(P,1)", &sd, &mz, Some(true), &info);
                    }
                    c.count("zero-exponent-messages", 1);
                }
            }
            // signing under a zero window at each of its draws: whatever the stream, the signature
            // produced by signing verifies on its message
            {
                let mut seed = [0u8; 32];
                rng.fill_bytes(&mut seed);
                let mut dry = ScriptRng::new(seed);
                let _ = msg.sign(&mut dry, &kp);
                for d in 0..dry.draws() {
                    for width in 1..=2usize {
                        if d + width > dry.draws() {
                            continue;
                        }
                        let mut sr = ScriptRng::new(seed);
                        for w in 0..width {
                            sr.inject(d + w, vec![0u8; dry.log[d + w].len]);
                        }
                        let sg = match guard(|| msg.sign(&mut sr, &kp)) {
                            Ok(x) => x,
                            Err(pn) => {
                                c.violation(&format!("C07 sign-panicked N={} case=zero-window loc={}", N, repo_rel(&pn.location)), json!({"draw": d, "panic": pn.message}));
                                continue;
                            }
                        };
                        c.distinct(&format!("{}/sign-zero-window/{}x{}", key, d, width));
                        let info = json!({"zero_window": [d, width], "draw_lengths": dry.log.iter().map(|x| x.len).collect::<Vec<_>>()});
                        let _ = compare(c, &env, "signed-under-zero-window", &sg, &m.vals, Some(true), &info);
                    }
                }
            }
            if rep == 0 && mi == 9 {
                c.sample(json!({"kind": "attacker bytes", "N": N, "key": k, "message_classes": m.name,
                                "forged_with_secret_key": hex(&sig_bytes(&p, &mul(&p, &t)))}));
            }
        }
    }
}

/// Keys generated under crafted randomness: a zero window at each draw of KeyPair::new. Whatever the
/// stream, signatures under the generated key must verify on their message and must stop verifying
/// once a single coordinate of the message changes.
fn crafted_key_case<const N: usize>(c: &mut Ctx, name: &str) {
    let mut rng = c.rng(name);
    let mut seed = [0u8; 32];
    rng.fill_bytes(&mut seed);
    let mut dry = ScriptRng::new(seed);
    let _ = KeyPair::<N>::new(&mut dry);
    for d in 0..dry.draws() {
        for width in 1..=2usize {
            if d + width > dry.draws() {
                continue;
            }
            let mut sr = ScriptRng::new(seed);
            for w in 0..width {
                sr.inject(d + w, vec![0u8; dry.log[d + w].len]);
            }
            let kp = match guard(|| KeyPair::<N>::new(&mut sr)) {
                Ok(k) => k,
                Err(p) => {
                    c.violation(&format!("C07 keygen-panicked N={} case=zero-window loc={}", N, repo_rel(&p.location)), json!({"draw": d, "panic": p.message}));
                    continue;
                }
            };
            let pka = match PkAtoms::from_value(kp.public_key()) {
                Ok(a) => a,
                Err(e) => {
                    // e.g. an identity element in the key: the reference cannot even read it
                    c.violation(&format!("C07 generated-key-unreadable N={} case=zero-window", N), json!({"draw": d, "width": width, "error": e}));
                    continue;
                }
            };
            let env = Env { pk: kp.public_key(), pka: &pka };
            let m = edge_message::<N>(18 + d, &mut rng);
            let sig = Message::new(m.vals).sign(&mut rng, &kp);
            let info = json!({"key_generated_under_zero_window": [d, width], "message_classes": m.name});
            c.distinct(&format!("crafted-key/N={}/{}x{}", N, d, width));
            let _ = compare(c, &env, "crafted-key:right-message", &sig, &m.vals, Some(true), &info);
            for j in 0..N {
                let mut m2 = m.vals;
                m2[j] += Scalar::one();
                let _ = compare(c, &env, "crafted-key:single-coordinate-change", &sig, &m2, Some(false), &info);
            }
        }
    }
}

// ------------------------------------------------------------------------------------------
// degenerate signatures produced through the API with chosen randomness
// ------------------------------------------------------------------------------------------

/// Run `f` once with an unscripted ScriptRng to learn where it draws 64-byte scalar samples,
/// then once per such draw with 64 zero bytes injected there (Scalar::random -> 0).
fn with_zero_scalar<T>(c: &mut Ctx, seed: [u8; 32], what: &str, f: impl Fn(&mut ScriptRng) -> T) -> (T, Vec<T>) {
    let mut dry = ScriptRng::new(seed);
    let plain = f(&mut dry);
    let mut out = vec![];
    for idx in dry.draws_of_len(64) {
        let mut s = ScriptRng::new(seed);
        s.inject(idx, vec![0u8; 64]);
        let v = f(&mut s);
        if s.consumed != 1 || s.misaligned != 0 {
            c.inconclusive(&format!("C07: scripted zero sample not consumed in {}", what));
            continue;
        }
        out.push(v);
    }
    if out.is_empty() {
        c.inconclusive(&format!("C07: {} draws no 64-byte scalar sample, degenerate signature unreachable", what));
    }
    (plain, out)
}

fn degenerate_case<const N: usize>(c: &mut Ctx, name: &str, k: usize) {
    let mut rng = c.rng(name);
    let kp = keypair::<N>(c, k, false);
    let pka = match PkAtoms::from_value(kp.public_key()) {
        Ok(a) => a,
        Err(e) => return c.inconclusive(&e),
    };
    let env = Env { pk: kp.public_key(), pka: &pka };
    let m = edge_message::<N>(9 + k, &mut rng);
    let msg = Message::new(m.vals);
    let honest = msg.sign(&mut rng, &kp);
    let mut seed = [0u8; 32];
    rng.fill_bytes(&mut seed);

    // messages on which the degenerate signatures are tried: the signed one, all EDGE constants, mixed
    let mut tries: Vec<(String, [Scalar; N])> = vec![("signed-message".into(), m.vals)];
    for mi in [0usize, 1, 2, 5, 6, 7, 18] {
        let t = edge_message::<N>(mi, &mut rng);
        tries.push((t.name.clone(), t.vals));
    }

    let mut produced: Vec<(&str, Signature, Signature)> = vec![]; // (route, unscripted twin, scripted)

    // route 1: Signature::randomize with r = 0
    let (plain, scripted) = with_zero_scalar(c, seed, "Signature::randomize", |r| {
        let mut s = honest;
        s.randomize(r);
        s
    });
    for s in scripted {
        produced.push(("randomize(r=0)", plain, s));
    }
    // route 2: blind_and_randomize with r = 0, then unblind
    let bf = BlindingFactor::new(&mut rng);
    let (plain, scripted) = with_zero_scalar(c, seed, "Signature::blind_and_randomize", |r| honest.blind_and_randomize(r, bf).unblind(bf));
    for s in scripted {
        produced.push(("blind_and_randomize(r=0)>unblind", plain, s));
    }
    // route 3: BlindedSignature::new with u = 0, then unblind with the requester's factor
    let builder = SignatureRequestProofBuilder::<N>::generate_proof_commitments(&mut rng, Message::new(m.vals), &[None; N], kp.public_key());
    let challenge = ChallengeBuilder::new().with(&builder).finish();
    let rbf = builder.message_blinding_factor();
    let proof = builder.generate_proof_response(challenge);
    match proof.verify_knowledge_of_opening(kp.public_key(), challenge) {
        Some(vbm) => {
            let (plain, scripted) = with_zero_scalar(c, seed, "BlindedSignature::new", |r| BlindedSignature::new(&kp, r, vbm.clone()).unblind(rbf));
            for s in scripted {
                produced.push(("BlindedSignature::new(u=0)>unblind", plain, s));
            }
            let (plain, scripted) = with_zero_scalar(c, seed, "VerifiedBlindedMessage::blind_sign", |r| vbm.clone().blind_sign(&kp, r).unblind(rbf));
            for s in scripted {
                produced.push(("blind_sign(u=0)>unblind", plain, s));
            }
        }
        None => c.inconclusive("C07: honest signature request did not verify, blind-sign route unobservable"),
    }

    for (route, plain, deg) in produced {
        let info = json!({"route": route});
        // positive twin: the same call with the unscripted stream verifies on the message
        c.distinct(&format!("degenerate/N={}/key={}/{}/twin", N, k, route));
        let _ = compare(c, &env, "degenerate-route:unscripted-twin", &plain, &m.vals, Some(true), &info);
        let a = match sig_atoms(&deg) {
            Ok(a) => a,
            Err(e) => {
                c.inconclusive(&e);
                continue;
            }
        };
        let all_identity = bool::from(a.s1.is_identity()) && bool::from(a.s2.is_identity());
        if all_identity {
            c.count(&format!("all-identity-signature-reached-via:{}", route), 1);
        } else {
            // the route no longer yields the degenerate value: nothing to alarm about, but the
            // class the property names was not observed on this route
            c.inconclusive(&format!("C07: zero randomness in {} did not give the all-identity signature", route));
        }
        // further API steps on the degenerate value keep it degenerate; all must be rejected
        let mut again = deg;
        again.randomize(&mut rng);
        let again2 = deg.blind_and_randomize(&mut rng, bf).unblind(bf);
        for (vname, v) in [("as-produced", deg), ("then-randomize", again), ("then-blind>unblind", again2)] {
            for (tname, t) in &tries {
                if vname != "as-produced" && tname != "signed-message" {
                    continue;
                }
                c.distinct(&format!("degenerate/N={}/key={}/{}/{}/msg={}", N, k, route, vname, tname));
                let class = if all_identity { "all-identity-signature" } else { "zero-randomness-signature" };
                let _ = compare(c, &env, class, &v, t, if all_identity { Some(false) } else { None }, &json!({"route": route, "variant": vname}));
                if all_identity && vname == "as-produced" {
                    // what makes the well-formedness conjunct matter: the pairing equation alone holds
                    if ps_pairing_only(&pka, &a.s1, &a.s2, t) {
                        c.count("all-identity-signature:pairing-equation-alone-holds", 1);
                    }
                }
            }
        }
        if route == "randomize(r=0)" {
            c.sample(json!({"kind": "degenerate signature through the API", "N": N, "route": route,
                            "sigma1": hex(&a.b1), "sigma2": hex(&a.b2)}));
        }
    }
}

fn run_n<const N: usize>(c: &mut Ctx, keys: usize, msgs: usize) {
    for k in 0..keys {
        for mi in 0..msgs {
            let name = format!("chain/N={}/key={}/msg={}", N, k, mi);
            c.case(&name, |c| chain_case::<N>(c, &name, k, mi));
        }
        let name = format!("attacker/N={}/key={}", N, k);
        c.case(&name, |c| attacker_case::<N>(c, &name, k));
        let name = format!("degenerate/N={}/key={}", N, k);
        c.case(&name, |c| degenerate_case::<N>(c, &name, k));
    }
    let name = format!("crafted-key/N={}", N);
    c.case(&name, |c| crafted_key_case::<N>(c, &name));
}

pub fn run(c: &mut Ctx) {
    c.note(
        "rule",
        json!("For every N in {1,2,3,5,8,13} and every key pair k: (a) chain cases, one per message number: message entries from EDGE={0,1,q-1,small,2^63-1,2^63,random,2^63|r,2^64-1} (numbers 0-8 constant class, 9-17 cyclic layouts, 18+ random class per coordinate); the signature starts from sign (message number + key number even) or request-proof -> blind_sign -> unblind (odd), followed by 0-3 random steps of randomize / blind_and_randomize(bf in {0,1,q-1,random}) [-> BlindedSignature::randomize] -> unblind, verified after every step; the final signature is compared on the right message, on every coordinate changed by +1 and to a random value (plus -1 / another EDGE value on one coordinate; all coordinates in the thorough tier), on two exchanged coordinates, under a second key, and after blinding again and unblinding with the matching factor and with wrong ones (+1, random, 0, negated). (b) attacker cases: signatures decoded from bytes (honest bytes, re-randomised outside the API, forged with the secret scalars read from the key pair's wire form, off by one, (P,xP), random points, sigma2 = identity, negated / exchanged halves, sigma1 = identity and all-identity which must not decode). (c) degenerate cases: ScriptRng returns 64 zero bytes at the scalar draw of randomize / blind_and_randomize / BlindedSignature::new / blind_sign, the resulting all-identity signature is tried on seven messages and after further API steps, next to its unscripted twin. Every verify call is compared with ps_verify_ref on atoms read from the wire. Distinct = (N, key, per-coordinate message classes, derivation chain, check) tuple. Added later: zero-exponent messages, signing under zero windows, a crafted-key case. Word-sized message entries; is_well_formed compared with its definition."),
    );
    let keys = c.tier.pick(3usize, 10);
    let msgs = c.tier.pick(24usize, 80);
    run_n::<1>(c, keys, msgs);
    run_n::<2>(c, keys, msgs);
    run_n::<3>(c, keys, msgs);
    run_n::<5>(c, keys, msgs);
    run_n::<8>(c, keys, msgs);
    run_n::<13>(c, keys, msgs);
}
