//! Property monitors C01–C20.

use crate::ctx::Ctx;

pub mod c01;
pub mod c02;
pub mod c03;
pub mod c04;
pub mod c05;
pub mod c06;
pub mod c07;
pub mod c08;
pub mod c09;
pub mod c10;
pub mod c11;
pub mod c12;
pub mod c13;
pub mod c14;
pub mod c15;
pub mod c16;
pub mod c17;
pub mod c18;
pub mod c19;
pub mod c20;
pub mod sanit;
pub mod util;

pub fn run(c: &mut Ctx) -> bool {
    match c.prop.as_str() {
        "C01" => c01::run(c),
        "C02" => c02::run(c),
        "C03" => c03::run(c),
        "C04" => c04::run(c),
        "C05" => c05::run(c),
        "C06" => c06::run(c),
        "C07" => c07::run(c),
        "C08" => c08::run(c),
        "C09" => c09::run(c),
        "C10" => c10::run(c),
        "C11" => c11::run(c),
        "C12" => c12::run(c),
        "C13" => c13::run(c),
        "C14" => c14::run(c),
        "C15" => c15::run(c),
        "C16" => c16::run(c),
        "C17" => c17::run(c),
        "C18" => c18::run(c),
        "C19" => c19::run(c),
        "C20" => c20::run(c),
        "SAN-SCALAR" => sanit::run_scalar(c),
        "SAN-DECODE" => sanit::run_decode_sample(c),
        "selfcheck" => selfcheck(c),
        _ => return false,
    }
    true
}

/// Harness self-check: tracer agrees with bincode on representative values.
fn selfcheck(c: &mut Ctx) {
    use crate::fixtures;
    use crate::tracer::trace;
    c.case("tracer", |c| {
        let m = match fixtures::merchant(c.seed, "m0") {
            Ok(m) => m,
            Err(e) => {
                c.inconclusive(&e);
                return;
            }
        };
        let t = trace(&m.ccfg).unwrap();
        println!("customer config: {} bytes, {} atoms", t.bytes.len(), t.atoms.len());
        for a in t.atoms.iter().take(12) {
            println!("  {:5} {:3} {:5} {}  | {}", a.offset, a.len, a.kind.name(), a.path, a.fpath);
        }
        let mut rng = c.rng("s");
        let mut s = crate::session::Sess::open(m, &mut rng, 10, 1000, b"ctx").unwrap();
        s.pay(&mut rng, crate::session::amount(3).unwrap(), b"ctx2").unwrap().unwrap();
        println!("stage {} balances {:?} ledger {:?}", s.stage.name(), s.stage.balances(), s.ledger);
        for r in &s.log {
            println!("  {} {} {}B", r.dir, r.kind, r.bytes.len());
        }
        let pp = s.log.iter().find(|r| r.kind == "pay_proof").unwrap();
        let p: zkabacus_crypto::PayProof = crate::wire::dec(&pp.bytes).unwrap();
        let t = trace(&p).unwrap();
        println!("pay proof: {} bytes, {} atoms", t.bytes.len(), t.atoms.len());
        for a in t.atoms.iter().take(30) {
            println!("  {:5} {:3} {:5} {}", a.offset, a.len, a.kind.name(), a.fpath);
        }
        if let crate::session::Stage::Ready(r) = &s.stage {
            let t = trace(r).unwrap();
            for a in t.atoms.iter() {
                println!("  {:5} {:3} {:5} {} | {}", a.offset, a.len, a.kind.name(), a.fpath, a.path);
            }
        }
    });
}
