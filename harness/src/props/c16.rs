//! C16 — decoding untrusted bytes never panics, aborts or over-allocates.
//!
//! Every mutation of every honest encoding is one case (BEGIN/END in the progress log), so that
//! a worker death is attributed to the exact input by the supervisor. Inside a case the decode
//! runs under `guard` (panic hook) and the tracking allocator.

use crate::alloc;
use crate::ctx::{guard, hex, Ctx};
use crate::props::util::*;
use crate::tracer::{Atom, Kind};
use crate::types::{self, TypeEntry};
use crate::wire;
use rand_core::RngCore;
use serde_json::json;

pub struct Mutation {
    pub name: String,
    pub bytes: Vec<u8>,
}

fn elements_prefix(a: &Atom) -> String {
    a.fpath.clone()
}

/// bytes of the last element of the sequence announced by LEN atom `a` (None for empty sequences)
fn last_element<'a>(e: &'a TypeEntry, a: &Atom, n: u64) -> Option<(usize, &'a [u8])> {
    if n == 0 {
        return None;
    }
    let p = if a.fpath.is_empty() {
        format!("[{}]", n - 1)
    } else {
        format!("{}/[{}]", elements_prefix(a), n - 1)
    };
    let atoms: Vec<&Atom> = e
        .trace
        .atoms
        .iter()
        .filter(|x| x.fpath == p || x.fpath.starts_with(&format!("{}/", p)))
        .collect();
    let first = atoms.first()?;
    let last = atoms.last()?;
    Some((last.end(), &e.trace.bytes[first.offset..last.end()]))
}

pub fn len_mutations(e: &TypeEntry) -> Vec<Mutation> {
    let mut out = vec![];
    for a in e.trace.atoms.iter().filter(|a| a.kind == Kind::Len) {
        let n = le64(e.trace.atom_bytes(a));
        let mut variants: Vec<(String, u64)> = vec![
            ("0".into(), 0),
            ("n+1".into(), n + 1),
            ("2^24".into(), 1 << 24),
            ("2^32".into(), 1 << 32),
            ("2^60".into(), 1 << 60),
            // counts whose product with an element size wraps around 2^64
            ("2^61".into(), 1 << 61),
            ("2^62+1".into(), (1 << 62) + 1),
            ("2^63".into(), 1 << 63),
            ("2^64/96".into(), u64::MAX / 96 + 1),
            ("2^64-1".into(), u64::MAX),
        ];
        if n > 0 {
            variants.push(("n-1".into(), n - 1));
        }
        for (vn, v) in variants {
            if v == n {
                continue;
            }
            out.push(Mutation {
                name: format!("len|{}|{}", a.fpath, vn),
                bytes: e.trace.with_replaced(a, &v.to_le_bytes()),
            });
        }
        // n+1 with a valid extra element spliced in after the last one; also n+2, 2n
        if let Some((end, elem)) = last_element(e, a, n) {
            for (vn, extra) in [("n+1+elem", 1usize), ("n+2+elems", 2), ("2n+elems", n as usize)] {
                let mut b = e.trace.bytes[..end].to_vec();
                for _ in 0..extra {
                    b.extend_from_slice(elem);
                }
                b.extend_from_slice(&e.trace.bytes[end..]);
                b[a.offset..a.end()].copy_from_slice(&(n + extra as u64).to_le_bytes());
                out.push(Mutation {
                    name: format!("len|{}|{}", a.fpath, vn),
                    bytes: b,
                });
            }
            // huge prefix followed by many valid elements: the decoder keeps reading
            let mut b = e.trace.bytes[..end].to_vec();
            for _ in 0..64 {
                b.extend_from_slice(elem);
            }
            b[a.offset..a.end()].copy_from_slice(&(1u64 << 40).to_le_bytes());
            out.push(Mutation {
                name: format!("len|{}|2^40+64elems", a.fpath),
                bytes: b,
            });
        }
    }
    out
}

pub fn atom_mutations(e: &TypeEntry, rng: &mut impl RngCore, per_atom_random: usize) -> Vec<Mutation> {
    let mut out = vec![];
    for a in e.trace.atoms.iter() {
        let mut vs: Vec<(String, Vec<u8>)> = vec![];
        for (n, b) in wire::universally_invalid(a.kind, rng) {
            vs.push((n.to_string(), b));
        }
        match a.kind {
            Kind::G1 => {
                vs.push(("identity".into(), wire::g1_identity_bytes().to_vec()));
                vs.push(("all-ff".into(), vec![0xff; 48]));
            }
            Kind::G2 => {
                vs.push(("identity".into(), wire::g2_identity_bytes().to_vec()));
                vs.push(("all-ff".into(), vec![0xff; 96]));
            }
            Kind::B32 => {
                vs.push(("zero".into(), vec![0; 32]));
                vs.push(("close-tag".into(), crate::refs::close_tag_ref().to_bytes().to_vec()));
                vs.push(("q-1".into(), crate::refs::q_minus_1().to_bytes().to_vec()));
            }
            Kind::U64 | Kind::I64 => {
                for v in [0u64, 1 << 63, u64::MAX, i64::MAX as u64] {
                    vs.push((format!("{:#x}", v), v.to_le_bytes().to_vec()));
                }
            }
            Kind::U8 | Kind::Bool | Kind::OptTag => {
                for v in [0u8, 1, 2, 255] {
                    vs.push((format!("{}", v), vec![v]));
                }
            }
            Kind::Tag | Kind::U32 => {
                for v in [0u32, 1, 2, 3, u32::MAX] {
                    vs.push((format!("{}", v), v.to_le_bytes().to_vec()));
                }
            }
            _ => {}
        }
        for k in 0..per_atom_random {
            let mut b = vec![0u8; a.len];
            rng.fill_bytes(&mut b);
            vs.push((format!("random{}", k), b));
        }
        let orig = e.trace.atom_bytes(a);
        for (vn, b) in vs {
            if b == orig || a.kind == Kind::Len {
                continue;
            }
            out.push(Mutation {
                name: format!("atom|{}|{}", a.fpath, vn),
                bytes: e.trace.with_replaced(a, &b),
            });
        }
    }
    out
}

pub fn shape_mutations(e: &TypeEntry, rng: &mut impl RngCore, nrandom: usize, nflips: usize) -> Vec<Mutation> {
    let mut out = vec![];
    let full = &e.trace.bytes;
    // truncation at and inside every atom
    let mut cuts = std::collections::BTreeSet::new();
    for a in &e.trace.atoms {
        let _ = cuts.insert(a.offset);
        let _ = cuts.insert(a.offset + a.len / 2);
        if a.len > 1 {
            let _ = cuts.insert(a.end() - 1);
        }
    }
    for cut in cuts {
        if cut < full.len() {
            out.push(Mutation {
                name: format!("truncate|{}", cut),
                bytes: full[..cut].to_vec(),
            });
        }
    }
    // extension
    for (n, extra) in [("1", vec![0u8]), ("32", vec![0xa5u8; 32]), ("self", full.clone())] {
        let mut b = full.clone();
        b.extend_from_slice(&extra);
        out.push(Mutation {
            name: format!("extend|{}", n),
            bytes: b,
        });
    }
    // random strings of characteristic lengths
    let mut lens = vec![0usize, 1, 7, 8, 9, 16, 31, 32, 33, 40, 47, 48, 49, 95, 96, 97, 104, 144, 296];
    lens.push(full.len());
    lens.push(full.len().saturating_sub(1));
    lens.push(full.len() + 1);
    for k in 0..nrandom {
        let l = lens[k % lens.len()];
        let mut b = vec![0u8; l];
        rng.fill_bytes(&mut b);
        out.push(Mutation {
            name: format!("random|{}|{}", l, k),
            bytes: b,
        });
        // random tail after a valid head (keeps the decoder going past the first atoms)
        if full.len() > 16 {
            let cut = (rng.next_u32() as usize) % full.len();
            let mut b = full[..cut].to_vec();
            let mut tail = vec![0u8; full.len() - cut];
            rng.fill_bytes(&mut tail);
            b.extend_from_slice(&tail);
            out.push(Mutation {
                name: format!("random-tail|{}|{}", cut, k),
                bytes: b,
            });
        }
    }
    // bit flips
    for k in 0..nflips {
        let mut b = full.clone();
        if b.is_empty() {
            break;
        }
        let flips = 1 + (rng.next_u32() % 3) as usize;
        let mut where_ = vec![];
        for _ in 0..flips {
            let pos = (rng.next_u64() as usize) % b.len();
            let bit = rng.next_u32() % 8;
            b[pos] ^= 1 << bit;
            where_.push(format!("{}.{}", pos, bit));
        }
        out.push(Mutation {
            name: format!("bitflip|{}|{}", where_.join("+"), k),
            bytes: b,
        });
    }
    out
}

/// Structural mutations of a value's JSON form: every array node gets elements appended (a copy of
/// its last element: n+1, n+2, 2n), removed (n-1, empty); objects lose a field or gain a duplicate.
pub fn json_mutations(e: &TypeEntry) -> Vec<Mutation> {
    use serde_json::Value;
    let Ok(root) = serde_json::from_slice::<Value>(&e.json) else { return vec![] };
    // collect paths of array / object nodes
    fn walk(v: &Value, path: &mut Vec<String>, out: &mut Vec<Vec<String>>) {
        match v {
            Value::Array(a) => {
                out.push(path.clone());
                // descend only into non-numeric children (byte arrays are leaves)
                for (i, x) in a.iter().enumerate() {
                    if !x.is_number() {
                        path.push(i.to_string());
                        walk(x, path, out);
                        path.pop();
                    }
                }
            }
            Value::Object(o) => {
                out.push(path.clone());
                for (k, x) in o.iter() {
                    path.push(k.clone());
                    walk(x, path, out);
                    path.pop();
                }
            }
            _ => {}
        }
    }
    fn at<'a>(v: &'a mut Value, path: &[String]) -> Option<&'a mut Value> {
        let mut cur = v;
        for p in path {
            cur = match cur {
                Value::Array(a) => a.get_mut(p.parse::<usize>().ok()?)?,
                Value::Object(o) => o.get_mut(p)?,
                _ => return None,
            };
        }
        Some(cur)
    }
    let mut nodes = vec![];
    walk(&root, &mut vec![], &mut nodes);
    let mut out = vec![];
    for path in nodes {
        let pname = path.join("/");
        let variants: &[&str] = &["n+1", "n+2", "2n", "n-1", "empty"];
        for var in variants {
            let mut v = root.clone();
            let Some(node) = at(&mut v, &path) else { continue };
            match node {
                Value::Array(a) => {
                    let last = a.last().cloned();
                    match (*var, last) {
                        ("n+1", Some(l)) => a.push(l),
                        ("n+2", Some(l)) => {
                            a.push(l.clone());
                            a.push(l);
                        }
                        ("2n", Some(_)) => {
                            let c = a.clone();
                            a.extend(c);
                        }
                        ("n-1", Some(_)) => {
                            let _ = a.pop();
                        }
                        ("empty", _) => a.clear(),
                        _ => continue,
                    }
                }
                Value::Object(o) => match *var {
                    "n-1" => {
                        let k = o.keys().next().cloned();
                        if let Some(k) = k {
                            let _ = o.remove(&k);
                        }
                    }
                    "empty" => o.clear(),
                    _ => continue,
                },
                _ => continue,
            }
            out.push(Mutation {
                name: format!("json|{}|{}", pname, var),
                bytes: serde_json::to_vec(&v).unwrap_or_default(),
            });
        }
    }
    out
}

/// Decode a JSON input under the same monitors as the binary decoders.
pub fn monitored_json_decode(c: &mut Ctx, e: &TypeEntry, mname: &str, bytes: &[u8]) -> Option<bool> {
    c.eval();
    let base = alloc::reset();
    let r = guard(|| (e.decode_json)(bytes));
    let st = alloc::stats(base);
    if alloc::enabled() && (st.largest > ALLOC_SINGLE_FACTOR * bytes.len() + ALLOC_SINGLE_SLACK || st.peak_live > (ALLOC_PEAK_FACTOR * bytes.len() + ALLOC_PEAK_SLACK) as i64) {
        c.violation(
            &format!("C16 over-allocation type={} mutation={}", e.name, mname),
            json!({"type": e.name, "format": "json", "mutation": mname, "input_len": bytes.len(), "largest_single_request": st.largest, "peak_live": st.peak_live}),
        );
        return None;
    }
    match r {
        Err(p) => {
            c.count("panics", 1);
            c.violation(
                &format!("C16 decode-panic type={} mutation={} loc={}", e.name, mname, repo_rel(&p.location)),
                json!({"type": e.name, "format": "json", "mutation": mname, "panic": p.message, "location": p.location,
                       "input_head": String::from_utf8_lossy(&bytes[..bytes.len().min(200)])}),
            );
            None
        }
        Ok(Ok(())) => {
            c.count("json_decoded_ok", 1);
            Some(true)
        }
        Ok(Err(_)) => {
            c.count("json_decoded_err", 1);
            Some(false)
        }
    }
}

pub const ALLOC_SINGLE_FACTOR: usize = 16;
pub const ALLOC_SINGLE_SLACK: usize = 1024 * 1024;
pub const ALLOC_PEAK_FACTOR: usize = 32;
pub const ALLOC_PEAK_SLACK: usize = 2 * 1024 * 1024;

/// Decode one input under the monitors. Returns Ok(decoded?) unless a monitor fired.
pub fn monitored_decode(c: &mut Ctx, e: &TypeEntry, mname: &str, bytes: &[u8]) -> Option<bool> {
    c.eval();
    let base = alloc::reset();
    let r = guard(|| (e.decode)(bytes));
    let st = alloc::stats(base);
    let mclass = mutation_class(mname);
    let mut fired = false;
    if alloc::enabled() {
        c.max("largest_single_request", st.largest as i64);
        c.max("peak_live_bytes", st.peak_live);
        let ratio = st.largest as f64 / (bytes.len().max(1) as f64);
        c.max("largest_request_over_input_len_x100", (ratio * 100.0) as i64);
        if st.largest > ALLOC_SINGLE_FACTOR * bytes.len() + ALLOC_SINGLE_SLACK
            || st.peak_live > (ALLOC_PEAK_FACTOR * bytes.len() + ALLOC_PEAK_SLACK) as i64
        {
            fired = true;
            c.violation(
                &format!("C16 over-allocation type={} mutation={}", e.name, mclass),
                json!({"type": e.name, "mutation": mname, "input_len": bytes.len(), "largest_single_request": st.largest,
                       "peak_live": st.peak_live, "input_hex_head": hex(&bytes[..bytes.len().min(96)])}),
            );
        }
    }
    match r {
        Err(p) => {
            c.count("panics", 1);
            c.violation(
                &format!("C16 decode-panic type={} mutation={} loc={}", e.name, mclass, repo_rel(&p.location)),
                json!({"type": e.name, "mutation": mname, "panic": p.message, "location": p.location,
                       "input_len": bytes.len(), "input_hex_head": hex(&bytes[..bytes.len().min(96)])}),
            );
            None
        }
        Ok(Ok(_)) => {
            c.count("decoded_ok", 1);
            if fired {
                None
            } else {
                Some(true)
            }
        }
        Ok(Err(_)) => {
            c.count("decoded_err", 1);
            if fired {
                None
            } else {
                Some(false)
            }
        }
    }
}

/// mutation name without run-specific numbers (stable signature part)
pub fn mutation_class(m: &str) -> String {
    let parts: Vec<&str> = m.split('|').collect();
    match parts.first().copied() {
        Some("len") | Some("atom") => m.to_string(),
        Some("truncate") => "truncate".into(),
        Some("extend") => m.to_string(),
        Some("random") => "random".into(),
        Some("random-tail") => "random-tail".into(),
        Some("bitflip") => "bitflip".into(),
        _ => m.to_string(),
    }
}

pub fn run(c: &mut Ctx) {
    c.note("rule", json!("every Deserialize type of both crates and wrappers around the public element codecs; a second serde format (JSON, no size hints): every array node with elements appended / removed, objects with fields removed; per honest bincode encoding: every length prefix <- {0,n-1,n+1,n+1 with a valid extra element,n+2,2n,2^24,2^32,2^40 with 64 elements,2^60,2^64-1}, every atom <- invalid/boundary encodings and flag patterns, truncation at and inside every atom, extension, random strings, random tails, bit flips. One case = one decoded input; distinct = distinct (type, mutation name), random inputs by content. Added later: a JSON pass, ChannelId::from_str on hostile strings including multi-byte characters at every alignment, wide instantiations (N=13, 40 scalars) in the quick tier. Length prefixes whose product with an element size wraps."));
    let m = match types::default_merchant(c) {
        Ok(m) => m,
        Err(e) => return c.inconclusive(&e),
    };
    let entries = match types::all_entries(c, m, "c16") {
        Ok(v) => v,
        Err(e) => return c.inconclusive(&e),
    };
    if alloc::enabled() {
        alloc::set_alarm(512 << 20, 2);
    }
    c.note("types", json!(entries.iter().map(|e| e.name.clone()).collect::<Vec<_>>()));
    let per_atom_random = c.tier.pick(1usize, 6);
    let nrandom = c.tier.pick(24usize, 400);
    let nflips = c.tier.pick(24usize, 600);
    let mut n_len_atoms = 0usize;
    for e in &entries {
        // positive control: the honest encoding decodes and re-encodes
        let name = format!("{}|honest", e.name);
        c.case(&name, |c| {
            c.distinct(&name);
            match monitored_decode(c, e, "honest", &e.trace.bytes) {
                Some(true) => c.count("honest_ok", 1),
                Some(false) => c.inconclusive(&format!("C16: honest encoding of {} does not decode", e.name)),
                None => {}
            }
        });
        let mut rng = c.rng(&format!("mut/{}", e.name));
        let lm = len_mutations(e);
        n_len_atoms += e.trace.atoms.iter().filter(|a| a.kind == Kind::Len).count();
        let am = atom_mutations(e, &mut rng, per_atom_random);
        let sm = shape_mutations(e, &mut rng, nrandom, nflips);
        for (class, muts) in [("len", lm), ("atom", am), ("shape", sm)] {
            for mu in muts {
                let name = format!("{}|{}", e.name, mu.name);
                c.case(&name, |c| {
                    if mu.name.starts_with("random") || mu.name.starts_with("bitflip") {
                        c.distinct(&format!("{}|{}", e.name, hex(&mu.bytes[..mu.bytes.len().min(64)])));
                    } else {
                        c.distinct(&name);
                    }
                    c.count(&format!("inputs_{}", class), 1);
                    let r = monitored_decode(c, e, &mu.name, &mu.bytes);
                    if class == "len" && mu.name.ends_with("+elem") {
                        c.sample(json!({"type": e.name, "mutation": mu.name, "input_len": mu.bytes.len(), "decoded": r}));
                    }
                });
            }
        }
    }
    // second serde format: JSON gives the visitors no size hint and no length prefix to trust
    for e in &entries {
        if e.json.len() > 60_000 {
            continue; // range parameters / customer configuration: same codecs, covered by the smaller types
        }
        let name = format!("{}|json|honest", e.name);
        c.case(&name, |c| {
            c.distinct(&name);
            if monitored_json_decode(c, e, "json|honest", &e.json) != Some(true) {
                c.inconclusive(&format!("C16: honest JSON form of {} does not decode", e.name));
            }
        });
        for mu in json_mutations(e) {
            let name = format!("{}|{}", e.name, mu.name);
            c.case(&name, |c| {
                c.distinct(&name);
                c.count("inputs_json", 1);
                let _ = monitored_json_decode(c, e, &mu.name, &mu.bytes);
            });
        }
    }
    // the text decoder of a channel id: hostile strings give a value or an error
    c.case("ChannelId|from_str", |c| {
        use std::str::FromStr;
        let mut rng = c.rng("ChannelId|from_str");
        let alphabet: &[u8] = b"ABCDEFGHIJKLMNOPQRSTUVWXYZabcdefghijklmnopqrstuvwxyz0123456789+/";
        let mut inputs: Vec<String> = vec![];
        for len in 0..=100usize {
            // all data characters, no padding
            inputs.push((0..len).map(|_| alphabet[(rng.next_u32() as usize) % 64] as char).collect());
            inputs.push("A".repeat(len));
            inputs.push("/".repeat(len));
            // with one or two padding characters at the end
            if len >= 2 {
                let body: String = (0..len - 1).map(|_| alphabet[(rng.next_u32() as usize) % 64] as char).collect();
                inputs.push(format!("{}=", body));
                inputs.push(format!("{}==", &body[..len - 2]));
            }
        }
        // honest ids with the trailing padding replaced, truncated, extended, with foreign characters
        for _ in 0..c.tier.pick(20, 300) {
            let mut b = [0u8; 32];
            rng.fill_bytes(&mut b);
            let honest = base64::encode(b);
            inputs.push(honest.clone());
            inputs.push(honest.replace('=', "A"));
            inputs.push(honest[..honest.len() - 1].to_string());
            inputs.push(format!("{}A", honest));
            inputs.push(format!("{}=", honest));
            inputs.push(format!("={}", honest));
            let mut h = honest.clone().into_bytes();
            let pos = (rng.next_u32() as usize) % h.len();
            h[pos] = [b'*', b' ', b'\n', 0u8, 0xc3][(rng.next_u32() as usize) % 5];
            inputs.push(String::from_utf8_lossy(&h).into_owned());
        }
        inputs.push("\u{1F600}".repeat(11));
        // multi-byte characters at every alignment, for every total byte length (a text decoder that
        // slices by byte offsets meets a character boundary it did not expect)
        for len in 1..=100usize {
            for ch in ["\u{e9}", "\u{20ac}", "\u{1F600}"] {
                for lead in 0..=1usize {
                    let mut s = "a".repeat(lead.min(len));
                    while s.len() + ch.len() <= len {
                        s.push_str(ch);
                    }
                    while s.len() < len {
                        s.push('f');
                    }
                    inputs.push(s);
                }
            }
            // other plausible text forms of 32 bytes: hexadecimal digits
            inputs.push("0f".repeat(len / 2));
        }
        for inp in inputs {
            c.eval();
            c.distinct(&format!("ChannelId|from_str|{}|{}", inp.len(), hex(&inp.as_bytes()[..inp.len().min(24)])));
            c.count("inputs_channel_id_text", 1);
            let base = alloc::reset();
            let r = guard(|| zkabacus_crypto::ChannelId::from_str(&inp).map(|c| c.to_bytes()));
            let st = alloc::stats(base);
            if alloc::enabled() && st.largest > ALLOC_SINGLE_FACTOR * inp.len() + ALLOC_SINGLE_SLACK {
                c.violation("C16 over-allocation type=ChannelId(text) mutation=text", json!({"input": inp, "largest_single_request": st.largest}));
            }
            match r {
                Err(p) => c.violation(
                    &format!("C16 decode-panic type=ChannelId(text) mutation=text:len{}{} loc={}", inp.len(), if inp.contains('=') { "+padding" } else { "" }, repo_rel(&p.location)),
                    json!({"input": inp, "panic": p.message, "location": p.location}),
                ),
                Ok(Ok(_)) => c.count("channel_id_text_decoded_ok", 1),
                Ok(Err(_)) => c.count("channel_id_text_decoded_err", 1),
            }
        }
    });
    if n_len_atoms == 0 {
        c.inconclusive("C16: no length prefix was found in any honest encoding");
    }
    c.note("len_prefix_positions", json!(n_len_atoms));
    c.note("allocation_bounds", json!({"largest_single": "16*len+1MiB", "peak_live": "32*len+2MiB"}));
}
