//! C03 — the customer can always close on an unrevoked valid state; bad replies are inert.
//!
//! Histories of payments with a fault alphabet injected before the honest reply at each of the
//! four merchant replies the customer consumes. Monitors: (a) byte image of the state before /
//! after a refusal; (b) an *independent* classification of every reply (unblind with the blinding
//! factor read from the state bytes, pairing reference on the message read from the state bytes)
//! against what the customer did; (c) at every point a closing message from a copy of the state
//! is accepted by the merchant-side close check, carries the ledger's balances for that stage, and
//! a lock never disclosed before; (d) a lock message only comes out of a step whose closing
//! signature the independent check accepts, and discloses exactly the old state's lock.

use crate::ctx::{guard, Ctx};
use crate::fixtures::{self, Merchant};
use crate::props::c04::candidate_amounts;
use crate::props::util::*;
use crate::refs::*;
use crate::session::{amount, new_channel_id, Sess, Stage};
use crate::srng::ScriptRng;
use crate::tracer::{trace, Trace};
use crate::wire::{dec, enc, rand_g1};
use bls12_381::{G1Affine, G1Projective, Scalar};
use ff::Field;
use group::Curve;
use rand_core::{CryptoRng, RngCore};
use serde_json::json;
use zkabacus_crypto::{revlock::RevocationPair, Verification};
use zkchannels_crypto::Message;

const MAXB: u64 = i64::MAX as u64;

fn stage_trace(s: &Stage) -> Result<Trace, String> {
    match s {
        Stage::None => Err("no stage".into()),
        Stage::Requested(x) => trace(x),
        Stage::Inactive(x) => trace(x),
        Stage::Ready(x) => trace(x),
        Stage::Started(x) => trace(x),
        Stage::Locked(x) => trace(x),
    }
}

fn state_msg(t: &Trace, prefix: &str) -> Result<[Scalar; 5], String> {
    let cid = raw32_to_scalar(&t.fget(&format!("{}/channel_id", prefix))?);
    let nonce = sc(&t.fget(&format!("{}/nonce", prefix))?).ok_or("nonce")?;
    let lock = sc(&t.fget(&format!("{}/revocation_pair/lock", prefix))?).ok_or("lock")?;
    let c = le64(&t.fget(&format!("{}/customer_balance", prefix))?);
    let m = le64(&t.fget(&format!("{}/merchant_balance", prefix))?);
    Ok([cid, nonce, lock, Scalar::from(c), Scalar::from(m)])
}

fn close_of(st: &[Scalar; 5]) -> [Scalar; 5] {
    [st[0], close_tag_ref(), st[2], st[3], st[4]]
}

/// What the stage is waiting for: (expected message, blinding factor, is it a closing signature?)
pub struct Waiting {
    pub msg: [Scalar; 5],
    pub other_kind_msg: [Scalar; 5],
    pub bf: Scalar,
    pub closing: bool,
}

pub fn waiting_for(stage: &Stage) -> Result<Waiting, String> {
    let t = stage_trace(stage)?;
    let g = |p: &str| -> Result<Scalar, String> { sc(&t.fget(p)?).ok_or_else(|| format!("bad scalar at {}", p)) };
    match stage {
        Stage::Requested(_) => {
            let st = state_msg(&t, "state")?;
            Ok(Waiting { msg: close_of(&st), other_kind_msg: st, bf: g("close_state_blinding_factor")?, closing: true })
        }
        Stage::Inactive(_) => {
            let st = state_msg(&t, "state")?;
            Ok(Waiting { msg: st, other_kind_msg: close_of(&st), bf: g("blinding_factor")?, closing: false })
        }
        Stage::Started(_) => {
            let st = state_msg(&t, "new_state")?;
            Ok(Waiting { msg: close_of(&st), other_kind_msg: st, bf: g("blinding_factors/for_close_state")?, closing: true })
        }
        Stage::Locked(_) => {
            let st = state_msg(&t, "state")?;
            Ok(Waiting { msg: st, other_kind_msg: close_of(&st), bf: g("blinding_factor")?, closing: false })
        }
        _ => Err(format!("stage {} waits for no reply", stage.name())),
    }
}

/// independent classification of a reply: does it unblind to a valid signature on `msg`?
pub fn reply_valid(m: &Merchant, reply: &[u8], w: &Waiting) -> bool {
    if reply.len() != 96 {
        return false;
    }
    let (Some(s1), Some(s2)) = (g1(&reply[..48]), g1(&reply[48..])) else { return false };
    let (u1, u2) = unblind_ref(&s1, &s2, &w.bf);
    ps_verify_ref(&m.pk, &u1, &u2, &w.msg)
}

/// a signature on `msg` under `signer`, blinded so that unblinding with `bf` yields it
fn evil_reply(rng: &mut (impl RngCore + CryptoRng), signer: &Merchant, msg: &[Scalar; 5], bf: &Scalar) -> Vec<u8> {
    let sig = Message::new(*msg).sign(rng, signer.cfg.signing_keypair());
    let s1 = sig.sigma1();
    let s2 = (G1Projective::from(sig.sigma2()) + G1Projective::from(s1) * *bf).to_affine();
    let mut b = s1.to_compressed().to_vec();
    b.extend_from_slice(&s2.to_compressed());
    b
}

fn tweak(msg: &[Scalar; 5], slot: usize, d: Scalar) -> [Scalar; 5] {
    let mut m = *msg;
    m[slot] += d;
    m
}

pub struct Fault {
    pub kind: String,
    pub bytes: Vec<u8>,
}

/// The fault alphabet for the reply the stage is waiting for.
pub fn faults(
    rng: &mut (impl RngCore + CryptoRng),
    m: &'static Merchant,
    other: &'static Merchant,
    w: &Waiting,
    honest: &[u8],
    recorded: &[(String, Vec<u8>)],
) -> Vec<Fault> {
    let mut v = vec![];
    let mut push = |k: &str, b: Vec<u8>| v.push(Fault { kind: k.to_string(), bytes: b });
    // garbage: a random valid pair of points
    {
        let mut b = rand_g1(rng).to_compressed().to_vec();
        b.extend_from_slice(&rand_g1(rng).to_compressed());
        push("random-pair", b);
    }
    // the honest reply blinded for another factor / with sigma2 shifted
    if let (Some(s1), Some(s2)) = (g1(&honest[..48]), g1(&honest[48..])) {
        let d = Scalar::random(&mut *rng);
        let t = (G1Projective::from(s2) + G1Projective::from(s1) * d).to_affine();
        let mut b = s1.to_compressed().to_vec();
        b.extend_from_slice(&t.to_compressed());
        push("honest-reblinded-other-factor", b);
        let t = (G1Projective::from(s2) + G1Projective::from(s1)).to_affine();
        let mut b = s1.to_compressed().to_vec();
        b.extend_from_slice(&t.to_compressed());
        push("honest-sigma2+sigma1", b);
        // swapped components
        let mut b = s2.to_compressed().to_vec();
        b.extend_from_slice(&s1.to_compressed());
        push("honest-components-swapped", b);
    }
    // evil merchant: valid signatures on wrong messages, correctly blinded for this customer
    let one = Scalar::one();
    push("evil/customer-balance+1", evil_reply(rng, m, &tweak(&w.msg, 3, one), &w.bf));
    push("evil/customer-balance-1", evil_reply(rng, m, &tweak(&w.msg, 3, -one), &w.bf));
    push("evil/merchant-balance+1", evil_reply(rng, m, &tweak(&w.msg, 4, one), &w.bf));
    push("evil/balances-swapped", {
        let mut x = w.msg;
        x.swap(3, 4);
        if x == w.msg {
            x[3] += one;
        }
        evil_reply(rng, m, &x, &w.bf)
    });
    let other_cid = Scalar::random(&mut *rng);
    push("evil/other-channel-id", evil_reply(rng, m, &tweak(&w.msg, 0, other_cid), &w.bf));
    // the channel id with only one of its two top bits changed (as scalars: +-2^255, +-2^254)
    for (nm, limb) in [("2^255", 1u64 << 63), ("2^254", 1u64 << 62)] {
        let d = Scalar::from_raw([0, 0, 0, limb]);
        push(&format!("evil/channel-id+{}", nm), evil_reply(rng, m, &tweak(&w.msg, 0, d), &w.bf));
        push(&format!("evil/channel-id-{}", nm), evil_reply(rng, m, &tweak(&w.msg, 0, -d), &w.bf));
    }
    push("evil/other-lock", evil_reply(rng, m, &tweak(&w.msg, 2, one), &w.bf));
    push("evil/second-slot+1", evil_reply(rng, m, &tweak(&w.msg, 1, one), &w.bf));
    // wrong type: the other kind of message for the same state
    push(if w.closing { "wrong-type/pay-token-for-closing-signature" } else { "wrong-type/closing-signature-for-pay-token" }, evil_reply(rng, m, &w.other_kind_msg, &w.bf));
    // right message, wrong key
    push("other-merchant-key", evil_reply(rng, other, &w.msg, &w.bf));
    // right message and key, blinded for a different factor
    push("right-signature-wrong-blinding", evil_reply(rng, m, &w.msg, &(w.bf + one)));
    // replies recorded elsewhere (other session / channel / earlier payment)
    for (k, b) in recorded {
        if b.as_slice() != honest {
            push(&format!("replay/{}", k), b.clone());
        }
    }
    // two points of the cofactor subgroup: they pair to 1 with everything, so they would satisfy the
    // signature equation for every message if a decoder ever let them in
    {
        let mut b = crate::wire::g1_cofactor_point(rng).to_vec();
        b.extend_from_slice(&crate::wire::g1_cofactor_point(rng));
        push("small-order-points", b);
    }
    // all-identity signature: what the merchant's signer emits under a zero randomiser. Produced
    // through the API (BlindedSignature of the honest flow under a scripted RNG) by the caller;
    // here its wire image, which carries the infinity flag in both points.
    {
        let mut b = crate::wire::g1_identity_bytes().to_vec();
        b.extend_from_slice(&crate::wire::g1_identity_bytes());
        push("all-identity", b);
    }
    v
}

struct Run<'a> {
    m: &'static Merchant,
    other: &'static Merchant,
    s: Sess,
    trail: Vec<String>,
    recorded: &'a mut Vec<(String, Vec<u8>)>,
    nfaults: usize,
    name: String,
}

impl<'a> Run<'a> {
    /// observation point (c)
    fn observe(&mut self, c: &mut Ctx, rng: &mut (impl RngCore + CryptoRng), at: &str) {
        let expect = self.s.ideal_balances();
        let cm = match self.s.stage.close_from_copy(rng) {
            Ok(x) => x,
            Err(e) => {
                return c.violation(&format!("C03 cannot-close stage={}", self.s.stage.name()), json!({"error": e, "at": at, "trail": self.trail}));
            }
        };
        let Some(cm) = cm else { return };
        c.eval();
        c.distinct(&format!("close/{}/{}/{}-{}", self.s.stage.name(), at, expect.0, expect.1));
        let got = (cm.customer_balance().into_inner(), cm.merchant_balance().into_inner());
        let cid_ok = cm.channel_id().to_bytes() == self.s.cid.to_bytes();
        let lock = cm.revocation_lock().as_bytes();
        let lock_fresh = !self.s.disclosed_locks.iter().any(|l| *l == lock);
        let (sig, st) = cm.into_parts();
        let accepted = matches!(self.m.cfg.check_close_signature(sig, &st), Verification::Verified);
        if !(accepted && cid_ok && got == expect && lock_fresh) {
            c.violation(
                &format!("C03 bad-closing-message stage={}", self.s.stage.name()),
                json!({"at": at, "merchant_accepts": accepted, "channel_id_matches": cid_ok, "balances": [got.0.to_string(), got.1.to_string()],
                       "ledger_for_stage": [expect.0.to_string(), expect.1.to_string()], "lock_never_disclosed": lock_fresh, "trail": self.trail}),
            );
        } else {
            c.count(&format!("closes_ok[{}]", self.s.stage.name()), 1);
        }
    }

    /// inject faults, then deliver the honest reply, at the current reply point
    fn reply_point(&mut self, c: &mut Ctx, rng: &mut (impl RngCore + CryptoRng), honest: &[u8]) -> bool {
        let stage_name = self.s.stage.name();
        let w = match waiting_for(&self.s.stage) {
            Ok(w) => w,
            Err(e) => {
                c.inconclusive(&e);
                return false;
            }
        };
        let alphabet = faults(rng, self.m, self.other, &w, honest, self.recorded);
        // choose nfaults of them (quick), rotating through the alphabet across reply points
        let k = self.nfaults.min(alphabet.len());
        let start = (rng.next_u32() as usize) % alphabet.len();
        for i in 0..k {
            let f = &alphabet[(start + i * 7) % alphabet.len()];
            let valid = reply_valid(self.m, &f.bytes, &w);
            let before = self.s.stage.bytes();
            let locks_before = self.s.disclosed_locks.len();
            let r = match stage_name {
                "requested" => self.s.c_complete(&f.bytes),
                "inactive" => self.s.c_activate(&f.bytes),
                "started" => self.s.c_lock(&f.bytes).map(|o| o.is_some()),
                "locked" => self.s.c_unlock(&f.bytes),
                _ => Err("no reply point".into()),
            };
            c.eval();
            c.distinct(&format!("fault/{}/{}/{}", stage_name, f.kind.split('/').next().unwrap_or(""), f.kind));
            c.count(&format!("faults[{}]", f.kind.split('/').next().unwrap_or("")), 1);
            let accepted = match r {
                Ok(a) => a,
                Err(_) => {
                    // not decodable (e.g. the identity signature): rejected at the wire
                    c.count("faults_rejected_at_decode", 1);
                    false
                }
            };
            if valid {
                // the independent check says this reply IS a valid signature on the expected message
                // (cannot happen for the alphabet except through negligible coincidences)
                c.inconclusive(&format!("C03: fault {} classified valid by the independent check", f.kind));
                return false;
            }
            if accepted {
                c.violation(
                    &format!("C03 invalid-reply-accepted stage={} fault={}", stage_name, f.kind),
                    json!({"fault": f.kind, "trail": self.trail, "lock_message_released": self.s.disclosed_locks.len() > locks_before}),
                );
                return false;
            }
            if self.s.stage.bytes() != before || self.s.stage.name() != stage_name {
                c.violation(
                    &format!("C03 refusal-changed-state stage={} fault={}", stage_name, f.kind),
                    json!({"fault": f.kind, "trail": self.trail}),
                );
                return false;
            }
            if self.s.disclosed_locks.len() != locks_before {
                c.violation(&format!("C03 lock-released-on-refusal fault={}", f.kind), json!({"trail": self.trail}));
                return false;
            }
            self.trail.push(format!("{}: {} refused", stage_name, f.kind));
            self.observe(c, rng, &format!("after-refusal/{}", f.kind.split('/').next().unwrap_or("")));
        }
        // the honest reply
        let valid = reply_valid(self.m, honest, &w);
        if !valid {
            c.inconclusive("C03: the honest reply is invalid by the independent check (C04/C07's subject)");
            return false;
        }
        let old_lock = stage_trace(&self.s.stage).ok().and_then(|t| t.fget("old_state/revocation_pair/lock").ok());
        let r = match stage_name {
            "requested" => self.s.c_complete(honest),
            "inactive" => self.s.c_activate(honest),
            "started" => self.s.c_lock(honest).map(|o| {
                if let Some((pair, _bf)) = &o {
                    // (d) the disclosed lock is exactly the old state's
                    if let (Ok(p), Some(ol)) = (dec::<RevocationPair>(pair), &old_lock) {
                        if p.revocation_lock().as_bytes().to_vec() != *ol {
                            c.violation("C03 lock-message-discloses-wrong-lock", json!({"trail": self.trail}));
                        }
                    }
                }
                o.is_some()
            }),
            "locked" => self.s.c_unlock(honest),
            _ => Err("no reply point".into()),
        };
        c.eval();
        match r {
            Ok(true) => {
                self.recorded.push((format!("{}-{}", stage_name, self.recorded.len()), honest.to_vec()));
                true
            }
            Ok(false) => {
                c.violation(&format!("C03 valid-reply-refused stage={}", stage_name), json!({"trail": self.trail}));
                false
            }
            Err(e) => {
                c.violation(&format!("C03 valid-reply-error stage={}", stage_name), json!({"error": e, "trail": self.trail}));
                false
            }
        }
    }
}

fn run_history(c: &mut Ctx, m: &'static Merchant, other: &'static Merchant, name: &str, cust0: u64, merch0: u64, payments: usize, nfaults: usize, recorded: &mut Vec<(String, Vec<u8>)>) {
    let mut rng = c.rng(name);
    let ctxb = name.as_bytes().to_vec();
    let cid = new_channel_id(m, &mut rng, b"m", b"c");
    let (s, proof) = match Sess::request(m, &mut rng, cid, cust0, merch0, &ctxb) {
        Ok(x) => x,
        Err(e) => return c.inconclusive(&e),
    };
    let mut r = Run { m, other, s, trail: vec![format!("open {} {}", cust0, merch0)], recorded, nfaults, name: name.to_string() };
    r.observe(c, &mut rng, "requested");
    let sig = match r.s.m_initialize(&mut rng, cust0, merch0, &proof, &ctxb) {
        Ok(Some(x)) => x,
        _ => return c.inconclusive("C03: honest establish refused (C04's subject)"),
    };
    if !r.reply_point(c, &mut rng, &sig) {
        return;
    }
    r.observe(c, &mut rng, "inactive");
    let tok = match r.s.m_activate(&mut rng) {
        Ok(x) => x,
        Err(e) => return c.inconclusive(&e),
    };
    if !r.reply_point(c, &mut rng, &tok) {
        return;
    }
    r.observe(c, &mut rng, "ready");
    for _p in 0..payments {
        let (cust, merch) = r.s.ledger;
        let cands: Vec<i64> = candidate_amounts(cust, merch, &mut rng).into_iter().filter(|a| ledger_apply(cust, merch, *a).is_ok()).collect();
        if cands.is_empty() {
            break;
        }
        let a = cands[(rng.next_u32() as usize) % cands.len()];
        let pa = match amount(a) {
            Ok(x) => x,
            Err(_) => continue,
        };
        r.trail.push(format!("pay {}", a));
        let (nonce, proof) = match r.s.c_start(&mut rng, pa, &ctxb) {
            Ok(Ok(x)) => x,
            _ => return c.inconclusive("C03: in-range start refused (C04's subject)"),
        };
        r.observe(c, &mut rng, "started");
        let sig = match r.s.m_allow(&mut rng, pa, &nonce, &proof, &ctxb) {
            Ok(Some(x)) => x,
            _ => return c.inconclusive("C03: honest pay proof refused (C04's subject)"),
        };
        if !r.reply_point(c, &mut rng, &sig) {
            return;
        }
        r.observe(c, &mut rng, "locked");
        let (pair, bf) = {
            // the lock message was logged by the session driver
            let n = r.s.log.len();
            (r.s.log[n - 2].bytes.clone(), r.s.log[n - 1].bytes.clone())
        };
        let tok = match r.s.m_complete(&mut rng, &pair, &bf) {
            Ok(Some(x)) => x,
            _ => return c.inconclusive("C03: honest revocation refused (C05's subject)"),
        };
        if !r.reply_point(c, &mut rng, &tok) {
            return;
        }
        r.observe(c, &mut rng, "ready");
        c.count("payments_with_faults_completed", 1);
    }
    c.count("histories", 1);
    c.sample(json!({"history": r.name, "initial": [cust0.to_string(), merch0.to_string()], "trail": r.trail.iter().take(40).collect::<Vec<_>>()}));
}

/// The all-identity signature is what the merchant's signer emits when its randomiser is zero.
/// Drive the real merchant with a scripted RNG at each of its four signing calls and hand the
/// resulting *in-memory* reply objects to the customer (on the wire such a reply does not even
/// decode; both routes are observed).
fn identity_through_api(c: &mut Ctx, m: &'static Merchant) {
    use zkabacus_crypto::{customer::Requested, Context, CustomerBalance, MerchantBalance};
    c.case("identity-signature-through-api", |c| {
        let mut rng = c.rng("identity");
        let is_identity = |b: &[u8]| b.len() == 96 && b[..48] == crate::wire::g1_identity_bytes()[..];
        // find, by dry run, the 64-byte draw of a merchant call and return a scripted RNG zeroing it
        let zeroed = |call: &dyn Fn(&mut ScriptRng)| -> Vec<ScriptRng> {
            let mut dry = ScriptRng::new([9u8; 32]);
            call(&mut dry);
            dry.draws_of_len(64)
                .into_iter()
                .map(|d| {
                    let mut r = ScriptRng::new([9u8; 32]);
                    r.inject(d, vec![0u8; 64]);
                    r
                })
                .collect()
        };
        let ctx = Context::new(b"identity");
        let cb = CustomerBalance::try_new(5).unwrap();
        let mb = MerchantBalance::try_new(6).unwrap();
        // --- establish: initialize and activate
        let cid = new_channel_id(m, &mut rng, b"m", b"c");
        let mk_req = |rng: &mut rand_chacha::ChaCha20Rng| Requested::new(rng, &m.ccfg, cid, mb, cb, &ctx);
        let (req0, proof0) = mk_req(&mut rng.clone());
        let proof_bytes = enc(&proof0);
        drop(req0);
        let scripted = zeroed(&|r| {
            let _ = m.cfg.initialize(r, &cid, cb, mb, dec(&proof_bytes).unwrap(), &ctx);
        });
        c.note("merchant_initialize_scalar_draws", json!(scripted.len()));
        for mut r in scripted {
            let (req, proof) = mk_req(&mut rng.clone());
            c.eval();
            c.distinct("identity/initialize");
            let before = enc(&req);
            let Ok(Some((sig, _bs))) = guard(|| m.cfg.initialize(&mut r, &cid, cb, mb, proof, &ctx)) else { continue };
            let wire = enc(&sig);
            if !is_identity(&wire) {
                continue;
            }
            c.count("merchant_emitted_identity_signature[initialize]", 1);
            if dec::<zkabacus_crypto::ClosingSignature>(&wire).is_ok() {
                c.violation("C03 identity-reply-decodes reply=closing-signature", json!({}));
            }
            match req.complete(sig, &m.ccfg) {
                Ok(_) => c.violation("C03 invalid-reply-accepted stage=requested fault=identity-in-memory", json!({"route": "initialize with zero randomiser, reply object handed over in memory"})),
                Err(back) => {
                    if enc(&back) != before {
                        c.violation("C03 refusal-changed-state stage=requested fault=identity-in-memory", json!({}));
                    }
                    c.count("identity_refused[requested]", 1);
                }
            }
        }
        // --- the other three reply points, on a real session
        let mut s = match Sess::open(m, &mut rng, 50, 60, b"identity2") {
            Ok(s) => s,
            Err(e) => return c.inconclusive(&e),
        };
        // inactive/activate: needs a fresh verified blinded state per attempt
        {
            let cid2 = new_channel_id(m, &mut rng, b"m", b"c");
            let (req, proof) = Requested::new(&mut rng, &m.ccfg, cid2, mb, cb, &ctx);
            if let Some((sig, bs)) = m.cfg.initialize(&mut rng, &cid2, cb, mb, proof, &ctx) {
                if let Ok(inactive) = req.complete(sig, &m.ccfg) {
                    let mut dry = ScriptRng::new([9u8; 32]);
                    // activate consumes the blinded state: find the draw on a second, identical establishment
                    let (req_b, proof_b) = Requested::new(&mut rng, &m.ccfg, cid2, mb, cb, &ctx);
                    if let Some((_s2, bs2)) = m.cfg.initialize(&mut rng, &cid2, cb, mb, proof_b, &ctx) {
                        let _ = m.cfg.activate(&mut dry, bs2);
                    }
                    drop(req_b);
                    if let Some(d) = dry.draws_of_len(64).first().copied() {
                        let mut r = ScriptRng::new([9u8; 32]);
                        r.inject(d, vec![0u8; 64]);
                        let tok = m.cfg.activate(&mut r, bs);
                        c.eval();
                        c.distinct("identity/activate");
                        if is_identity(&enc(&tok)) {
                            c.count("merchant_emitted_identity_signature[activate]", 1);
                            let before = enc(&inactive);
                            match inactive.activate(tok, &m.ccfg) {
                                Ok(_) => c.violation("C03 invalid-reply-accepted stage=inactive fault=identity-in-memory", json!({})),
                                Err(back) => {
                                    if enc(&back) != before {
                                        c.violation("C03 refusal-changed-state stage=inactive fault=identity-in-memory", json!({}));
                                    }
                                    c.count("identity_refused[inactive]", 1);
                                }
                            }
                        }
                    }
                }
            }
        }
        // started/lock and locked/unlock
        let pa = amount(7).unwrap();
        let (nonce, proof) = match s.c_start(&mut rng, pa, b"identity2") {
            Ok(Ok(x)) => x,
            _ => return c.inconclusive("C03: start refused"),
        };
        let nonce_v: zkabacus_crypto::Nonce = dec(&nonce).unwrap();
        let pctx = Context::new(b"identity2");
        let scripted = zeroed(&|r| {
            let _ = m.cfg.allow_payment(r, pa, &nonce_v, dec(&proof).unwrap(), &pctx);
        });
        for mut r in scripted {
            c.eval();
            c.distinct("identity/allow_payment");
            let Ok(Some((_unrev, sig))) = guard(|| m.cfg.allow_payment(&mut r, pa, &nonce_v, dec(&proof).unwrap(), &pctx)) else { continue };
            if !is_identity(&enc(&sig)) {
                continue;
            }
            c.count("merchant_emitted_identity_signature[allow_payment]", 1);
            let Stage::Started(st) = std::mem::replace(&mut s.stage, Stage::None) else { return c.inconclusive("C03: not started") };
            let before = enc(&st);
            match st.lock(sig, &m.ccfg) {
                Ok((_l, _msg)) => {
                    return c.violation("C03 invalid-reply-accepted stage=started fault=identity-in-memory", json!({"lock_message_released": true}));
                }
                Err(back) => {
                    if enc(&back) != before {
                        c.violation("C03 refusal-changed-state stage=started fault=identity-in-memory", json!({}));
                    }
                    c.count("identity_refused[started]", 1);
                    s.stage = Stage::Started(back);
                }
            }
        }
        // honest lock, then complete_payment under a zero randomiser
        let sig = match s.m_allow(&mut rng, pa, &nonce, &proof, b"identity2") {
            Ok(Some(x)) => x,
            _ => return c.inconclusive("C03: honest pay proof refused"),
        };
        let Ok(Some((pair, bf))) = s.c_lock(&sig) else { return c.inconclusive("C03: honest lock refused") };
        let pair_v: RevocationPair = dec(&pair).unwrap();
        let bf_v: zkabacus_crypto::revlock::RevocationLockBlindingFactor = dec(&bf).unwrap();
        if let Some(unrev) = s.m_unrevoked.take() {
            // complete_payment draws exactly one scalar (the signer's randomiser)
            let mut r = ScriptRng::new([9u8; 32]);
            r.inject(0, vec![0u8; 64]);
            c.eval();
            c.distinct("identity/complete_payment");
            if let Ok(tok) = unrev.complete_payment(&mut r, &pair_v, &bf_v) {
                if is_identity(&enc(&tok)) {
                    c.count("merchant_emitted_identity_signature[complete_payment]", 1);
                    let Stage::Locked(l) = std::mem::replace(&mut s.stage, Stage::None) else { return c.inconclusive("C03: not locked") };
                    let before = enc(&l);
                    match l.unlock(tok, &m.ccfg) {
                        Ok(_) => c.violation("C03 invalid-reply-accepted stage=locked fault=identity-in-memory", json!({})),
                        Err(back) => {
                            if enc(&back) != before {
                                c.violation("C03 refusal-changed-state stage=locked fault=identity-in-memory", json!({}));
                            }
                            c.count("identity_refused[locked]", 1);
                        }
                    }
                }
            }
        }
        let _: Option<G1Affine> = None;
    });
}

/// Two customers of one merchant, side by side. At each of the four reply points customer A's honest
/// reply is first delivered to customer B (who must refuse it and stay as it was) and only then to A
/// (who must accept it): what one customer refused cannot matter to another.
fn foreign_reply_first(c: &mut Ctx, m: &'static Merchant) {
    for k in 0..c.tier.pick(2usize, 12) {
        let name = format!("foreign-reply-first/{}", k);
        c.case(&name, |c| {
            let mut rng = c.rng(&name);
            let ctx = b"c03-two".to_vec();
            let mut open = |rng: &mut rand_chacha::ChaCha20Rng, cust: u64, merch: u64| -> Result<(Sess, Vec<u8>), String> {
                let cid = new_channel_id(m, rng, b"m", b"c");
                Sess::request(m, rng, cid, cust, merch, &ctx)
            };
            let ((mut a, pa), (mut b, pb)) = match (open(&mut rng, 40, 7), open(&mut rng, 40, 7)) {
                (Ok(x), Ok(y)) => (x, y),
                _ => return c.inconclusive("C03: request failed"),
            };
            macro_rules! step {
                ($stage:expr, $foreign:expr, $own:expr) => {{
                    c.eval();
                    c.distinct(&format!("foreign-reply-first/{}/{}", $stage, k));
                    let before = b.stage.bytes();
                    match $foreign {
                        Ok(false) => {
                            if b.stage.bytes() != before {
                                c.violation(&format!("C03 refusal-changed-state stage={} fault=other-customers-honest-reply", $stage), json!({}));
                            }
                        }
                        Ok(true) => {
                            c.violation(&format!("C03 invalid-reply-accepted stage={} fault=other-customers-honest-reply", $stage), json!({}));
                            return;
                        }
                        Err(e) => return c.inconclusive(&e),
                    }
                    match $own {
                        Ok(true) => c.count(&format!("own_reply_accepted_after_foreign_refusal[{}]", $stage), 1),
                        Ok(false) => {
                            c.violation(&format!("C03 honest-reply-refused stage={} after=another-customer-refused-the-same-reply", $stage), json!({}));
                            return;
                        }
                        Err(e) => return c.inconclusive(&e),
                    }
                }};
            }
            // closing signatures
            let (Ok(Some(sa)), Ok(Some(sb))) = (a.m_initialize(&mut rng, 40, 7, &pa, &ctx), b.m_initialize(&mut rng, 40, 7, &pb, &ctx)) else {
                return c.inconclusive("C03: honest establish refused");
            };
            step!("requested", b.c_complete(&sa), a.c_complete(&sa));
            if b.c_complete(&sb) != Ok(true) {
                return c.violation("C03 honest-reply-refused stage=requested after=refusing-another-customers-reply", json!({}));
            }
            // pay tokens
            let (Ok(ta), Ok(tb)) = (a.m_activate(&mut rng), b.m_activate(&mut rng)) else { return c.inconclusive("C03: activate") };
            step!("inactive", b.c_activate(&ta), a.c_activate(&ta));
            if b.c_activate(&tb) != Ok(true) {
                return c.violation("C03 honest-reply-refused stage=inactive after=refusing-another-customers-reply", json!({}));
            }
            // one payment each
            let amt = amount(3).unwrap();
            let (Ok(Ok((na, qa))), Ok(Ok((nb, qb)))) = (a.c_start(&mut rng, amt, &ctx), b.c_start(&mut rng, amt, &ctx)) else { return c.inconclusive("C03: start") };
            let (Ok(Some(la)), Ok(Some(lb))) = (a.m_allow(&mut rng, amt, &na, &qa, &ctx), b.m_allow(&mut rng, amt, &nb, &qb, &ctx)) else {
                return c.inconclusive("C03: honest payment refused");
            };
            step!("started", b.c_lock(&la).map(|o| o.is_some()), a.c_lock(&la).map(|o| o.is_some()));
            // B locks with its own signature; both complete at the merchant
            let lock_b = b.c_lock(&lb);
            let Ok(Some((pair_b, bf_b))) = lock_b else {
                return c.violation("C03 honest-reply-refused stage=started after=refusing-another-customers-reply", json!({}));
            };
            let pair_a = a.log.iter().rev().find(|r| r.kind == "revocation_pair").map(|r| r.bytes.clone());
            let bf_a = a.log.iter().rev().find(|r| r.kind == "revocation_blinding_factor").map(|r| r.bytes.clone());
            let (Some(pair_a), Some(bf_a)) = (pair_a, bf_a) else { return c.inconclusive("C03: lock message not logged") };
            let (Ok(Some(ka)), Ok(Some(kb))) = (a.m_complete(&mut rng, &pair_a, &bf_a), b.m_complete(&mut rng, &pair_b, &bf_b)) else {
                return c.inconclusive("C03: honest revocation refused");
            };
            step!("locked", b.c_unlock(&ka), a.c_unlock(&ka));
            if b.c_unlock(&kb) != Ok(true) {
                return c.violation("C03 honest-reply-refused stage=locked after=refusing-another-customers-reply", json!({}));
            }
        });
    }
}

pub fn run(c: &mut Ctx) {
    c.note("rule", json!("histories of payments (either sign, zero, boundary amounts) with 0-3 (quick) faults from the alphabet {random pair, honest reply re-blinded / shifted / swapped, evil-merchant signatures on states with altered balances, channel id, lock or second slot, the other message type for the same state, second merchant key, right signature under a wrong blinding factor, replies recorded in other sessions / earlier payments, all-identity} injected before the honest reply at each of the four replies; after every call a closing message from a copy of the state is checked against the merchant's close check, the ledger and the set of disclosed locks. Distinct = distinct (stage, fault kind) injections and distinct (stage, observation point, ledger state) closes. Added later: in-memory identity replies for the four merchant calls, replies made of small-order points. Channel id changed in one of its two top bits; another customer's honest reply delivered first at each of the four reply points."));
    let m = match fixtures::merchant(c.seed, "m0") {
        Ok(m) => m,
        Err(e) => return c.inconclusive(&e),
    };
    let other = match fixtures::merchant(c.seed, "m1") {
        Ok(m) => m,
        Err(e) => return c.inconclusive(&e),
    };
    identity_through_api(c, m);
    foreign_reply_first(c, m);
    let nh = c.tier.pick(48usize, 400);
    let payments = c.tier.pick(3usize, 10);
    let nfaults = c.tier.pick(3usize, 18);
    let boundary: Vec<(u64, u64)> = vec![(10, 1000), (0, 9), (9, 0), (MAXB, 0), (0, MAXB), (1 << 62, 1 << 62), (MAXB - 1, 1), (1, 1)];
    for h in 0..nh {
        let name = format!("history{}", h);
        c.case(&name, |c| {
            let mut rng = c.rng(&format!("{}/setup", name));
            let (cust, merch) = if h < boundary.len() { boundary[h] } else { (shaped_u64(&mut rng) & MAXB, shaped_u64(&mut rng) & MAXB) };
            // replies recorded in an unrelated session of the same merchant (for the replay faults)
            let mut recorded: Vec<(String, Vec<u8>)> = vec![];
            if let Ok(mut o) = Sess::open(m, &mut rng, 50, 50, b"other-session") {
                let _ = o.pay(&mut rng, amount(1).unwrap(), b"other-session");
                for (i, r) in o.log.iter().enumerate() {
                    if r.dir == "m2c" {
                        recorded.push((format!("other-session-{}-{}", r.kind, i), r.bytes.clone()));
                    }
                }
            }
            if let Err(p) = guard(|| run_history(c, m, other, &name, cust, merch, payments, nfaults, &mut recorded)) {
                c.violation(&format!("C03 panic loc={}", repo_rel(&p.location)), json!({"panic": p.message, "history": name}));
            }
        });
    }
}
