//! Small helpers shared by the property monitors.

use rand_core::RngCore;

/// strip the repository prefix and the line number from a panic location
pub fn repo_rel(loc: &str) -> String {
    let mut s = loc.to_string();
    if let Some(p) = s.rfind(':') {
        if s[p + 1..].chars().all(|ch| ch.is_ascii_digit()) {
            s.truncate(p);
        }
    }
    for marker in ["zkabacus-crypto/", "zkchannels-crypto/"] {
        if let Some(p) = s.find(marker) {
            return s[p..].to_string();
        }
    }
    if s.starts_with("/rustc/") {
        if let Some(p) = s.find("/library/") {
            return format!("std:{}", &s[p + 1..]);
        }
    }
    if let Some(p) = s.find("/registry/src/") {
        let rest = &s[p + "/registry/src/".len()..];
        if let Some(q) = rest.find('/') {
            return format!("dep:{}", &rest[q + 1..]);
        }
    }
    s
}

pub fn le64(b: &[u8]) -> u64 {
    let mut x = [0u8; 8];
    x.copy_from_slice(&b[..8]);
    u64::from_le_bytes(x)
}

/// coarse class of a u64 (used in violation signatures, so that they are stable across seeds)
pub fn class_u64(v: u64) -> String {
    const MAXB: u64 = i64::MAX as u64;
    match v {
        0 => "0".into(),
        1 => "1".into(),
        x if x == MAXB => "2^63-1".into(),
        x if x == MAXB - 1 => "2^63-2".into(),
        x if x == MAXB + 1 => "2^63".into(),
        x if x == MAXB + 2 => "2^63+1".into(),
        u64::MAX => "2^64-1".into(),
        x if x > MAXB => ">2^63".into(),
        x if x.is_power_of_two() => format!("2^{}", x.trailing_zeros()),
        _ => "mid".into(),
    }
}

pub fn class_i64(v: i64) -> String {
    if v == i64::MIN {
        "i64::MIN".into()
    } else if v < 0 {
        format!("-{}", class_u64(v.unsigned_abs()))
    } else {
        class_u64(v as u64)
    }
}

/// random u64 with a shape that favours boundaries
pub fn shaped_u64(rng: &mut impl RngCore) -> u64 {
    let r = rng.next_u64();
    match rng.next_u32() % 8 {
        0 => r,
        1 => r >> 1,
        2 => r >> (rng.next_u32() % 64),
        3 => (1u64 << (rng.next_u32() % 64)).wrapping_add((rng.next_u32() % 5) as u64).wrapping_sub(2),
        4 => u64::MAX - (r >> (32 + rng.next_u32() % 32)),
        5 => (i64::MAX as u64).wrapping_add((rng.next_u32() % 7) as u64).wrapping_sub(3),
        6 => r % 1000,
        _ => r >> 2,
    }
}
