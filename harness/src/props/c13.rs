//! C13 — range constraints accept exactly values in [0, 2^63) linked to the message.
//!
//! Four observation points: the result of the library's range prover on boundary / random i64
//! inputs; `verify_range_constraint` on honest constraints under every mismatch of link,
//! parameters and challenge; `verify_range_constraint` on attacker-assembled constraints (shadow
//! prover, digit count L and radix U read from the observed layout) — none may verify while the
//! value the harness placed in the linked slot is outside [0, 2^63); and
//! `RangeConstraintParameters::validate` against "every i-th signature verifies on digit i".
//! Every verifier call is also compared with the reference evaluation on the wire atoms.

use crate::ctx::{hex, Ctx};
use crate::fixtures::{self, Merchant};
use crate::props::util::class_i64;
use crate::refs::*;
use crate::shadow::{RangeProver, Resp, Schnorr};
use crate::tracer::{trace, Trace};
use crate::wire::{dec, rand_g1};
use bls12_381::{G1Projective, G2Projective, Scalar};
use ff::Field;
use group::Curve;
use rand_chacha::ChaCha20Rng;
use rand_core::RngCore;
use serde_json::{json, Value};
use zkchannels_crypto::{
    pedersen::PedersenParameters,
    pointcheval_sanders::KeyPair,
    proofs::{
        verif_hooks, Challenge, ChallengeBuilder, CommitmentProof, CommitmentProofBuilder, RangeConstraint, RangeConstraintBuilder,
        RangeConstraintParameters, SignatureProofBuilder, SignatureRequestProofBuilder,
    },
    Message,
};

type R = ChaCha20Rng;

const TWO63: u128 = 1u128 << 63;

/// Observed layout of range constraints and parameters.
struct Layout {
    /// number of digit proofs in an honest constraint
    l: usize,
    /// number of published digit signatures
    u: u64,
    /// U^L
    cap: u128,
    /// traced honest constraint, used as the byte template of assembled ones
    template: Trace,
}

fn count_digits(t: &Trace) -> usize {
    let mut n = 0;
    while !t.by_fpath(&format!("digit_proofs/[{}]/blinded_signature/sigma1", n)).is_empty() {
        n += 1;
    }
    n
}

fn layout(m: &'static Merchant, seed: u64) -> Result<Layout, String> {
    let mut rng = Ctx::fixture_rng(seed, &format!("c13/template/{}", m.label));
    let rp = m.ccfg.range_constraint_parameters();
    let b = RangeConstraintBuilder::generate_constraint_commitments(1, rp, &mut rng).map_err(|_| "C13: the range prover refused the value 1 (no template)".to_string())?;
    let ch = ChallengeBuilder::new().with(&b).finish();
    let rc = b.generate_constraint_response(ch);
    let template = trace(&rc)?;
    let l = count_digits(&template);
    let u = m.digit_sigs.len() as u64;
    if l == 0 || u < 2 {
        return Err(format!("C13: implausible observed layout L={} U={}", l, u));
    }
    let cap = (u as u128).checked_pow(l as u32).ok_or("C13: U^L does not fit 128 bits")?;
    Ok(Layout { l, u, cap, template })
}

// ------------------------------------------------------------------------------------------
// reference evaluation of a range constraint from its wire atoms

struct RangeRef {
    digits_ok: bool,
    first_bad: Option<String>,
    sum: Scalar,
}

fn range_ref(pk: &PkAtoms, t: &Trace, radix: u64, c: &Scalar) -> Result<RangeRef, String> {
    let mut out = RangeRef { digits_ok: true, first_bad: None, sum: Scalar::zero() };
    let mut pw = Scalar::one();
    let l = count_digits(t);
    if l == 0 {
        return Err("range_ref: no digit proofs in the traced constraint".into());
    }
    for j in 0..l {
        let p = format!("digit_proofs/[{}]", j);
        // curve points outside the group are not signature elements: such a digit proof is not well formed
        let s1o = g1(&t.fget(&format!("{}/blinded_signature/sigma1", p))?);
        let s2o = g1(&t.fget(&format!("{}/blinded_signature/sigma2", p))?);
        let com = g2(&t.fget(&format!("{}/commitment_proof/commitment", p))?).ok_or("range_ref: commitment")?;
        let tt = g2(&t.fget(&format!("{}/commitment_proof/scalar_commitment", p))?).ok_or("range_ref: scalar commitment")?;
        let bf = sc(&t.fget(&format!("{}/commitment_proof/blinding_factor_response_scalar", p))?).ok_or("range_ref: bf response")?;
        let mut rs = vec![];
        loop {
            let path = format!("{}/commitment_proof/message_response_scalars/[{}]", p, rs.len());
            if t.by_fpath(&path).is_empty() {
                break;
            }
            rs.push(sc(&t.fget(&path)?).ok_or("range_ref: response scalar")?);
        }
        if rs.len() != 1 {
            return Err(format!("range_ref: digit proof {} has {} response scalars", j, rs.len()));
        }
        let (wf, sch, link) = match (s1o, s2o) {
            (Some(s1), Some(s2)) => sigproof_ref(pk, &s1, &s2, &com, &tt, c, &bf, &rs),
            _ => (false, false, false),
        };
        if !(wf && sch && link) && out.digits_ok {
            out.digits_ok = false;
            out.first_bad = Some(format!("digit {}: well-formed={} schnorr={} pairing-link={}", j, wf, sch, link));
        }
        out.sum += pw * rs[0];
        pw *= Scalar::from(radix);
    }
    Ok(out)
}

fn scalar_u128(x: u128) -> Scalar {
    Scalar::from_raw([x as u64, (x >> 64) as u64, 0, 0])
}

/// is the scalar the encoding of an integer in [0, 2^63)? (read from its bytes)
fn in_range(v: &Scalar) -> bool {
    let b = v.to_bytes();
    b[8..].iter().all(|x| *x == 0) && b[7] & 0x80 == 0
}

fn value_class(v: &Scalar) -> String {
    let b = v.to_bytes();
    if b[16..].iter().all(|x| *x == 0) {
        let mut lo = [0u8; 16];
        lo.copy_from_slice(&b[..16]);
        let x = u128::from_le_bytes(lo);
        return match x {
            0 => "0".into(),
            1 => "1".into(),
            x if x == TWO63 - 1 => "2^63-1".into(),
            x if x == TWO63 => "2^63".into(),
            x if x == TWO63 + 1 => "2^63+1".into(),
            x if x == (1u128 << 64) - 1 => "2^64-1".into(),
            x if x < TWO63 => "in-range".into(),
            _ => ">2^63".into(),
        };
    }
    let n = -*v;
    if n == Scalar::one() {
        "q-1".into()
    } else if n == scalar_u128(TWO63) {
        "q-2^63".into()
    } else {
        "large".into()
    }
}

// ------------------------------------------------------------------------------------------
// part A/B: the library's prover and honest constraints

#[derive(Debug, Clone, Copy, PartialEq, Eq)]
enum Ty {
    ComG1,
    ComG2,
    Sig,
    Req,
}

impl Ty {
    const ALL: [Ty; 4] = [Ty::ComG1, Ty::ComG2, Ty::Sig, Ty::Req];
    /// for case names
    fn tag(self) -> &'static str {
        match self {
            Ty::ComG1 => "ComG1",
            Ty::ComG2 => "ComG2",
            Ty::Sig => "Sig",
            Ty::Req => "Req",
        }
    }
    fn short(self) -> &'static str {
        match self {
            Ty::ComG1 => "CommitmentProof<G1>",
            Ty::ComG2 => "CommitmentProof<G2>",
            Ty::Sig => "SignatureProof",
            Ty::Req => "SignatureRequestProof",
        }
    }
}

struct Linked<const N: usize> {
    ch: Challenge,
    rc: RangeConstraint,
    rs: [Scalar; N],
    proof_ok: bool,
}

/// the library's prover for the linked proof and the constraint, one challenge for both
fn link_and_answer<const N: usize>(ty: Ty, rng: &mut R, msg: [Scalar; N], cs: &[Option<Scalar>; N], rb: RangeConstraintBuilder, rp: &RangeConstraintParameters, salt: &[u8]) -> Linked<N> {
    let m = Message::new(msg);
    match ty {
        Ty::ComG1 => {
            let pp = PedersenParameters::<G1Projective, N>::new(rng);
            let b = CommitmentProofBuilder::generate_proof_commitments(rng, m, cs, &pp);
            let ch = ChallengeBuilder::new().with(&rb).with(&b).with(rp).with_bytes(salt).finish();
            let p = b.generate_proof_response(ch);
            Linked { ch, rc: rb.generate_constraint_response(ch), rs: *p.conjunction_response_scalars(), proof_ok: p.verify_knowledge_of_opening(&pp, ch) }
        }
        Ty::ComG2 => {
            let pp = PedersenParameters::<G2Projective, N>::new(rng);
            let b = CommitmentProofBuilder::generate_proof_commitments(rng, m, cs, &pp);
            let ch = ChallengeBuilder::new().with(&rb).with(&b).with(rp).with_bytes(salt).finish();
            let p = b.generate_proof_response(ch);
            Linked { ch, rc: rb.generate_constraint_response(ch), rs: *p.conjunction_response_scalars(), proof_ok: p.verify_knowledge_of_opening(&pp, ch) }
        }
        Ty::Sig => {
            let kp = KeyPair::<N>::new(rng);
            let sig = m.sign(rng, &kp);
            let b = SignatureProofBuilder::generate_proof_commitments(rng, m, sig, cs, kp.public_key());
            let ch = ChallengeBuilder::new().with(&rb).with(&b).with(rp).with_bytes(salt).finish();
            let p = b.generate_proof_response(ch);
            Linked { ch, rc: rb.generate_constraint_response(ch), rs: *p.conjunction_response_scalars(), proof_ok: p.verify_knowledge_of_signature(kp.public_key(), ch) }
        }
        Ty::Req => {
            let kp = KeyPair::<N>::new(rng);
            let b = SignatureRequestProofBuilder::generate_proof_commitments(rng, m, cs, kp.public_key());
            let ch = ChallengeBuilder::new().with(&rb).with(&b).with(rp).with_bytes(salt).finish();
            let p = b.generate_proof_response(ch);
            Linked { ch, rc: rb.generate_constraint_response(ch), rs: *p.conjunction_response_scalars(), proof_ok: p.verify_knowledge_of_opening(kp.public_key(), ch).is_some() }
        }
    }
}

/// one comparison of the verifier with (a) what the property says for an honest constraint and
/// (b) the reference evaluation
fn observe_honest(c: &mut Ctx, ctx_sig: &str, class: &str, lib: bool, expected: bool, reference: bool, detail: &Value) {
    c.eval();
    c.count(&format!("{}[{}]", if lib { "verified" } else { "rejected" }, class), 1);
    if lib != expected {
        let what = if expected { "C13 honest-constraint-rejected" } else { "C13 honest-constraint-verifies-under-mismatch" };
        c.violation(&format!("{} check={} {}", what, class, ctx_sig), detail.clone());
    }
    if lib != reference {
        c.violation(
            &format!("C13 verifier-differs-from-reference verifier={} reference={} check={} {}", lib, reference, class, ctx_sig),
            detail.clone(),
        );
    }
}

fn honest_case<const N: usize>(c: &mut Ctx, m: &'static Merchant, other: &'static Merchant, lay: &Layout, ty: Ty, vname: &str, v: i64, pos_seed: usize) {
    let pos = pos_seed % N;
    let name = format!("honest/{}/v={}/N={}/pos={}", ty.tag(), vname, N, pos);
    c.case(&name, |c| {
        let mut rng = c.rng(&name);
        let rp = m.ccfg.range_constraint_parameters();
        let vclass = if vname.starts_with("random") { "random".to_string() } else { vname.to_string() };
        // A. the prover accepts every value in [0, 2^63)
        c.eval();
        let rb = match RangeConstraintBuilder::generate_constraint_commitments(v, rp, &mut rng) {
            Ok(rb) => {
                c.count("prover_accepted[non-negative]", 1);
                rb
            }
            Err(_) => {
                c.count("prover_refused[non-negative]", 1);
                c.violation(&format!("C13 prover-refused-in-range-value value={}", vclass), json!({"value": v.to_string()}));
                return;
            }
        };
        // B. linked to slot `pos` of a proof of this type
        let mut msg = [Scalar::zero(); N];
        for (i, x) in msg.iter_mut().enumerate() {
            *x = match (i + pos_seed) % 4 {
                0 => Scalar::random(&mut rng),
                1 => Scalar::zero(),
                2 => Scalar::from(v as u64) + Scalar::one(),
                _ => q_minus_1(),
            };
        }
        msg[pos] = Scalar::from(v as u64);
        let mut cs = [None; N];
        cs[pos] = Some(rb.commitment_scalar());
        let lk = link_and_answer::<N>(ty, &mut rng, msg, &cs, rb, rp, name.as_bytes());
        let cval = lk.ch.to_scalar();
        let t = match trace(&lk.rc) {
            Ok(t) => t,
            Err(e) => return c.inconclusive(&e),
        };
        let sig = format!("link={} N={} value={}", ty.short(), N, vclass);
        let detail = json!({"value": v.to_string(), "slot": pos, "challenge": hex(&cval.to_bytes()), "constraint": hex(&t.bytes),
            "responses": lk.rs.iter().map(|s| hex(&s.to_bytes())).collect::<Vec<_>>()});
        if !lk.proof_ok {
            // completeness of the linked proof is C10's subject; here it only prevents observation
            return c.inconclusive("C13: the linked proof itself did not verify — cannot observe the link");
        }
        let base = match range_ref(&m.range_pk, &t, lay.u, &cval) {
            Ok(r) => r,
            Err(e) => return c.inconclusive(&e),
        };
        c.distinct(&format!("honest/{}/N={}/pos={}/{}", ty.tag(), N, pos, vname));
        // same parameters, same challenge, linked slot
        let lib = lk.rc.verify_range_constraint(rp, lk.ch, lk.rs[pos]);
        observe_honest(c, &sig, "linked-slot", lib, true, base.digits_ok && base.sum == lk.rs[pos], &detail);
        if !lib {
            return;
        }
        // every other slot (sampled for long tuples)
        let others: Vec<usize> = if N <= 5 || c.tier.pick(false, true) {
            (0..N).filter(|i| *i != pos).collect()
        } else {
            let mut v: Vec<usize> = vec![(pos + 1) % N, (pos + N - 1) % N, (pos + N / 2) % N];
            v.sort();
            v.dedup();
            v.retain(|i| *i != pos);
            v
        };
        for i in others {
            let lib = lk.rc.verify_range_constraint(rp, lk.ch, lk.rs[i]);
            c.distinct(&format!("honest/{}/N={}/pos={}/{}/other-slot{}", ty.tag(), N, pos, vname, i));
            observe_honest(c, &sig, "other-slot", lib, false, base.digits_ok && base.sum == lk.rs[i], &detail);
        }
        // a neighbouring response scalar, and the plain value instead of the response
        for (what, x) in [("response+1", lk.rs[pos] + Scalar::one()), ("value-instead-of-response", Scalar::from(v as u64)), ("zero", Scalar::zero())] {
            if x == lk.rs[pos] {
                continue;
            }
            let lib = lk.rc.verify_range_constraint(rp, lk.ch, x);
            observe_honest(c, &sig, what, lib, false, base.digits_ok && base.sum == x, &detail);
        }
        // other parameters
        {
            let rp2 = other.ccfg.range_constraint_parameters();
            let lib = lk.rc.verify_range_constraint(rp2, lk.ch, lk.rs[pos]);
            match range_ref(&other.range_pk, &t, other.digit_sigs.len() as u64, &cval) {
                Ok(r) => observe_honest(c, &sig, "other-parameters", lib, false, r.digits_ok && r.sum == lk.rs[pos], &detail),
                Err(e) => c.inconclusive(&e),
            }
        }
        // other challenge
        {
            let ch2 = ChallengeBuilder::new().with(&lk.rc).with_bytes(b"another challenge").finish();
            if ch2.to_scalar() == cval {
                c.inconclusive("C13: could not produce a different challenge");
            } else {
                let lib = lk.rc.verify_range_constraint(rp, ch2, lk.rs[pos]);
                match range_ref(&m.range_pk, &t, lay.u, &ch2.to_scalar()) {
                    Ok(r) => observe_honest(c, &sig, "other-challenge", lib, false, r.digits_ok && r.sum == lk.rs[pos], &detail),
                    Err(e) => c.inconclusive(&e),
                }
            }
        }
        if v == i64::MAX || v == 0 {
            c.sample(json!({"kind": "honest", "link": ty.short(), "N": N, "slot": pos, "value": v.to_string(), "digits": lay.l, "radix": lay.u}));
        }
        verif_hooks::clear();
    });
}

fn honest_dispatch(c: &mut Ctx, m: &'static Merchant, other: &'static Merchant, lay: &Layout, n: usize, ty: Ty, vname: &str, v: i64, pos_seed: usize) {
    match n {
        1 => honest_case::<1>(c, m, other, lay, ty, vname, v, pos_seed),
        2 => honest_case::<2>(c, m, other, lay, ty, vname, v, pos_seed),
        3 => honest_case::<3>(c, m, other, lay, ty, vname, v, pos_seed),
        5 => honest_case::<5>(c, m, other, lay, ty, vname, v, pos_seed),
        8 => honest_case::<8>(c, m, other, lay, ty, vname, v, pos_seed),
        _ => honest_case::<13>(c, m, other, lay, ty, vname, v, pos_seed),
    }
}

fn non_negative_values(c: &Ctx) -> Vec<(String, i64)> {
    let mut v: Vec<(String, i64)> = vec![("0".into(), 0), ("1".into(), 1), ("127".into(), 127), ("128".into(), 128)];
    for k in 1..=8u32 {
        let p = 128i64.pow(k);
        if k > 1 {
            v.push((format!("128^{}-1", k), p - 1));
            v.push((format!("128^{}", k), p));
        }
        v.push((format!("128^{}+1", k), p + 1));
    }
    v.push(("2^62".into(), 1 << 62));
    v.push(("2^63-2".into(), i64::MAX - 1));
    v.push(("2^63-1".into(), i64::MAX));
    let mut rng = c.rng("non-negative-values");
    for k in 0..c.tier.pick(8usize, 120) {
        let bits = 1 + (rng.next_u32() % 63);
        v.push((format!("random{}", k), ((rng.next_u64() >> (64 - bits)) as i64) & i64::MAX));
    }
    v
}

fn negative_cases(c: &mut Ctx, m: &'static Merchant) {
    let mut vals: Vec<i64> = vec![i64::MIN, i64::MIN + 1, -(1 << 62), -(1 << 62) - 1, -1, -2, -127, -128, -129];
    for k in 1..=8u32 {
        let p = 128i64.pow(k);
        vals.extend([-p, -p - 1, -p + 1]);
    }
    vals.push(-i64::MAX);
    let nrand = c.tier.pick(200usize, 5000);
    let mut rng = c.rng("negative-values");
    for _ in 0..nrand {
        let bits = 1 + (rng.next_u32() % 63);
        let x = (rng.next_u64() >> (64 - bits)) as i64 & i64::MAX;
        vals.push(-x - 1);
    }
    let chunk = 64usize;
    for (ci, vs) in vals.chunks(chunk).enumerate() {
        let name = format!("prover/negative/{}", ci);
        c.case(&name, |c| {
            let mut rng = c.rng(&name);
            let rp = m.ccfg.range_constraint_parameters();
            for v in vs {
                c.eval();
                c.distinct(&format!("prover/negative/{}", v));
                match RangeConstraintBuilder::generate_constraint_commitments(*v, rp, &mut rng) {
                    Err(e) => {
                        c.count("prover_refused[negative]", 1);
                        if e.0 != *v {
                            c.count("refusal_reports_another_value", 1);
                        }
                    }
                    Ok(_) => {
                        c.count("prover_accepted[negative]", 1);
                        c.violation(&format!("C13 prover-accepted-negative-value value={}", class_i64(*v)), json!({"value": v.to_string()}));
                    }
                }
            }
            // positive twin in the same case: the neighbours on the other side of zero
            for v in [0i64, 1, i64::MAX] {
                c.eval();
                match RangeConstraintBuilder::generate_constraint_commitments(v, rp, &mut rng) {
                    Ok(_) => c.count("prover_accepted[non-negative]", 1),
                    Err(_) => {
                        c.count("prover_refused[non-negative]", 1);
                        c.violation(&format!("C13 prover-refused-in-range-value value={}", class_i64(v)), json!({"value": v.to_string()}));
                    }
                }
            }
            verif_hooks::clear();
        });
    }
}

// ------------------------------------------------------------------------------------------
// part C: attacker-assembled constraints

#[derive(Debug, Clone)]
struct Plan {
    /// family (stable; goes into signatures and counters)
    family: String,
    /// variant inside the family (e.g. digit position), for case names
    variant: String,
    digits: Vec<Scalar>,
    sig_idx: Vec<usize>,
    /// the value placed in the linked slot
    v: Scalar,
    /// a positive control: the reference must accept it
    control: bool,
    /// digit positions whose proofs share one signature randomiser
    shared: Vec<usize>,
    /// (position, i, j): the signature presented at `position` is the combination
    /// (s1_i, s2_i + (s2_j - s2_i) * (t - i)/(j - i)) of the published signatures on digits i and j, where t
    /// is the digit scalar placed there (a signature on t only if the two share their first element)
    extrapolate: Option<(usize, usize, usize)>,
    /// honest digits for another value; after the challenge is known the response of this digit position
    /// is moved so that the weighted sum matches the linked value, and its first Schnorr message T is
    /// recomputed to fit (works only if T does not enter the challenge)
    post_challenge: Option<usize>,
    /// the "signature" presented at this position is a pair of curve points outside the prime-order group
    outside_group_at: Option<usize>,
}

fn digits_of(lay: &Layout, x: u128) -> (Vec<Scalar>, Vec<usize>) {
    let mut x = x;
    let mut ds = vec![];
    let mut idx = vec![];
    for _ in 0..lay.l {
        let d = (x % lay.u as u128) as u64;
        ds.push(Scalar::from(d));
        idx.push(d as usize);
        x /= lay.u as u128;
    }
    (ds, idx)
}

fn plans(c: &Ctx, lay: &Layout) -> Vec<Plan> {
    let mut rng = c.rng("forger-plans");
    let u = lay.u as u128;
    let l = lay.l;
    let cap = lay.cap;
    let top_in = cap.min(TWO63) - 1; // largest in-range value the layout can represent
    let mut v: Vec<Plan> = vec![];
    let mut push = |family: &str, variant: String, d: (Vec<Scalar>, Vec<usize>), val: Scalar, control: bool| {
        v.push(Plan { family: family.into(), variant, digits: d.0, sig_idx: d.1, v: val, control, shared: vec![], extrapolate: None, post_challenge: None, outside_group_at: None });
    };
    let all_max = (vec![Scalar::from(lay.u - 1); l], vec![(lay.u - 1) as usize; l]);
    // controls: honest decompositions assembled by the shadow prover
    let mut in_vals: Vec<u128> = vec![0, 1, top_in, top_in / 2 + 7];
    for _ in 0..c.tier.pick(2usize, 30) {
        in_vals.push((rng.next_u64() as u128) % (top_in + 1));
    }
    for (k, x) in in_vals.iter().enumerate() {
        push("honest-digits", format!("{}", k), digits_of(lay, *x), scalar_u128(*x), true);
    }
    // all-maximal digits represent U^L - 1
    push("all-max-digits/linked-to-U^L-1", "0".into(), all_max.clone(), scalar_u128(cap - 1), cap - 1 < TWO63);
    if cap > TWO63 {
        // the layout can represent values beyond the range: present them exactly
        for (k, x) in [TWO63, TWO63 + 1, cap - 1, (TWO63 + cap) / 2].into_iter().enumerate() {
            push("exact-digits-of-out-of-range-value", format!("{}", k), digits_of(lay, x), scalar_u128(x), false);
        }
    }
    // out-of-range values with best-effort digits
    let outs: Vec<(&str, Scalar, Option<u128>, Option<u128>)> = vec![
        // (name, scalar, as non-negative integer, as magnitude of a negative integer)
        ("2^63", scalar_u128(TWO63), Some(TWO63), None),
        ("2^63+1", scalar_u128(TWO63 + 1), Some(TWO63 + 1), None),
        ("2^64-1", scalar_u128((1 << 64) - 1), Some((1 << 64) - 1), None),
        ("U^L", scalar_u128(cap), Some(cap), None),
        ("q-1", -Scalar::one(), None, Some(1)),
        ("q-2^63", -scalar_u128(TWO63), None, Some(TWO63)),
        ("q-2^63+1", -scalar_u128(TWO63 - 1), None, Some(TWO63 - 1)),
    ];
    for (name, s, pos_int, neg_mag) in outs {
        if in_range(&s) || (name == "U^L" && cap == TWO63) {
            continue;
        }
        let residue = match (pos_int, neg_mag) {
            (Some(x), _) => x % cap,
            (_, Some(k)) => (cap - (k % cap)) % cap,
            _ => 0,
        };
        push("out-of-range/residue-digits", name.into(), digits_of(lay, residue), s, false);
        push("out-of-range/all-max-digits", name.into(), all_max.clone(), s, false);
        if let Some(x) = pos_int {
            // exact representation with a top digit outside the alphabet, under a published signature
            let low = x % (cap / u);
            let top = x / (cap / u);
            let (mut d, mut i) = digits_of(lay, low);
            d[l - 1] = scalar_u128(top);
            let mut cands = vec![(top % u) as usize, (lay.u - 1) as usize];
            cands.dedup();
            for cand in cands {
                i[l - 1] = cand;
                push("out-of-range/top-digit-outside-alphabet", format!("{}/sig{}", name, cand), (d.clone(), i.clone()), s, false);
            }
        }
        if let Some(k) = neg_mag {
            // exact representation with a negative lowest digit
            let (mut d, mut i) = digits_of(lay, 0);
            d[0] = -scalar_u128(k);
            let mut cands = vec![(k % u) as usize, 0usize];
            cands.dedup();
            for cand in cands {
                i[0] = cand;
                push("out-of-range/negative-digit", format!("{}/sig{}", name, cand), (d.clone(), i.clone()), s, false);
            }
            // -k = (U^L - k) - U^L: residue digits with the top digit lowered by U
            let (mut d, i) = digits_of(lay, residue);
            d[l - 1] -= Scalar::from(lay.u);
            push("out-of-range/top-digit-lowered-by-U", name.into(), (d, i), s, false);
        }
    }
    // forgeries around in-range values: the value is fine, the constraint is not
    let mut bases: Vec<u128> = vec![(127 * u + 5) % (top_in + 1), top_in - 3, (1u128 << 62).min(top_in) / 3 * 2 + 12345];
    for _ in 0..c.tier.pick(1usize, 12) {
        bases.push((rng.next_u64() as u128) % (top_in + 1));
    }
    for (bi, x) in bases.iter().enumerate() {
        let (d, i) = digits_of(lay, *x);
        // swapped digits
        let mut pair = None;
        'find: for a in 0..l {
            for b in (a + 1..l).rev() {
                if i[a] != i[b] {
                    pair = Some((a, b));
                    break 'find;
                }
            }
        }
        if let Some((a, b)) = pair {
            let (mut d2, mut i2) = (d.clone(), i.clone());
            d2.swap(a, b);
            i2.swap(a, b);
            let mut x2: u128 = 0;
            for j in (0..l).rev() {
                x2 = x2 * u + i2[j] as u128;
            }
            push("swapped-digits/linked-to-original", format!("b{}", bi), (d2.clone(), i2.clone()), scalar_u128(*x), false);
            if x2 < TWO63 {
                push("swapped-digits/linked-to-swapped(twin)", format!("b{}", bi), (d2, i2), scalar_u128(x2), true);
            }
        }
        // a published signature claimed for another digit value, at each digit position
        let positions: Vec<usize> = if c.tier.pick(true, false) { vec![0, l / 2, l - 1] } else { (0..l).collect() };
        for j in positions {
            let mut i2 = i.clone();
            i2[j] = (i[j] + 1 + (rng.next_u32() as usize) % (lay.u as usize - 1)) % lay.u as usize;
            push("signature-of-another-digit", format!("b{}/digit{}", bi, j), (d.clone(), i2), scalar_u128(*x), false);
        }
        // digits of another value
        for (k, x2) in [(*x + 1) % (top_in + 1), (*x + u.pow((l / 2) as u32)) % (top_in + 1), top_in - *x].into_iter().enumerate() {
            if x2 != *x {
                push("digits-of-another-value", format!("b{}/{}", bi, k), digits_of(lay, x2), scalar_u128(*x), false);
            }
        }
        // same value, a digit outside the alphabet compensated in the next position
        if i[1] >= 1 {
            let (mut d2, i2) = (d.clone(), i.clone());
            d2[0] += Scalar::from(lay.u);
            d2[1] -= Scalar::one();
            push("digit-outside-alphabet-compensated", format!("b{}", bi), (d2, i2), scalar_u128(*x), false);
        }
    }
    // two cooperating invalid digit proofs: positions a and b present the published signature on one
    // digit d under one common randomiser, claim d+delta and d-delta, and delta is solved so that the
    // weighted sum is any target value. Each proof alone is invalid (its pairing link is off by
    // e(sigma1', Y~)^(+-delta)); the two errors are inverse to each other.
    if l >= 2 {
        let targets: Vec<(&str, Scalar)> = vec![
            ("-1", -Scalar::one()),
            ("2^63", scalar_u128(TWO63)),
            ("2^64+5", scalar_u128((1u128 << 64) + 5)),
            ("random", Scalar::random(&mut rng)),
        ];
        let pairs: Vec<(usize, usize)> = vec![(0, 1), (l - 2, l - 1), (0, l - 1)];
        for (tname, target) in targets {
            for (a, b) in pairs.iter().copied() {
                let dsig = 5usize % (lay.u as usize);
                let (mut d, mut i) = digits_of(lay, 77 * u + 3);
                d[a] = Scalar::from(dsig as u64);
                d[b] = Scalar::from(dsig as u64);
                i[a] = dsig;
                i[b] = dsig;
                // weighted sum with digit d at both positions
                let pw = |k: usize| Scalar::from(lay.u).pow_vartime(&[k as u64, 0, 0, 0]);
                let mut base = Scalar::zero();
                for k in 0..l {
                    base += pw(k) * d[k];
                }
                let denom = pw(a) - pw(b);
                let inv = denom.invert();
                if !bool::from(inv.is_some()) {
                    continue;
                }
                let delta = (target - base) * inv.unwrap();
                d[a] += delta;
                d[b] -= delta;
                v.push(Plan { family: "coordinated-pair-of-invalid-digits".into(), variant: format!("{}/pos{}-{}", tname, a, b), digits: d, sig_idx: i, v: target, control: false, shared: vec![a, b], extrapolate: None, post_challenge: None, outside_group_at: None });
            }
        }
    }
    // a "combination of the published digit signatures" in the algebraic sense: two published signatures
    // extrapolated to a digit outside the alphabet
    {
        let half = cap / u;
        let mut k = 0;
        for (i, j) in [(0usize, 1usize), (lay.u as usize - 2, lay.u as usize - 1), (5 % lay.u as usize, 77 % lay.u as usize)] {
            if i == j {
                continue;
            }
            // 2^63 (or U^L when the layout is smaller) with the top digit one beyond the alphabet
            let x = TWO63.min(cap);
            let (mut d, idx) = digits_of(lay, x % half);
            d[l - 1] = scalar_u128(x / half);
            v.push(Plan { family: "signature-extrapolated-from-two-published".into(), variant: format!("top-digit/{}-{}", i, j), digits: d, sig_idx: idx, v: scalar_u128(x), control: false, shared: vec![], extrapolate: Some((l - 1, i, j)), post_challenge: None, outside_group_at: None });
            // -1 with the lowest digit -1
            let (mut d, idx) = digits_of(lay, 0);
            d[0] = -Scalar::one();
            v.push(Plan { family: "signature-extrapolated-from-two-published".into(), variant: format!("negative-digit/{}-{}", i, j), digits: d, sig_idx: idx, v: -Scalar::one(), control: false, shared: vec![], extrapolate: Some((0, i, j)), post_challenge: None, outside_group_at: None });
            // control: interpolation that lands on i itself is the published signature
            if k == 0 {
                let (d, idx) = digits_of(lay, 3 * u + i as u128);
                v.push(Plan { family: "signature-extrapolated(control:lands-on-published)".into(), variant: format!("{}-{}", i, j), digits: d, sig_idx: idx, v: scalar_u128(3 * u + i as u128), control: true, shared: vec![], extrapolate: Some((0, i, j)), post_challenge: None, outside_group_at: None });
            }
            k += 1;
        }
    }
    // a top digit outside the alphabet "signed" by two curve points outside the prime-order group (they pair
    // to 1 with everything); a decoder that checks group membership never lets such a constraint in
    {
        let half = cap / u;
        let x = TWO63.min(cap);
        let (mut d, idx) = digits_of(lay, x % half);
        d[l - 1] = scalar_u128(x / half);
        v.push(Plan { family: "digit-signature-outside-the-group".into(), variant: "top-digit".into(), digits: d, sig_idx: idx, v: scalar_u128(x), control: false, shared: vec![], extrapolate: None, post_challenge: None, outside_group_at: Some(l - 1) });
    }
    // the adaptive prover: honest digits of an in-range value, linked slot out of range, one digit proof
    // re-fitted after the challenge
    {
        let honest_val = (77 * u + 3) % (top_in + 1);
        for (tname, target) in [("-1", -Scalar::one()), ("2^63", scalar_u128(TWO63)), ("q-2^63", -scalar_u128(TWO63))] {
            for j in [0usize, l - 1] {
                let (d, idx) = digits_of(lay, honest_val);
                v.push(Plan { family: "post-challenge-digit-proof".into(), variant: format!("{}/digit{}", tname, j), digits: d, sig_idx: idx, v: target, control: false, shared: vec![], extrapolate: None, post_challenge: Some(j), outside_group_at: None });
            }
        }
    }
    v
}

fn fill_range(tr: &mut Trace, rp: &RangeProver, c: &Scalar) -> Result<(), String> {
    for (j, d) in rp.digits.iter().enumerate() {
        d.fill(tr, &format!("digit_proofs/[{}]", j), &d.sch.respond(c))?;
    }
    if !tr.by_fpath(&format!("digit_proofs/[{}]/blinded_signature/sigma1", rp.digits.len())).is_empty() {
        return Err("C13: the template constraint has more digits than the forger".into());
    }
    Ok(())
}

fn fill_cp(tr: &mut Trace, com: &[u8], t: &[u8], r: &Resp) -> Result<(), String> {
    tr.fset("commitment", com)?;
    tr.fset("scalar_commitment", t)?;
    tr.fset("blinding_factor_response_scalar", &r.bf.to_bytes())?;
    for (i, s) in r.msg.iter().enumerate() {
        tr.fset(&format!("message_response_scalars/[{}]", i), &s.to_bytes())?;
    }
    Ok(())
}

fn forge_case<const N: usize>(c: &mut Ctx, m: &'static Merchant, lay: &Layout, p: &Plan, idx: usize) {
    let pos = idx % N;
    let name = format!("forger/{}/{}/N={}/pos={}", p.family, p.variant, N, pos);
    c.case(&name, |c| {
        let mut rng = c.rng(&name);
        let rparams = m.ccfg.range_constraint_parameters();
        let vclass = value_class(&p.v);
        let sig = format!("forger={} value={}", p.family, vclass);
        // commitment phase of the constraint
        let mut rp = if p.shared.is_empty() { RangeProver::commit(&mut rng, m, &p.digits, &p.sig_idx) } else { RangeProver::commit_shared(&mut rng, m, &p.digits, &p.sig_idx, &p.shared) };
        if let Some((at, i, j)) = p.extrapolate {
            let (si, sj) = (m.digit_sigs[i % m.digit_sigs.len()], m.digit_sigs[j % m.digit_sigs.len()]);
            let t = p.digits[at];
            let di = Scalar::from(i as u64);
            let dj = Scalar::from(j as u64);
            let Some(inv) = Option::<Scalar>::from((dj - di).invert()) else { return c.inconclusive("C13: extrapolation over equal digits") };
            let s2 = G1Projective::from(si.1) + (G1Projective::from(sj.1) - G1Projective::from(si.1)) * ((t - di) * inv);
            let forged = (si.0, s2.to_affine());
            c.count(if si.0 == sj.0 { "published_signatures_sharing_sigma1(pairs seen)" } else { "published_signatures_with_distinct_sigma1(pairs seen)" }, 1);
            if ps_verify_ref(&m.range_pk, &forged.0, &forged.1, &[t]) && !p.control {
                c.violation(
                    &format!("C13 signature-on-non-digit-derivable-from-published {}", sig),
                    json!({"from_digits": [i, j], "derived_for": hex(&t.to_bytes()), "sigma1": hex(&forged.0.to_compressed()), "sigma2": hex(&forged.1.to_compressed())}),
                );
            }
            rp.digits[at] = crate::shadow::SigProver::commit(&mut rng, &m.range_pk, vec![t], forged, &[None]);
        }
        if let Some(at) = p.outside_group_at {
            let pt = |rng: &mut ChaCha20Rng| Option::<bls12_381::G1Affine>::from(bls12_381::G1Affine::from_compressed_unchecked(&crate::wire::g1_cofactor_point(rng)));
            let (Some(a), Some(b)) = (pt(&mut rng), pt(&mut rng)) else { return c.inconclusive("C13: cofactor point") };
            rp.digits[at] = crate::shadow::SigProver::commit(&mut rng, &m.range_pk, vec![p.digits[at]], (a, b), &[None]);
        }
        // the linked commitment proof over generators the harness chooses
        let h: G1Projective = rand_g1(&mut rng).into();
        let gs: Vec<G1Projective> = (0..N).map(|_| rand_g1(&mut rng).into()).collect();
        let mut msg: Vec<Scalar> = (0..N).map(|_| Scalar::random(&mut rng)).collect();
        msg[pos] = p.v;
        let mut cs: Vec<Option<Scalar>> = vec![None; N];
        cs[pos] = Some(rp.commitment_scalar());
        let link = Schnorr::commit(&mut rng, h, gs.clone(), msg, &cs);
        // first messages -> draft -> challenge -> responses
        let mut tr = lay.template.clone();
        if let Err(e) = fill_range(&mut tr, &rp, &Scalar::zero()) {
            return c.inconclusive(&e);
        }
        let draft: RangeConstraint = match dec(&tr.bytes) {
            Ok(d) => d,
            Err(_) if p.outside_group_at.is_some() => {
                c.eval();
                c.distinct(&format!("forger/{}/{}/N={}/pos={}/refused-at-decode", p.family, p.variant, N, pos));
                c.count("constraints_with_points_outside_the_group_refused_at_decode", 1);
                return;
            }
            Err(e) => return c.inconclusive(&format!("C13: draft constraint does not decode: {}", e)),
        };
        let ch = ChallengeBuilder::new().with(&draft).with(rparams).with_bytes(link.com_bytes()).with_bytes(link.t_bytes()).finish();
        let cval = ch.to_scalar();
        let mut tr = lay.template.clone();
        if let Err(e) = fill_range(&mut tr, &rp, &cval) {
            return c.inconclusive(&e);
        }
        let rc: RangeConstraint = match dec(&tr.bytes) {
            Ok(d) => d,
            Err(e) => return c.inconclusive(&format!("C13: assembled constraint does not decode: {}", e)),
        };
        let ch2 = ChallengeBuilder::new().with(&rc).with(rparams).with_bytes(link.com_bytes()).with_bytes(link.t_bytes()).finish();
        if ch2.to_scalar() != cval {
            return c.inconclusive("C13: challenge moved between draft and final constraint (responses are hashed?)");
        }
        // the adaptive prover re-fits one digit proof to the challenge, up to three times; the constraint is
        // then judged under the challenge of the transcript it ends up with
        let (tr, rc, ch, cval) = if let Some(j) = p.post_challenge {
            let (mut tr, mut rc, mut ch, mut cval) = (tr, rc, ch, cval);
            for round in 0..3 {
                // weighted sum of the honest responses is c*represented + cs; the link expects c*v + cs
                let pw = Scalar::from(lay.u).pow_vartime(&[j as u64, 0, 0, 0]);
                let Some(inv) = Option::<Scalar>::from(pw.invert()) else { return c.inconclusive("C13: radix power not invertible") };
                let delta = cval * (p.v - rp.represented()) * inv;
                let mut r = rp.digits[j].sch.respond(&cval);
                r.msg[0] += delta;
                // restore the honest T before re-fitting (t_for depends only on C, c and the responses)
                rp.digits[j].sch.t = rp.digits[j].sch.t_for(&cval, &r);
                let mut t2 = lay.template.clone();
                if let Err(e) = fill_range(&mut t2, &rp, &cval) {
                    return c.inconclusive(&e);
                }
                if let Err(e) = rp.digits[j].fill(&mut t2, &format!("digit_proofs/[{}]", j), &r) {
                    return c.inconclusive(&e);
                }
                let rc2: RangeConstraint = match dec(&t2.bytes) {
                    Ok(d) => d,
                    Err(e) => return c.inconclusive(&format!("C13: re-fitted constraint does not decode: {}", e)),
                };
                let chn = ChallengeBuilder::new().with(&rc2).with(rparams).with_bytes(link.com_bytes()).with_bytes(link.t_bytes()).finish();
                let moved = chn.to_scalar() != cval;
                tr = t2;
                rc = rc2;
                ch = chn;
                let prev = cval;
                cval = chn.to_scalar();
                if !moved {
                    c.count("post_challenge_refit_reached_a_fixed_point", 1);
                    break;
                }
                c.count("post_challenge_refit_moved_the_challenge", 1);
                let _ = (round, prev);
            }
            (tr, rc, ch, cval)
        } else {
            (tr, rc, ch, cval)
        };
        let resp = link.respond(&cval);
        // the link itself must be a proof the library accepts for these generators
        {
            let mut arr = [G1Projective::identity(); N];
            arr.copy_from_slice(&gs);
            let pp = PedersenParameters::<G1Projective, N>::from_generators(h, arr);
            let tb = CommitmentProofBuilder::generate_proof_commitments(&mut rng, Message::new([Scalar::zero(); N]), &[None; N], &pp);
            let tmpl = tb.generate_proof_response(ch);
            let mut lt = match trace(&tmpl) {
                Ok(t) => t,
                Err(e) => return c.inconclusive(&e),
            };
            if let Err(e) = fill_cp(&mut lt, &link.com_bytes(), &link.t_bytes(), &resp) {
                return c.inconclusive(&e);
            }
            let ok = match dec::<CommitmentProof<G1Projective, N>>(&lt.bytes) {
                Ok(lp) => lp.verify_knowledge_of_opening(&pp, ch) && lp.conjunction_response_scalars()[pos] == resp.msg[pos],
                Err(e) => return c.inconclusive(&format!("C13: assembled link proof does not decode: {}", e)),
            };
            if !ok {
                return c.inconclusive("C13: the shadow prover's link proof is not accepted by the library — cannot observe");
            }
            c.count("link_proofs_accepted", 1);
        }
        let expected = resp.msg[pos];
        let lib = rc.verify_range_constraint(rparams, ch, expected);
        let rf = match range_ref(&m.range_pk, &tr, lay.u, &cval) {
            Ok(r) => r,
            Err(e) => return c.inconclusive(&e),
        };
        let reference = rf.digits_ok && rf.sum == expected;
        let inr = in_range(&p.v);
        c.eval();
        c.distinct(&format!("forger/{}/{}/N={}/pos={}/{}", p.family, p.variant, N, pos, vclass));
        c.count(&format!("{}[forger:{}]", if lib { "verified" } else { "rejected" }, p.family), 1);
        c.count(if inr { "linked_value_in_range" } else { "linked_value_out_of_range" }, 1);
        let detail = json!({"forger": p.family, "variant": p.variant, "linked_value": hex(&p.v.to_bytes()), "linked_value_in_range": inr,
            "digit_scalars": p.digits.iter().map(|d| hex(&d.to_bytes())).collect::<Vec<_>>(), "presented_signatures": p.sig_idx,
            "represented_value": hex(&rp.represented().to_bytes()), "observed_digits": lay.l, "observed_radix": lay.u,
            "challenge": hex(&cval.to_bytes()), "constraint": hex(&tr.bytes), "expected_response_scalar": hex(&expected.to_bytes()),
            "reference": {"digit_proofs_ok": rf.digits_ok, "first_failing": rf.first_bad, "sum_matches": rf.sum == expected}});
        if lib && !inr {
            c.violation(&format!("C13 constraint-verifies-for-out-of-range-value {}", sig), detail.clone());
        }
        if lib != reference {
            c.violation(&format!("C13 verifier-differs-from-reference verifier={} reference={} {}", lib, reference, sig), detail.clone());
        }
        if p.control {
            if lib {
                c.count("forger_positive_controls_verified", 1);
            } else if !reference {
                c.inconclusive(&format!("C13: positive control of the shadow prover ({}) is rejected by verifier and reference — cannot observe", p.family));
            }
        }
        if p.family.starts_with("out-of-range/") && (vclass == "2^63" || vclass == "q-1") {
            c.sample(json!({"kind": "forger", "forger": p.family, "variant": p.variant, "linked_value": vclass, "verified": lib, "reference": reference, "first_failing": rf.first_bad}));
        }
        verif_hooks::clear();
    });
}

fn forge_dispatch(c: &mut Ctx, m: &'static Merchant, lay: &Layout, p: &Plan, idx: usize, n: usize) {
    match n {
        1 => forge_case::<1>(c, m, lay, p, idx),
        2 => forge_case::<2>(c, m, lay, p, idx),
        3 => forge_case::<3>(c, m, lay, p, idx),
        _ => forge_case::<5>(c, m, lay, p, idx),
    }
}

// ------------------------------------------------------------------------------------------
// part D: RangeConstraintParameters::validate

fn validate_ref(t: &Trace) -> Result<(bool, Option<usize>), String> {
    let pk = PkAtoms::from_trace(t, "public_key")?;
    let mut i = 0usize;
    let mut first_bad = None;
    loop {
        let a = t.by_fpath(&format!("digit_signatures/[{}]/sigma1", i));
        if a.is_empty() {
            break;
        }
        let s1 = g1(&t.fget(&format!("digit_signatures/[{}]/sigma1", i))?).ok_or("validate_ref: sigma1")?;
        let s2 = g1(&t.fget(&format!("digit_signatures/[{}]/sigma2", i))?).ok_or("validate_ref: sigma2")?;
        if !ps_verify_ref(&pk, &s1, &s2, &[Scalar::from(i as u64)]) && first_bad.is_none() {
            first_bad = Some(i);
        }
        i += 1;
    }
    if i == 0 {
        return Err("validate_ref: no digit signatures in the traced parameters".into());
    }
    Ok((first_bad.is_none(), first_bad))
}

fn validate_one(c: &mut Ctx, name: &str, class: &str, label: &str, tr: &Trace, intended: Option<bool>) {
    c.case(name, |c| {
        let p2: RangeConstraintParameters = match dec(&tr.bytes) {
            Ok(p) => p,
            Err(_) => {
                c.count(&format!("parameters_not_decodable[{}]", class), 1);
                return;
            }
        };
        let lib = p2.validate().is_ok();
        let (orc, first_bad) = match validate_ref(tr) {
            Ok(x) => x,
            Err(e) => return c.inconclusive(&e),
        };
        if let Some(i) = intended {
            if i != orc {
                return c.inconclusive(&format!("C13: substitution {} did not have the intended effect on the reference (reference says {})", label, orc));
            }
        }
        c.eval();
        c.distinct(&format!("validate/{}", label));
        c.count(&format!("validate_{}[{}]", if lib { "ok" } else { "err" }, class), 1);
        if lib != orc {
            c.violation(
                &format!("C13 validate-differs-from-reference validate={} reference={} substitution={}", if lib { "Ok" } else { "Err" }, orc, label),
                json!({"substitution": label, "reference_first_failing_digit": first_bad, "parameters_public_key": hex(&tr.bytes[tr.bytes.len().saturating_sub(48 * 2 + 96 * 3)..])}),
            );
        }
        verif_hooks::clear();
    });
}

fn validate_cases(c: &mut Ctx, m: &'static Merchant) {
    let rp = m.ccfg.range_constraint_parameters();
    let t = match trace(rp) {
        Ok(t) => t,
        Err(e) => return c.inconclusive(&e),
    };
    let u = m.digit_sigs.len();
    validate_one(c, "validate/honest", "honest", "none(honest)", &t, Some(true));
    let positions: Vec<usize> = if c.tier.pick(true, false) {
        let mut v = vec![0, 1, 2, 7, 8, 31, 32, 50, 63, 64, 65, 100, 120, u.saturating_sub(3), u.saturating_sub(2), u - 1];
        v.retain(|p| *p < u);
        v.sort();
        v.dedup();
        v
    } else {
        (0..u).collect()
    };
    for pos in positions {
        let mut rng = c.rng(&format!("validate/{}", pos));
        let p1 = format!("digit_signatures/[{}]/sigma1", pos);
        let p2 = format!("digit_signatures/[{}]/sigma2", pos);
        // another digit's signature
        {
            let j = (pos + 1 + (rng.next_u32() as usize) % (u - 1)) % u;
            let mut tr = t.clone();
            let r = tr.fset(&p1, &m.digit_sigs[j].0.to_compressed()).and_then(|_| tr.fset(&p2, &m.digit_sigs[j].1.to_compressed()));
            match r {
                Ok(()) => validate_one(c, &format!("validate/pos{}/other-digit", pos), "other-digit-signature", &format!("position={}:signature-of-another-digit", pos), &tr, Some(false)),
                Err(e) => c.inconclusive(&e),
            }
        }
        // a random pair
        {
            let mut tr = t.clone();
            let r = tr.fset(&p1, &rand_g1(&mut rng).to_compressed()).and_then(|_| tr.fset(&p2, &rand_g1(&mut rng).to_compressed()));
            match r {
                Ok(()) => validate_one(c, &format!("validate/pos{}/random-pair", pos), "random-pair", &format!("position={}:random-pair", pos), &tr, Some(false)),
                Err(e) => c.inconclusive(&e),
            }
        }
        // the same signature re-randomised: still valid
        {
            let r = Scalar::random(&mut rng);
            let s1 = (G1Projective::from(m.digit_sigs[pos].0) * r).to_affine();
            let s2 = (G1Projective::from(m.digit_sigs[pos].1) * r).to_affine();
            let mut tr = t.clone();
            let r = tr.fset(&p1, &s1.to_compressed()).and_then(|_| tr.fset(&p2, &s2.to_compressed()));
            match r {
                Ok(()) => validate_one(c, &format!("validate/pos{}/rerandomised", pos), "rerandomised-valid", &format!("position={}:rerandomised-valid", pos), &tr, Some(true)),
                Err(e) => c.inconclusive(&e),
            }
        }
    }
    // a few more single substitutions: second half only, two positions exchanged, key atoms
    let mut rng = c.rng("validate/extra");
    {
        let mut tr = t.clone();
        match tr.fset("digit_signatures/[3]/sigma2", &rand_g1(&mut rng).to_compressed()) {
            Ok(()) => validate_one(c, "validate/extra/sigma2-only", "sigma2-only-replaced", "position=3:sigma2-only-random", &tr, Some(false)),
            Err(e) => c.inconclusive(&e),
        }
        let mut tr = t.clone();
        let (a, b) = (u / 2, u / 2 + 1);
        let r = tr
            .fset(&format!("digit_signatures/[{}]/sigma1", a), &m.digit_sigs[b].0.to_compressed())
            .and_then(|_| tr.fset(&format!("digit_signatures/[{}]/sigma2", a), &m.digit_sigs[b].1.to_compressed()))
            .and_then(|_| tr.fset(&format!("digit_signatures/[{}]/sigma1", b), &m.digit_sigs[a].0.to_compressed()))
            .and_then(|_| tr.fset(&format!("digit_signatures/[{}]/sigma2", b), &m.digit_sigs[a].1.to_compressed()));
        match r {
            Ok(()) => validate_one(c, "validate/extra/exchanged", "two-positions-exchanged", "positions-exchanged", &tr, Some(false)),
            Err(e) => c.inconclusive(&e),
        }
    }
    // cooperating substitutions whose individual errors cancel in a sum or product: second halves of two
    // signatures exchanged, second halves shifted by +D and -D, rotated among three positions
    {
        let s2 = |i: usize| G1Projective::from(m.digit_sigs[i % u].1);
        let set = |tr: &mut Trace, i: usize, p: G1Projective| tr.fset(&format!("digit_signatures/[{}]/sigma2", i % u), &p.to_affine().to_compressed());
        let mut tr = t.clone();
        let r = set(&mut tr, 3, s2(5)).and_then(|_| set(&mut tr, 5, s2(3)));
        match r {
            Ok(()) => validate_one(c, "validate/extra/sigma2-exchanged", "two-sigma2-exchanged", "positions=3,5:sigma2-exchanged", &tr, Some(false)),
            Err(e) => c.inconclusive(&e),
        }
        let d: G1Projective = rand_g1(&mut rng).into();
        let mut tr = t.clone();
        let r = set(&mut tr, 0, s2(0) + d).and_then(|_| set(&mut tr, u - 1, s2(u - 1) - d));
        match r {
            Ok(()) => validate_one(c, "validate/extra/sigma2-shifted-pair", "two-sigma2-shifted-oppositely", "positions=0,last:sigma2+D,-D", &tr, Some(false)),
            Err(e) => c.inconclusive(&e),
        }
        let mut tr = t.clone();
        let r = set(&mut tr, 10, s2(64)).and_then(|_| set(&mut tr, 64, s2(100))).and_then(|_| set(&mut tr, 100, s2(10)));
        match r {
            Ok(()) => validate_one(c, "validate/extra/sigma2-rotated", "three-sigma2-rotated", "positions=10,64,100:sigma2-rotated", &tr, Some(false)),
            Err(e) => c.inconclusive(&e),
        }
    }
    for (path, relevant) in [("public_key/x2", true), ("public_key/g2", true), ("public_key/y2s/[0]", true), ("public_key/g1", false), ("public_key/y1s/[0]", false)] {
        let mut tr = t.clone();
        let a = match tr.fone(path) {
            Ok(a) => a.clone(),
            Err(e) => {
                c.inconclusive(&e);
                continue;
            }
        };
        let Some(alt) = crate::wire::alt_valid(a.kind, tr.atom_bytes(&a), &mut rng) else { continue };
        tr.bytes = t.with_replaced(&a, &alt);
        // the G1 half of the key plays no part in signature verification
        validate_one(c, &format!("validate/key/{}", path), if relevant { "key-atom(G2 half)" } else { "key-atom(G1 half)" }, &format!("key:{}", path), &tr, Some(!relevant));
    }
}

// ------------------------------------------------------------------------------------------

const NS: [usize; 6] = [1, 2, 3, 5, 8, 13];

pub fn run(c: &mut Ctx) {
    c.note(
        "rule",
        json!("prover: negative boundary values {MIN, MIN+1, -2^62, -128^k, -128^k+-1, -1, ...} and random negatives must be refused, non-negative boundary values {0,1,127,128,128^k+-1,2^62,2^63-2,2^63-1} and random ones accepted. honest: each accepted value linked to a slot of CommitmentProof<G1/G2> / SignatureProof / SignatureRequestProof (N and slot rotating; all N in thorough) and verified with the linked slot (must verify), every other slot, response+1, the plain value, zero, another merchant's parameters, another challenge (must not). forger: shadow-prover constraints with digit count L and radix U read from the observed layout: honest digits and all-max digits (controls), exact digits of out-of-range values if U^L > 2^63, values 2^63, 2^63+1, 2^64-1, U^L, q-1, q-2^63 with residue / all-max / top-digit-outside-alphabet / negative-digit / lowered-top-digit strategies, swapped digits, a published signature claimed for another digit at each position, digits of another value, compensated out-of-alphabet digit; the challenge is the library's over the assembled constraint. validate: one signature replaced by another digit's, a random pair, a re-randomised valid one at 16 (quick) / all 128 positions, plus key atoms. Distinct = distinct (part, link type or forger family, N, slot, value or position, check). Added later: coordinated pairs of invalid digit proofs, cooperating sigma2 substitutions in validate(), a digit signature extrapolated from two published ones, and an adaptive prover that re-fits one digit proof after the challenge. A top digit signed by curve points outside the group."),
    );
    let m = match fixtures::merchant(c.seed, "m0") {
        Ok(m) => m,
        Err(e) => return c.inconclusive(&e),
    };
    let other = match fixtures::merchant(c.seed, "m1") {
        Ok(m) => m,
        Err(e) => return c.inconclusive(&e),
    };
    let lay = match layout(m, c.seed) {
        Ok(l) => l,
        Err(e) => return c.inconclusive(&e),
    };
    verif_hooks::clear();
    c.note("observed_layout", json!({"digits_L": lay.l, "radix_U": lay.u, "U^L": lay.cap.to_string(), "U^L<=2^63": lay.cap <= TWO63}));

    // A: negatives
    negative_cases(c, m);

    // A+B: non-negative values through the prover, linked, verified under every mismatch
    let values = non_negative_values(c);
    let thorough = c.tier.pick(false, true);
    for (vi, (vname, v)) in values.iter().enumerate() {
        for (ti, ty) in Ty::ALL.into_iter().enumerate() {
            if thorough {
                for (ni, n) in NS.into_iter().enumerate() {
                    honest_dispatch(c, m, other, &lay, n, ty, vname, *v, vi + ti + ni);
                }
            } else {
                // two tuple lengths per (value, link type), rotating over all six
                for k in 0..2usize {
                    let n = NS[(vi + ti + 3 * k) % 6];
                    honest_dispatch(c, m, other, &lay, n, ty, vname, *v, vi * 3 + ti + 7 * k);
                }
            }
        }
    }

    // C: attacker-assembled constraints
    let ps = plans(c, &lay);
    let shapes: &[usize] = if thorough { &[1, 2, 3, 5] } else { &[0, 9] };
    for (pi, p) in ps.iter().enumerate() {
        for s in shapes {
            let n = match *s {
                0 => [1usize, 2, 3, 5][pi % 4],
                9 => [3usize, 5, 1, 2][pi % 4],
                x => x,
            };
            forge_dispatch(c, m, &lay, p, pi, n);
        }
    }

    // D: parameter validation
    validate_cases(c, m);
}
