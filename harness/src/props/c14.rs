//! C14 — customer messages reuse no value the merchant has seen and expose no secret.
//!
//! Multi-channel histories are executed with every message recorded; an offline checker then
//! walks the log in order: no 32/48/96-byte atom of a customer-to-merchant message may equal an
//! atom of any earlier message (either direction) or of the public parameters, and none may equal
//! a secret scalar held in the customer state around that step (minus what the step discloses by
//! design).

use crate::ctx::{guard, hex, Ctx};
use crate::fixtures::{self, Merchant};
use crate::props::c03::waiting_for;
use crate::props::c04::candidate_amounts;
use crate::props::util::*;
use crate::refs::ledger_apply;
use crate::session::{amount, new_channel_id, MsgRec, Sess, Stage};
use crate::tracer::{trace, Kind, Trace};
use crate::wire::{dec, enc, rand_g1};
use bls12_381::Scalar;
use rand_core::{CryptoRng, RngCore};
use serde_json::json;
use std::collections::{BTreeSet, HashMap};
use zkabacus_crypto as zk;

#[derive(Clone)]
struct LogEntry {
    channel: usize,
    dir: &'static str,
    kind: &'static str,
    bytes: Vec<u8>,
    /// secret scalars (bytes) in the customer's state around the step, with their paths
    secrets: Vec<(String, Vec<u8>)>,
}

fn trace_msg(kind: &str, b: &[u8]) -> Result<Trace, String> {
    match kind {
        "establish_proof" => trace(&dec::<zk::EstablishProof>(b)?),
        "closing_signature" => trace(&dec::<zk::ClosingSignature>(b)?),
        "pay_token" => trace(&dec::<zk::PayToken>(b)?),
        "nonce" => trace(&dec::<zk::Nonce>(b)?),
        "pay_proof" => trace(&dec::<zk::PayProof>(b)?),
        "revocation_pair" => trace(&dec::<zk::revlock::RevocationPair>(b)?),
        "revocation_blinding_factor" => trace(&dec::<zk::revlock::RevocationLockBlindingFactor>(b)?),
        "closing_message" => trace(&dec::<zk::customer::ClosingMessage>(b)?),
        _ => Err(format!("unknown message kind {}", kind)),
    }
}

fn stage_trace(s: &Stage) -> Result<Trace, String> {
    match s {
        Stage::None => Err("no stage".into()),
        Stage::Requested(x) => trace(x),
        Stage::Inactive(x) => trace(x),
        Stage::Ready(x) => trace(x),
        Stage::Started(x) => trace(x),
        Stage::Locked(x) => trace(x),
    }
}

/// every scalar of the state bytes plus the scalar encodings of its balances, minus `disclosed`
fn secrets_of(s: &Stage, disclosed: &[&str]) -> Vec<(String, Vec<u8>)> {
    let mut v = vec![];
    let Ok(t) = stage_trace(s) else { return v };
    for a in &t.atoms {
        if disclosed.iter().any(|d| *d == a.fpath) {
            continue;
        }
        if a.is_scalar() {
            v.push((format!("{}:{}", s.name(), a.fpath), t.atom_bytes(a).to_vec()));
        } else if a.kind == Kind::U64 {
            let bal = le64(t.atom_bytes(a));
            v.push((format!("{}:{}(as scalar)", s.name(), a.fpath), Scalar::from(bal).to_bytes().to_vec()));
        }
    }
    v
}

struct Chan {
    s: Sess,
    closed: bool,
    payments: usize,
}

fn pull(log: &mut Vec<LogEntry>, ch: usize, s: &Sess, from: usize, secrets: &[(String, Vec<u8>)]) {
    for r in &s.log[from..] {
        let r: &MsgRec = r;
        log.push(LogEntry {
            channel: ch,
            dir: r.dir,
            kind: r.kind,
            bytes: r.bytes.clone(),
            secrets: if r.dir == "c2m" { secrets.to_vec() } else { vec![] },
        });
    }
}

fn bad_reply(rng: &mut impl RngCore) -> Vec<u8> {
    let mut b = rand_g1(rng).to_compressed().to_vec();
    b.extend_from_slice(&rand_g1(rng).to_compressed());
    b
}

/// advance channel `ch` by one protocol round trip; returns false when nothing more can be done
fn advance(c: &mut Ctx, log: &mut Vec<LogEntry>, ch: usize, chan: &mut Chan, rng: &mut (impl RngCore + CryptoRng), ctxb: &[u8], cust0: u64, merch0: u64) -> Result<bool, String> {
    let from = chan.s.log.len();
    let name = chan.s.stage.name();
    // occasionally a refused reply first (it is part of the merchant's view of the customer)
    if matches!(name, "requested" | "inactive" | "started" | "locked") && rng.next_u32() % 4 == 0 && waiting_for(&chan.s.stage).is_ok() {
        let bad = bad_reply(rng);
        let _ = match name {
            "requested" => chan.s.c_complete(&bad)?,
            "inactive" => chan.s.c_activate(&bad)?,
            "started" => chan.s.c_lock(&bad)?.is_some(),
            _ => chan.s.c_unlock(&bad)?,
        };
        log.push(LogEntry { channel: ch, dir: "m2c", kind: "closing_signature", bytes: bad, secrets: vec![] });
        c.count("refused_replies_logged", 1);
    }
    match name {
        "requested" => {
            // the establish proof was logged at request time
            let proof = chan.s.log.iter().find(|r| r.kind == "establish_proof").map(|r| r.bytes.clone()).ok_or("no establish proof")?;
            let sig = chan.s.m_initialize(rng, cust0, merch0, &proof, ctxb)?.ok_or("honest establish refused")?;
            if !chan.s.c_complete(&sig)? {
                return Err("honest closing signature refused".into());
            }
        }
        "inactive" => {
            let tok = chan.s.m_activate(rng)?;
            if !chan.s.c_activate(&tok)? {
                return Err("honest pay token refused".into());
            }
        }
        "ready" => {
            let (cust, merch) = chan.s.ledger;
            let cands: Vec<i64> = candidate_amounts(cust, merch, rng).into_iter().filter(|a| ledger_apply(cust, merch, *a).is_ok()).collect();
            let a = cands[(rng.next_u32() as usize) % cands.len()];
            let before = secrets_of(&chan.s.stage, &["state/nonce"]);
            let r = chan.s.c_start(rng, amount(a)?, ctxb)?;
            let (nonce, proof) = r.map_err(|e| format!("in-range start refused: {:?}", e))?;
            // secrets around the Start step: everything before and after, except the old nonce
            let mut sec = before;
            sec.extend(secrets_of(&chan.s.stage, &["old_state/nonce"]));
            pull(log, ch, &chan.s, from, &sec);
            let from2 = chan.s.log.len();
            let sig = chan.s.m_allow(rng, amount(a)?, &nonce, &proof, ctxb)?.ok_or("honest pay proof refused")?;
            let _ = sig;
            pull(log, ch, &chan.s, from2, &[]);
            chan.payments += 1;
            return Ok(true);
        }
        "started" => {
            let sig = chan.s.log.iter().rev().find(|r| r.kind == "closing_signature").map(|r| r.bytes.clone()).ok_or("no closing signature")?;
            let disclosed = ["old_state/revocation_pair/lock", "old_state/revocation_pair/secret/secret", "blinding_factors/for_old_revocation_lock"];
            let before = secrets_of(&chan.s.stage, &disclosed);
            let (pair, bf) = chan.s.c_lock(&sig)?.ok_or("honest closing signature refused (pay)")?;
            let mut sec = before;
            sec.extend(secrets_of(&chan.s.stage, &[]));
            pull(log, ch, &chan.s, from, &sec);
            let from2 = chan.s.log.len();
            let _tok = chan.s.m_complete(rng, &pair, &bf)?.ok_or("honest revocation refused")?;
            pull(log, ch, &chan.s, from2, &[]);
            return Ok(true);
        }
        "locked" => {
            let tok = chan.s.log.iter().rev().find(|r| r.kind == "pay_token").map(|r| r.bytes.clone()).ok_or("no pay token")?;
            if !chan.s.c_unlock(&tok)? {
                return Err("honest pay token refused (pay)".into());
            }
        }
        _ => return Ok(false),
    }
    pull(log, ch, &chan.s, from, &[]);
    Ok(true)
}

fn close_channel(log: &mut Vec<LogEntry>, ch: usize, chan: &mut Chan, rng: &mut (impl RngCore + CryptoRng)) -> Result<(), String> {
    let lock_path = match chan.s.stage {
        Stage::Started(_) => "old_state/revocation_pair/lock",
        _ => "state/revocation_pair/lock",
    };
    let secrets = secrets_of(&chan.s.stage, &[lock_path]);
    if let Some(cm) = chan.s.stage.close_from_copy(rng)? {
        log.push(LogEntry { channel: ch, dir: "c2m", kind: "closing_message", bytes: enc(&cm), secrets });
    }
    chan.closed = true;
    Ok(())
}

/// offline checker over the recorded log
fn check_log(c: &mut Ctx, m: &Merchant, log: &[LogEntry], label: &str, judge_from: usize) {
    let mut seen: HashMap<Vec<u8>, String> = HashMap::new();
    match trace(&m.ccfg) {
        Ok(t) => {
            for a in &t.atoms {
                if matches!(a.kind, Kind::G1 | Kind::G2 | Kind::B32) {
                    let _ = seen.insert(t.atom_bytes(a).to_vec(), format!("parameters:{}", a.fpath));
                }
            }
        }
        Err(e) => return c.inconclusive(&e),
    }
    let mut atoms_logged = seen.len();
    let mut checked = 0;
    for (i, e) in log.iter().enumerate() {
        let t = match trace_msg(e.kind, &e.bytes) {
            Ok(t) => t,
            Err(_) if e.dir == "m2c" => continue, // injected garbage need not decode
            Err(err) => return c.inconclusive(&format!("C14: cannot trace logged {}: {}", e.kind, err)),
        };
        let prov = format!("{}#{}:ch{}:{}", e.dir, i, e.channel, e.kind);
        if e.dir == "c2m" && i >= judge_from {
            c.eval();
            c.distinct(&format!("{}/{}/{}", label, i, e.kind));
            checked += 1;
            if seen.is_empty() {
                c.inconclusive("C14: nothing to compare against");
            }
            let secret_map: HashMap<&[u8], &str> = e.secrets.iter().map(|(p, b)| (b.as_slice(), p.as_str())).collect();
            for a in &t.atoms {
                if !matches!(a.kind, Kind::G1 | Kind::G2 | Kind::B32) {
                    continue;
                }
                // the channel id is disclosed by design at establishment and closing
                if a.is_raw32() || a.fpath.ends_with("channel_id") {
                    continue;
                }
                let b = t.atom_bytes(a);
                if let Some(earlier) = seen.get(b) {
                    c.violation(
                        &format!("C14 value-reused message={} atom={} first-seen-in={}", e.kind, a.fpath, earlier.split(':').last().unwrap_or("").to_string() + "/" + earlier.split(':').next().unwrap_or("")),
                        json!({"message": prov, "atom": a.path, "value": hex(b), "first_seen": earlier}),
                    );
                }
                if a.kind == Kind::B32 {
                    if let Some(p) = secret_map.get(b) {
                        c.violation(
                            &format!("C14 secret-exposed message={} atom={} secret={}", e.kind, a.fpath, p),
                            json!({"message": prov, "atom": a.path, "secret_path": p, "value": hex(b)}),
                        );
                    }
                }
            }
            c.count(&format!("checked[{}]", e.kind), 1);
            c.count("secrets_compared", e.secrets.len() as i64);
        }
        for a in &t.atoms {
            if matches!(a.kind, Kind::G1 | Kind::G2 | Kind::B32) && !(a.is_raw32() || a.fpath.ends_with("channel_id")) {
                let _ = seen.entry(t.atom_bytes(a).to_vec()).or_insert_with(|| format!("{}:{}", prov, a.fpath));
                atoms_logged += 1;
            }
        }
    }
    c.count("atoms_logged", atoms_logged as i64);
    c.count("messages_checked", checked);
}

/// Entropy failures: the customer's RNG fails at one request (`try_fill_bytes` returns an error, the
/// infallible calls panic). Either no message comes out, or the message obeys the same rules as every
/// other message. Judged against the log of the finished group (side log: the main log is not altered).
fn rng_fault_pass(c: &mut Ctx, m: &'static Merchant, log: &[LogEntry], chans: &[Chan], inits: &[(u64, u64, Vec<u8>)], label: &str, rng: &mut (impl RngCore + CryptoRng)) {
    use crate::srng::ScriptRng;
    use zkabacus_crypto::Context;
    for (ch, chan) in chans.iter().enumerate() {
        if chan.closed {
            continue;
        }
        let Stage::Ready(ready) = &chan.s.stage else { continue };
        let mut seed = [0u8; 32];
        rng.fill_bytes(&mut seed);
        // closing with a failing RNG (the only request close() makes)
        {
            let mut fr = ScriptRng::new(seed);
            fr.fail_at = Some(0);
            c.eval();
            c.distinct(&format!("{}/rng-fault/close/ch{}", label, ch));
            let Ok(copy) = crate::wire::copy(ready) else { continue };
            match guard(|| copy.close(&mut fr)) {
                Err(_) => c.count("rng_fault_no_message[close]", 1),
                Ok(cm) => {
                    c.count("rng_fault_message_produced[close]", 1);
                    let mut side = log.to_vec();
                    let from = side.len();
                    side.push(LogEntry { channel: ch, dir: "c2m", kind: "closing_message", bytes: enc(&cm), secrets: secrets_of(&chan.s.stage, &["state/revocation_pair/lock"]) });
                    check_log(c, m, &side, &format!("{}/rng-fault/close/ch{}", label, ch), from);
                }
            }
        }
        // starting a payment with a failing RNG at draw d
        let (_, _, ctxb) = &inits[ch];
        let Ok(amt) = amount(0) else { continue };
        let mut dry = ScriptRng::new(seed);
        let ndraws = match crate::wire::copy(ready) {
            Ok(r) => {
                let _ = guard(|| r.start(&mut dry, amt, &Context::new(ctxb), &m.ccfg).is_ok());
                dry.draws()
            }
            Err(_) => continue,
        };
        let picks: Vec<usize> = if c.tier == crate::ctx::Tier::Quick {
            // the draws that feed signature re-randomisation lie at the end of each signature proof:
            // a spread over the whole call plus a random few
            let mut v: Vec<usize> = (0..ndraws).filter(|d| d % 9 == 5).collect();
            for _ in 0..3 {
                v.push((rng.next_u32() as usize) % ndraws.max(1));
            }
            v.sort();
            v.dedup();
            v
        } else {
            (0..ndraws).collect()
        };
        for d in picks {
            let mut fr = ScriptRng::new(seed);
            fr.fail_at = Some(d);
            c.eval();
            c.distinct(&format!("{}/rng-fault/start/ch{}/draw{}", label, ch, d));
            let Ok(copy) = crate::wire::copy(ready) else { continue };
            let before = secrets_of(&chan.s.stage, &["state/nonce"]);
            match guard(|| copy.start(&mut fr, amt, &Context::new(ctxb), &m.ccfg)) {
                Err(_) => c.count("rng_fault_no_message[start]", 1),
                Ok(Err(_)) => c.count("rng_fault_refused[start]", 1),
                Ok(Ok((started, msg))) => {
                    if !fr.failed {
                        continue;
                    }
                    c.count("rng_fault_message_produced[start]", 1);
                    let mut sec = before;
                    if let Ok(t) = trace(&started) {
                        for a in &t.atoms {
                            if a.is_scalar() && a.fpath != "old_state/nonce" {
                                sec.push((format!("started:{}", a.fpath), t.atom_bytes(a).to_vec()));
                            }
                        }
                    }
                    let mut side = log.to_vec();
                    let from = side.len();
                    side.push(LogEntry { channel: ch, dir: "c2m", kind: "nonce", bytes: enc(&msg.nonce), secrets: sec.clone() });
                    side.push(LogEntry { channel: ch, dir: "c2m", kind: "pay_proof", bytes: enc(&msg.pay_proof), secrets: sec });
                    check_log(c, m, &side, &format!("{}/rng-fault/start/ch{}/draw{}", label, ch, d), from);
                }
            }
        }
    }
}

fn run_group(c: &mut Ctx, m: &'static Merchant, name: &str, nchan: usize, rounds: usize, hostile: bool) {
    let mut rng = c.rng(name);
    let mut log: Vec<LogEntry> = vec![];
    let mut chans: Vec<Chan> = vec![];
    let mut inits = vec![];
    let boundary = [(10u64, 1000u64), (0, 0), (0, 5), (i64::MAX as u64, 0), (1 << 40, 1 << 40)];
    for ch in 0..nchan {
        let (cust, merch) = if rng.next_u32() % 2 == 0 { boundary[(rng.next_u32() as usize) % boundary.len()] } else { (shaped_u64(&mut rng) >> 1, shaped_u64(&mut rng) >> 1) };
        let ctxb = format!("{}/{}", name, ch).into_bytes();
        let cid = new_channel_id(m, &mut rng, b"m", b"c");
        let (s, _proof) = match Sess::request(m, &mut rng, cid, cust, merch, &ctxb) {
            Ok(x) => x,
            Err(e) => return c.inconclusive(&e),
        };
        let sec = secrets_of(&s.stage, &[]);
        pull(&mut log, ch, &s, 0, &sec);
        chans.push(Chan { s, closed: false, payments: 0 });
        inits.push((cust, merch, ctxb));
    }
    for _ in 0..rounds {
        let ch = (rng.next_u32() as usize) % nchan;
        if chans[ch].closed {
            continue;
        }
        // a customer may stop and close at any stage that offers close()
        if chans[ch].s.stage.name() != "requested" && rng.next_u32() % 12 == 0 {
            if let Err(e) = close_channel(&mut log, ch, &mut chans[ch], &mut rng) {
                return c.inconclusive(&e);
            }
            c.count(&format!("closed_from[{}]", chans[ch].s.stage.name()), 1);
            continue;
        }
        let (cust, merch, ctxb) = inits[ch].clone();
        match advance(c, &mut log, ch, &mut chans[ch], &mut rng, &ctxb, cust, merch) {
            Ok(_) => {}
            Err(_) if hostile => {
                // a hostile merchant need not complete anything: what the customer already sent is in
                // its view and is judged below
                c.count("hostile_merchant_sessions_cut_short", 1);
                chans[ch].closed = true;
                continue;
            }
            Err(e) => return c.inconclusive(&format!("C14: honest step failed ({}) — C04's subject", e)),
        }
    }
    // entropy failures on the channels that are still open (judged against the log so far)
    {
        let snapshot = log.clone();
        rng_fault_pass(c, m, &snapshot, &chans, &inits, name, &mut rng);
    }
    // every channel still open closes at the end, from whatever stage it is in
    for ch in 0..nchan {
        if !chans[ch].closed && chans[ch].s.stage.name() != "requested" {
            let st = chans[ch].s.stage.name();
            if let Err(e) = close_channel(&mut log, ch, &mut chans[ch], &mut rng) {
                return c.inconclusive(&e);
            }
            c.count(&format!("closed_from[{}]", st), 1);
        }
    }
    c.count("payments", chans.iter().map(|x| x.payments as i64).sum());
    check_log(c, m, &log, name, 0);
    let kinds: BTreeSet<String> = log.iter().map(|e| format!("{}:{}", e.dir, e.kind)).collect();
    c.sample(json!({"group": name, "channels": nchan, "messages": log.len(), "kinds": kinds,
                     "order_head": log.iter().take(24).map(|e| format!("ch{} {} {}", e.channel, e.dir, e.kind)).collect::<Vec<_>>()}));
}

pub fn run(c: &mut Ctx) {
    c.note("rule", json!("groups of 2-4 channels interleaved under one merchant; payments of either sign and zero; refused replies; closes from every stage that offers close(); the complete message log (both directions) plus the public parameters is checked offline in order. Distinct = distinct customer-to-merchant messages checked, each against a non-empty set of earlier atoms. Added later: an entropy-failure pass, hostile range parameters (crafted elements, digit signatures made of small-order points) with sessions judged even when cut short."));
    let m = match fixtures::merchant(c.seed, "m0") {
        Ok(m) => m,
        Err(e) => return c.inconclusive(&e),
    };
    // a hostile merchant publishes crafted parameters: if the customer's decoder lets them in, the
    // customer's messages under them are judged like all others
    c.case("hostile-parameters", |c| {
        use zkabacus_crypto::{merchant, RangeConstraintParameters};
        let t = match trace(m.cfg.range_constraint_parameters()) {
            Ok(t) => t,
            Err(e) => return c.inconclusive(&e),
        };
        let g1id = crate::wire::g1_identity_bytes().to_vec();
        let g2id = crate::wire::g2_identity_bytes().to_vec();
        let crafted: Vec<(&str, &str, Vec<u8>)> = vec![
            ("range-key-g2-identity", "public_key/g2", g2id.clone()),
            ("range-key-x2-identity", "public_key/x2", g2id.clone()),
            ("range-key-y2-identity", "public_key/y2s/[0]", g2id.clone()),
            ("range-key-g1-identity", "public_key/g1", g1id.clone()),
            ("range-key-y1-identity", "public_key/y1s/[0]", g1id.clone()),
            ("digit-signature-sigma1-identity", "digit_signatures/[1]/sigma1", g1id.clone()),
        ];
        // digit signatures made of small-order points (outside the prime-order group): re-randomising such
        // a signature can only give the identity or the same two points again
        let mut p3a = vec![0u8; 48];
        p3a[0] = 0x80;
        let mut p3b = vec![0u8; 48];
        p3b[0] = 0xa0;
        let multi: Vec<(&str, Vec<(String, Vec<u8>)>)> = (0..3usize)
            .map(|d| {
                (
                    ["digit-0-signature-of-order-3-points", "digit-1-signature-of-order-3-points", "digit-2-signature-of-order-3-points"][d],
                    vec![(format!("digit_signatures/[{}]/sigma1", d), p3a.clone()), (format!("digit_signatures/[{}]/sigma2", d), p3b.clone())],
                )
            })
            .collect();
        let mut all: Vec<(String, Vec<(String, Vec<u8>)>)> = crafted.into_iter().map(|(w, f, b)| (w.to_string(), vec![(f.to_string(), b)])).collect();
        all.extend(multi.into_iter().map(|(w, v)| (w.to_string(), v)));
        for (what, edits) in all {
            let what = what.as_str();
            c.eval();
            c.distinct(&format!("hostile-parameters/{}", what));
            let mut tr = t.clone();
            let mut bad = false;
            for (fpath, bytes) in &edits {
                if let Err(e) = tr.fset(fpath, bytes) {
                    c.inconclusive(&e);
                    bad = true;
                }
            }
            if bad {
                continue;
            }
            match dec::<RangeConstraintParameters>(&tr.bytes) {
                Err(_) => c.count("hostile_parameter_sets_refused_at_decode", 1),
                Ok(range) => {
                    c.count("hostile_parameter_sets_decoded", 1);
                    let cfg = (|| -> Result<merchant::Config, String> {
                        Ok(merchant::Config::from_parts(dec(&enc(m.cfg.signing_keypair()))?, dec(&enc(m.cfg.revocation_commitment_parameters()))?, range))
                    })();
                    match cfg.and_then(|cfg| fixtures::from_config(&format!("hostile-{}", what), cfg)) {
                        Ok(f) => {
                            let f: &'static Merchant = Box::leak(Box::new(f));
                            let name = format!("hostile-parameters/{}", what);
                            if let Err(p) = guard(|| run_group(c, f, &name, 2, 24, true)) {
                                c.count(&format!("hostile_parameters_run_panicked[{}]", repo_rel(&p.location)), 1);
                            }
                        }
                        Err(e) => c.inconclusive(&e),
                    }
                }
            }
        }
    });
    let groups = c.tier.pick(32usize, 400);
    let rounds = c.tier.pick(30usize, 90);
    for g in 0..groups {
        let name = format!("group{}", g);
        c.case(&name, |c| {
            let nchan = 2 + g % 3;
            if let Err(p) = guard(|| run_group(c, m, &name, nchan, rounds, false)) {
                c.violation(&format!("C14 panic loc={}", repo_rel(&p.location)), json!({"panic": p.message}));
            }
        });
    }
}
