//! C14 — monitor not written yet.
use crate::ctx::Ctx;

pub fn run(c: &mut Ctx) {
    c.inconclusive("C14: monitor not written yet");
}
