//! C02 — the merchant approves payments only for a correct, unspent, in-range state update.
//!
//! A shadow customer holding a real pay token (obtained through an honest history) builds pay
//! proofs for false variants of the statement with the same strategy families as C01 and submits
//! them to the real `allow_payment`. Falsity is never taken from the deviation plan: it is
//! recomputed from what the forger really holds (token checked with the pairing reference,
//! commitments re-opened). An alarm needs an exhibited witness: the returned closing signature
//! verifies on the false close state, or the accepted proof's token link is false by reference.

use crate::ctx::{hex, Ctx};
use crate::fixtures::{self, Merchant};
use crate::props::util::*;
use crate::refs::*;
use crate::session::{amount, Sess, Stage};
use crate::shadow::*;
use crate::tracer::{trace, Trace};
use crate::wire::{dec, enc};
use bls12_381::{G1Affine, G1Projective, Scalar};
use ff::Field;
use group::Curve;
use rand_core::{CryptoRng, RngCore};
use serde_json::json;
use zkabacus_crypto::revlock::{RevocationLockBlindingFactor, RevocationPair};

const MAXB: u64 = i64::MAX as u64;

pub struct Base {
    pub m: &'static Merchant,
    pub old: [Scalar; 5],
    pub token: (G1Affine, G1Affine),
    /// the closing signature the customer holds on the same state (close tag in the nonce slot)
    pub close_sig: Option<(G1Affine, G1Affine)>,
    pub cust: u64,
    pub merch: u64,
    pub old_pair_bytes: Vec<u8>,
    pub history: Vec<i64>,
    pub ndigits: usize,
    pub template: Trace,
}

/// Run an honest history and read what the customer then holds from the Ready state's bytes.
pub fn make_base(m: &'static Merchant, rng: &mut (impl RngCore + CryptoRng), cust: u64, merch: u64, history: &[i64], template: &Trace) -> Result<Base, String> {
    let mut s = Sess::open(m, rng, cust, merch, b"c02-history")?;
    for &a in history {
        s.pay(rng, amount(a)?, b"c02-history")?.map_err(|e| format!("history payment refused: {:?}", e))?;
    }
    let r = match &s.stage {
        Stage::Ready(r) => r,
        _ => return Err("base: not Ready".into()),
    };
    let t = trace(r)?;
    let cid = raw32_to_scalar(&t.fget("state/channel_id")?);
    let nonce = sc(&t.fget("state/nonce")?).ok_or("base: nonce")?;
    let lock = sc(&t.fget("state/revocation_pair/lock")?).ok_or("base: lock")?;
    let c = le64(&t.fget("state/customer_balance")?);
    let mb = le64(&t.fget("state/merchant_balance")?);
    let s1 = g1(&t.fget("pay_token/sigma1")?).ok_or("base: sigma1")?;
    let s2 = g1(&t.fget("pay_token/sigma2")?).ok_or("base: sigma2")?;
    let mut pair = t.fget("state/revocation_pair/lock")?;
    pair.extend(t.fget("state/revocation_pair/secret/secret")?);
    pair.extend(t.fget("state/revocation_pair/secret/index")?);
    // layout self-check: these bytes must decode as a revocation pair with that lock
    let rp: RevocationPair = dec(&pair).map_err(|e| format!("base: assembled revocation pair does not decode: {}", e))?;
    if rp.revocation_lock().as_bytes() != lock.to_bytes() {
        return Err("base: revocation pair layout mismatch".into());
    }
    let old = [cid, nonce, lock, Scalar::from(c), Scalar::from(mb)];
    if !ps_verify_ref(&m.pk, &s1, &s2, &old) {
        return Err("base: the customer's pay token does not verify on its state by the reference".into());
    }
    let close_sig = match (t.fget("close_state_signature/sigma1").ok().and_then(|b| g1(&b)), t.fget("close_state_signature/sigma2").ok().and_then(|b| g1(&b))) {
        (Some(a), Some(b)) => Some((a, b)),
        _ => None,
    };
    Ok(Base {
        m,
        old,
        token: (s1, s2),
        close_sig,
        cust: c,
        merch: mb,
        old_pair_bytes: pair,
        history: history.to_vec(),
        ndigits: template_digits(template, "customer_balance_proof"),
        template: template.clone(),
    })
}

pub fn pay_template(m: &'static Merchant, seed: u64) -> Result<Trace, String> {
    let mut rng = Ctx::fixture_rng(seed, &format!("c02/template/{}", m.label));
    let mut s = Sess::open(m, &mut rng, 100, 100, b"t")?;
    let (_n, p) = s.c_start(&mut rng, amount(1)?, b"t")?.map_err(|e| format!("{:?}", e))?;
    let pp: zkabacus_crypto::PayProof = dec(&p)?;
    trace(&pp)
}

/// One attempt: the forger's witness, the public values it is submitted under, and a name.
pub struct Plan {
    pub name: String,
    pub w: PayWitness,
    pub nonce_pub: Scalar,
    pub amount_pub: i64,
    /// messages the responses pretend to (for the answer-as-if strategy)
    pub claim_old: [Scalar; 5],
    pub claim_new: [Scalar; 5],
    pub claim_close: [Scalar; 5],
    pub claim_lock: Scalar,
    /// fresh pair whose lock is committed instead of the old one (for the completion oracle)
    pub foreign_pair: Option<Vec<u8>>,
}

fn scalar_i128(v: i128) -> Scalar {
    if v >= 0 {
        Scalar::from_raw([v as u64, (v >> 64) as u64, 0, 0])
    } else {
        let m = (-v) as u128;
        Scalar::zero() - Scalar::from_raw([m as u64, (m >> 64) as u64, 0, 0])
    }
}

fn best_digits(b: &Base, v: i128) -> (Vec<Scalar>, Vec<usize>) {
    let radix = b.m.digit_sigs.len() as u64;
    let cap: u128 = (radix as u128).pow(b.ndigits as u32);
    if v >= 0 && (v as u128) < cap {
        digits_of(v as u64, radix, b.ndigits)
    } else {
        // nothing represents it: the attacker's best effort is the residue modulo radix^L
        let r = (v.rem_euclid(cap as i128)) as u64;
        digits_of(r, radix, b.ndigits)
    }
}

pub fn true_plan(b: &Base, rng: &mut impl RngCore, a: i64) -> Plan {
    let nc = b.cust as i128 - a as i128;
    let nm = b.merch as i128 + a as i128;
    let n2 = Scalar::random(&mut *rng);
    let l2 = Scalar::random(&mut *rng);
    let new = [b.old[0], n2, l2, scalar_i128(nc), scalar_i128(nm)];
    let close = [b.old[0], close_tag_ref(), l2, scalar_i128(nc), scalar_i128(nm)];
    let (cd, ci) = best_digits(b, nc);
    let (md, mi) = best_digits(b, nm);
    Plan {
        name: "true".into(),
        w: PayWitness {
            old_state: b.old,
            token: b.token,
            new_state: new,
            new_close: close,
            committed_lock: b.old[2],
            cust_digits: cd,
            cust_sig_idx: ci,
            merch_digits: md,
            merch_sig_idx: mi,
        },
        nonce_pub: b.old[1],
        amount_pub: a,
        claim_old: b.old,
        claim_new: new,
        claim_close: close,
        claim_lock: b.old[2],
        foreign_pair: None,
    }
}

fn clone_w(w: &PayWitness) -> PayWitness {
    PayWitness {
        old_state: w.old_state,
        token: w.token,
        new_state: w.new_state,
        new_close: w.new_close,
        committed_lock: w.committed_lock,
        cust_digits: w.cust_digits.clone(),
        cust_sig_idx: w.cust_sig_idx.clone(),
        merch_digits: w.merch_digits.clone(),
        merch_sig_idx: w.merch_sig_idx.clone(),
    }
}

fn derive(p: &Plan, name: &str) -> Plan {
    Plan {
        name: name.to_string(),
        w: clone_w(&p.w),
        nonce_pub: p.nonce_pub,
        amount_pub: p.amount_pub,
        claim_old: p.claim_old,
        claim_new: p.claim_new,
        claim_close: p.claim_close,
        claim_lock: p.claim_lock,
        foreign_pair: None,
    }
}

/// The false variants of the statement for base `b` and in-range amount `a`.
pub fn false_plans(b: &Base, rng: &mut (impl RngCore + CryptoRng), a: i64, other_m: &'static Merchant) -> Vec<Plan> {
    let t = true_plan(b, rng, a);
    let nc = b.cust as i128 - a as i128;
    let nm = b.merch as i128 + a as i128;
    let one = Scalar::one();
    let mut v = vec![];
    // wrong public nonce
    for (nm_, n) in [("nonce-public-random", Scalar::random(&mut *rng)), ("nonce-public+1", b.old[1] + one), ("nonce-public=0", Scalar::zero())] {
        let mut p = derive(&t, nm_);
        p.nonce_pub = n;
        p.claim_old[1] = n;
        v.push(p);
    }
    // the public nonce is wrong, and the forger compensates inside the old state he claims (other slot
    // moved the opposite way): only sound if the signature binds every slot separately
    for (nm_, slot) in [("nonce+1-compensated-by-channel-id", 0usize), ("nonce+1-compensated-by-lock", 2), ("nonce+1-compensated-by-customer-balance", 3)] {
        let mut p = derive(&t, nm_);
        p.nonce_pub = b.old[1] + one;
        p.w.old_state[1] = b.old[1] + one;
        p.w.old_state[slot] = b.old[slot] - one;
        if slot == 0 {
            p.w.new_state[0] = p.w.old_state[0];
            p.w.new_close[0] = p.w.old_state[0];
        }
        if slot == 2 {
            p.w.committed_lock = p.w.old_state[2];
        }
        if slot == 3 {
            p.w.new_state[3] -= one;
            p.w.new_close[3] -= one;
            let (cd, ci) = best_digits(b, nc - 1);
            p.w.cust_digits = cd;
            p.w.cust_sig_idx = ci;
        }
        p.claim_old = p.w.old_state;
        p.claim_new = p.w.new_state;
        p.claim_close = p.w.new_close;
        p.claim_lock = p.w.committed_lock;
        v.push(p);
    }
    // the closing signature on the old state spent as if it were a pay token, under a nonce that was
    // never signed: the signed second slot is the close tag, the public nonce is fresh
    if let Some(cs) = b.close_sig {
        for (nm_, n) in [("closing-signature-as-pay-token/fresh-nonce", Scalar::random(&mut *rng)), ("closing-signature-as-pay-token/old-nonce", b.old[1])] {
            let mut p = derive(&t, nm_);
            p.w.token = cs;
            p.w.old_state[1] = close_tag_ref();
            p.nonce_pub = n;
            p.claim_old = p.w.old_state;
            p.claim_old[1] = n;
            v.push(p);
        }
    }
    // amount / balance deviations (kept inside the range so that only the update equation is false)
    let mut bal = |name: &str, dc: i128, dm: i128, in_state: bool, in_close: bool| {
        let (c2, m2) = (nc + dc, nm + dm);
        if c2 < 0 || m2 < 0 || c2 > MAXB as i128 || m2 > MAXB as i128 {
            return;
        }
        let mut p = derive(&t, name);
        if in_state {
            p.w.new_state[3] = scalar_i128(c2);
            p.w.new_state[4] = scalar_i128(m2);
        }
        if in_close {
            p.w.new_close[3] = scalar_i128(c2);
            p.w.new_close[4] = scalar_i128(m2);
        }
        // range constraints are linked to the state's balances
        if in_state {
            let (cd, ci) = best_digits(b, c2);
            let (md, mi) = best_digits(b, m2);
            p.w.cust_digits = cd;
            p.w.cust_sig_idx = ci;
            p.w.merch_digits = md;
            p.w.merch_sig_idx = mi;
        }
        v.push(p);
    };
    bal("cust+1/both", 1, 0, true, true);
    bal("cust-1/both", -1, 0, true, true);
    bal("merch+1/both", 0, 1, true, true);
    bal("merch-1/both", 0, -1, true, true);
    bal("cust+1-merch-1/both", 1, -1, true, true);
    bal("cust+1/state-only", 1, 0, true, false);
    bal("cust+1/close-only", 1, 0, false, true);
    bal("merch+1/close-only", 0, 1, false, true);
    bal("merch+1/state-only", 0, 1, true, false);
    if a != 0 {
        bal("amount-not-applied", a as i128, -(a as i128), true, true);
        bal("amount-applied-twice", -(a as i128), a as i128, true, true);
        bal("amount-on-customer-only", 0, -(a as i128), true, true);
        bal("amount-on-merchant-only", a as i128, 0, true, true);
        bal("amount-sign-flipped", 2 * a as i128, -2 * (a as i128), true, true);
        // wrong public amount, honest witness for a
        let mut p = derive(&t, "amount-public+1");
        p.amount_pub = a.wrapping_add(1);
        v.push(p);
        let mut p = derive(&t, "amount-public-negated");
        p.amount_pub = -a;
        v.push(p);
    } else {
        let mut p = derive(&t, "amount-public=1");
        p.amount_pub = 1;
        v.push(p);
        let mut p = derive(&t, "amount-public=-1");
        p.amount_pub = -1;
        v.push(p);
    }
    // foreign channel id
    {
        let oc = Scalar::random(&mut *rng);
        let mut p = derive(&t, "cid-foreign/new-both");
        p.w.new_state[0] = oc;
        p.w.new_close[0] = oc;
        v.push(p);
        let mut p = derive(&t, "cid-foreign/close-only");
        p.w.new_close[0] = oc;
        v.push(p);
        let mut p = derive(&t, "cid-foreign/state-only");
        p.w.new_state[0] = oc;
        v.push(p);
    }
    // close tag slot
    for (nm_, x) in [("close-tag=new-nonce", t.w.new_state[1]), ("close-tag=0", Scalar::zero()), ("close-tag=random", Scalar::random(&mut *rng)), ("close-tag+1", close_tag_ref() + one)] {
        let mut p = derive(&t, nm_);
        p.w.new_close[1] = x;
        v.push(p);
    }
    // locks
    {
        let mut p = derive(&t, "new-lock-mismatch");
        p.w.new_close[2] = Scalar::random(&mut *rng);
        v.push(p);
        let fresh = zkabacus_crypto::internal::test_new_revocation_pair(&mut *rng);
        let mut p = derive(&t, "committed-lock-foreign");
        p.w.committed_lock = sc(&fresh.revocation_lock().as_bytes()).unwrap_or(Scalar::zero());
        p.foreign_pair = Some(enc(&fresh));
        v.push(p);
        let mut p = derive(&t, "committed-lock+1");
        p.w.committed_lock = b.old[2] + one;
        v.push(p);
        let mut p = derive(&t, "committed-lock=new-lock");
        p.w.committed_lock = t.w.new_state[2];
        v.push(p);
    }
    // pay token
    {
        // a token signed by another merchant key on the same old state
        let mut arr = [Scalar::zero(); 5];
        arr.copy_from_slice(&b.old);
        let sig = zkchannels_crypto::Message::new(arr).sign(&mut *rng, other_m.cfg.signing_keypair());
        let mut p = derive(&t, "token-other-key");
        p.w.token = (sig.sigma1(), sig.sigma2());
        v.push(p);
        let mut p = derive(&t, "token-sigma2-tampered");
        p.w.token = (b.token.0, (G1Projective::from(b.token.1) + G1Projective::from(b.token.0)).to_affine());
        v.push(p);
        // "token" made of curve points outside the prime-order group (sigma2 = identity): pairs to 1 with
        // everything; such bytes are refused when the proof is decoded
        if let Some(cof) = Option::<G1Affine>::from(G1Affine::from_compressed_unchecked(&crate::wire::g1_cofactor_point(&mut *rng))) {
            let mut p = derive(&t, "token-outside-the-group");
            p.w.token = (cof, G1Affine::identity());
            v.push(p);
        }
        let mut p = derive(&t, "token-random");
        p.w.token = (crate::wire::rand_g1(&mut *rng), crate::wire::rand_g1(&mut *rng));
        v.push(p);
        // valid token, but the old state is claimed richer than the signed one
        let bonus: i128 = 1000;
        if nc + bonus <= MAXB as i128 {
            let mut p = derive(&t, "old-state-richer-than-token");
            p.w.old_state[3] += Scalar::from(bonus as u64);
            p.w.new_state[3] = scalar_i128(nc + bonus);
            p.w.new_close[3] = scalar_i128(nc + bonus);
            let (cd, ci) = best_digits(b, nc + bonus);
            p.w.cust_digits = cd;
            p.w.cust_sig_idx = ci;
            p.claim_old = p.w.old_state;
            p.claim_new = p.w.new_state;
            p.claim_close = p.w.new_close;
            v.push(p);
        }
        let mut p = derive(&t, "old-state-other-cid-than-token");
        let oc = Scalar::random(&mut *rng);
        p.w.old_state[0] = oc;
        p.w.new_state[0] = oc;
        p.w.new_close[0] = oc;
        p.claim_old = p.w.old_state;
        p.claim_new = p.w.new_state;
        p.claim_close = p.w.new_close;
        v.push(p);
    }
    v
}

/// Out-of-range variants: the public amount makes a balance negative or >= 2^63; the forger
/// commits to the true arithmetic result mod q and presents his best digit constraint.
pub fn out_of_range_plans(b: &Base, rng: &mut impl RngCore) -> Vec<Plan> {
    let mut v = vec![];
    let radix = b.m.digit_sigs.len() as u64;
    let mut cands: Vec<(String, i64)> = vec![];
    if b.cust < MAXB {
        cands.push(("customer->-1".into(), (b.cust + 1) as i64));
    }
    if b.merch < MAXB {
        cands.push(("merchant->-1".into(), -((b.merch + 1) as i64)));
    }
    // a balance of exactly 2^63: needs the other side to afford it
    let up_m = MAXB as i128 + 1 - b.merch as i128; // amount that makes merchant = 2^63
    if up_m > 0 && up_m <= MAXB as i128 && (b.cust as i128) >= up_m {
        cands.push(("merchant->2^63".into(), up_m as i64));
    }
    let up_c = MAXB as i128 + 1 - b.cust as i128;
    if up_c > 0 && up_c <= MAXB as i128 && (b.merch as i128) >= up_c {
        cands.push(("customer->2^63".into(), -(up_c as i64)));
    }
    for (name, a) in cands {
        let nc = b.cust as i128 - a as i128;
        let nm = b.merch as i128 + a as i128;
        let t = true_plan(b, rng, a); // commits to the mod-q results with residue digits
        // variant 1: residue digits
        v.push(derive(&t, &format!("out-of-range/{}/residue-digits", name)));
        // variant 2: all-maximal digits (the largest representable value)
        let bad_is_cust = nc < 0 || nc > MAXB as i128;
        let maxd: Vec<Scalar> = vec![Scalar::from(radix - 1); b.ndigits];
        let maxi: Vec<usize> = vec![(radix - 1) as usize; b.ndigits];
        let mut p = derive(&t, &format!("out-of-range/{}/all-max-digits", name));
        if bad_is_cust {
            p.w.cust_digits = maxd.clone();
            p.w.cust_sig_idx = maxi.clone();
        } else {
            p.w.merch_digits = maxd.clone();
            p.w.merch_sig_idx = maxi.clone();
        }
        v.push(p);
        // variant 3: a digit outside the alphabet (value radix in the top position) with the
        // signature published for another digit; represents 2^63 exactly when radix^L = 2^63
        let mut d: Vec<Scalar> = vec![Scalar::zero(); b.ndigits];
        let mut di: Vec<usize> = vec![0; b.ndigits];
        d[b.ndigits - 1] = Scalar::from(radix);
        di[b.ndigits - 1] = (radix - 1) as usize;
        let mut p = derive(&t, &format!("out-of-range/{}/digit-outside-alphabet", name));
        if bad_is_cust {
            p.w.cust_digits = d;
            p.w.cust_sig_idx = di;
        } else {
            p.w.merch_digits = d;
            p.w.merch_sig_idx = di;
        }
        v.push(p);
        // variant 4: negative digit (-1 in the lowest position) under the signature on 1
        let mut d: Vec<Scalar> = vec![Scalar::zero(); b.ndigits];
        let mut di: Vec<usize> = vec![0; b.ndigits];
        d[0] = -Scalar::one();
        di[0] = 1;
        let mut p = derive(&t, &format!("out-of-range/{}/negative-digit", name));
        if bad_is_cust {
            p.w.cust_digits = d;
            p.w.cust_sig_idx = di;
        } else {
            p.w.merch_digits = d;
            p.w.merch_sig_idx = di;
        }
        v.push(p);
    }
    v
}

pub struct Truth {
    pub truth: bool,
    pub reasons: Vec<String>,
    pub openings_ok: bool,
}

/// Is the statement true for what the forger actually holds (after all his modifications)?
pub fn truth_of(b: &Base, pr: &PayProver, nonce_pub: &Scalar, amount_pub: i64) -> Truth {
    let mut reasons = vec![];
    let open = |s: &Schnorr<G1Projective>| pedersen(&s.h, &s.gs, &s.msg, &s.bf) == s.com;
    let tok_open = pedersen(&pr.token.sch.h, &pr.token.sch.gs, &pr.token.sch.msg, &pr.token.sch.bf) == pr.token.sch.com;
    let openings_ok = open(&pr.state) && open(&pr.close) && open(&pr.revlock) && tok_open;
    if !openings_ok {
        reasons.push("a commitment does not open to the forger's message".into());
    }
    let old = &pr.token.sch.msg;
    let new = &pr.state.msg;
    let close = &pr.close.msg;
    // the token the proof was built around: un-randomise is impossible, so check the blinded
    // signature's pairing link against the commitment instead (reference)
    let s1 = pr.token.s1.to_affine();
    let s2 = pr.token.s2.to_affine();
    let (wf, _sch, link) = sigproof_ref(&b.m.pk, &s1, &s2, &pr.token.sch.com.to_affine(), &pr.token.sch.t.to_affine(), &Scalar::zero(), &Scalar::zero(), &vec![Scalar::zero(); 5]);
    if !(wf && link) {
        reasons.push("the presented (blinded) pay token is not a valid signature on the committed old state".into());
    }
    if old[1] != *nonce_pub {
        reasons.push("old state's nonce differs from the public nonce".into());
    }
    if new[0] != old[0] || close[0] != old[0] {
        reasons.push("channel id differs between old state, new state and close state".into());
    }
    if close[1] != close_tag_ref() {
        reasons.push("close state's second slot is not the close tag".into());
    }
    if new[2] != close[2] {
        reasons.push("new state and close state carry different revocation locks".into());
    }
    if pr.revlock.msg[0] != old[2] {
        reasons.push("revocation-lock commitment does not commit to the old state's lock".into());
    }
    // integer view of the old balances (only meaningful when they are the base's)
    let known_old = old[3] == Scalar::from(b.cust) && old[4] == Scalar::from(b.merch);
    let mut extra_old: i128 = 0;
    let mut known = known_old;
    if !known_old && old[4] == Scalar::from(b.merch) && old[3] == Scalar::from(b.cust) + Scalar::from(1000u64) {
        extra_old = 1000;
        known = true;
    }
    if known {
        let nc = b.cust as i128 + extra_old - amount_pub as i128;
        let nm = b.merch as i128 + amount_pub as i128;
        if nc < 0 || nm < 0 || nc > MAXB as i128 || nm > MAXB as i128 {
            reasons.push(format!("old balances moved by the public amount leave [0, 2^63): ({}, {})", nc, nm));
        }
        if new[3] != scalar_i128(nc) || close[3] != scalar_i128(nc) {
            reasons.push("customer balance is not old balance - amount in state and close state".into());
        }
        if new[4] != scalar_i128(nm) || close[4] != scalar_i128(nm) {
            reasons.push("merchant balance is not old balance + amount in state and close state".into());
        }
    } else {
        reasons.push("old state balances unknown to the harness (treated as false)".into());
    }
    Truth {
        truth: reasons.is_empty(),
        reasons,
        openings_ok,
    }
}

/// the verifier's conjuncts, evaluated by the reference on the final proof
pub fn pay_relations_ref(b: &Base, pr: &PayProver, r: &PayResponses, c: &Scalar, nonce_pub: &Scalar, amount_pub: i64) -> Vec<(&'static str, bool)> {
    let m = b.m;
    let amt = amount_scalar_ref(amount_pub);
    let (wf, tsch, link) = sigproof_ref(&m.pk, &pr.token.s1.to_affine(), &pr.token.s2.to_affine(), &pr.token.sch.com.to_affine(), &pr.token.sch.t.to_affine(), c, &r.token.bf, &r.token.msg);
    let sch1 = |s: &Schnorr<G1Projective>, rr: &Resp| {
        let h = s.h.to_affine();
        let gs: Vec<G1Affine> = s.gs.iter().map(|g| g.to_affine()).collect();
        schnorr_ref_g1(&h, &gs, &s.com.to_affine(), &s.t.to_affine(), c, &rr.bf, &rr.msg)
    };
    let range = |rp: &RangeProver| -> (bool, Scalar) {
        let mut all = true;
        let mut acc = Scalar::zero();
        let mut pw = Scalar::one();
        for d in &rp.digits {
            let rr = d.sch.respond(c);
            let (a, b_, l) = sigproof_ref(&m.range_pk, &d.s1.to_affine(), &d.s2.to_affine(), &d.sch.com.to_affine(), &d.sch.t.to_affine(), c, &rr.bf, &rr.msg);
            all &= a && b_ && l;
            acc += pw * rr.msg[0];
            pw *= Scalar::from(rp.radix);
        }
        (all, acc)
    };
    let (cd, csum) = range(&pr.cust_range);
    let (md, msum) = range(&pr.merch_range);
    vec![
        ("token-well-formed", wf),
        ("token-schnorr", tsch),
        ("token-link", link),
        ("schnorr-revlock", sch1(&pr.revlock, &r.revlock)),
        ("schnorr-state", sch1(&pr.state, &r.state)),
        ("schnorr-close", sch1(&pr.close, &r.close)),
        ("cust-range-digits", cd),
        ("cust-range-link", csum == r.state.msg[3]),
        ("merch-range-digits", md),
        ("merch-range-link", msum == r.state.msg[4]),
        ("cid-state-close", r.state.msg[0] == r.close.msg[0]),
        ("cid-close-token", r.close.msg[0] == r.token.msg[0]),
        ("close-tag", r.close.msg[1] == *c * close_tag_ref() + pr.close_tag_cs),
        ("old-lock-equal", r.revlock.msg[0] == r.token.msg[2]),
        ("new-lock-equal", r.state.msg[2] == r.close.msg[2]),
        ("nonce", r.token.msg[1] == *c * *nonce_pub + pr.old_nonce_cs),
        ("cust-state-close", r.state.msg[3] == r.close.msg[3]),
        ("merch-state-close", r.state.msg[4] == r.close.msg[4]),
        ("cust-update", r.state.msg[3] == r.token.msg[3] - *c * amt),
        ("merch-update", r.state.msg[4] == r.token.msg[4] + *c * amt),
    ]
}

pub struct PayJudge<'a> {
    pub b: &'a Base,
    pub context: Vec<u8>,
    /// property id used in violation signatures (C02; C05 reuses one plan)
    pub prop: &'static str,
    /// public nonces under which this base's pay token has been accepted so far
    pub accepted_nonces: std::cell::RefCell<std::collections::BTreeSet<[u8; 32]>>,
    /// blinded pay token of a true statement the merchant accepted earlier (for the replay strategy)
    pub accepted_blinded: std::cell::RefCell<Option<(G1Projective, G1Projective)>>,
}

impl<'a> PayJudge<'a> {
    /// Submit and judge. Returns (accepted, challenge).
    pub fn submit(
        &self,
        c: &mut Ctx,
        rng: &mut (impl RngCore + CryptoRng),
        label: &str,
        pr: &PayProver,
        r: Option<&PayResponses>,
        ch_for_digits: &Scalar,
        plan: &Plan,
        nonce_pub: &Scalar,
        amount_pub: i64,
    ) -> Option<(bool, Scalar)> {
        let b = self.b;
        let zero = PayResponses {
            revlock: Resp { bf: Scalar::zero(), msg: vec![Scalar::zero(); 1] },
            token: Resp { bf: Scalar::zero(), msg: vec![Scalar::zero(); 5] },
            state: Resp { bf: Scalar::zero(), msg: vec![Scalar::zero(); 5] },
            close: Resp { bf: Scalar::zero(), msg: vec![Scalar::zero(); 5] },
        };
        let is_draft = r.is_none();
        let rr = r.unwrap_or(&zero);
        let bytes = c.ok(pr.assemble(&b.template, ch_for_digits, rr))?;
        let pa = match amount(amount_pub) {
            Ok(a) => a,
            Err(_) => c.ok(dec::<zkabacus_crypto::PaymentAmount>(&amount_pub.to_le_bytes()))?,
        };
        let nonce_bytes = nonce_pub.to_bytes();
        if *nonce_pub == close_tag_ref() {
            return None;
        }
        // the completion oracle runs inside the callback while the Unrevoked value is alive
        let foreign = plan.foreign_pair.clone();
        let old_pair = b.old_pair_bytes.clone();
        let rl_bf = pr.revlock.bf;
        let mut crng = c.rng(&format!("complete/{}", label));
        let out = submit_pay(b.m, rng, pa, &nonce_bytes, &bytes, &self.context, move |unrev| {
            // try the pair for the lock that was actually committed
            let bf: Result<RevocationLockBlindingFactor, String> = dec(&rl_bf.to_bytes());
            let Ok(bf) = bf else { return (None, None) };
            let mut unrev = unrev;
            let mut foreign_completed = None;
            if let Some(fp) = &foreign {
                if let Ok(pair) = dec::<RevocationPair>(fp) {
                    match unrev.complete_payment(&mut crng, &pair, &bf) {
                        Ok(_tok) => return (Some(true), None),
                        Err(u) => {
                            unrev = u;
                            foreign_completed = Some(false);
                        }
                    }
                }
            }
            let old_completed = match dec::<RevocationPair>(&old_pair) {
                Ok(pair) => Some(unrev.complete_payment(&mut crng, &pair, &bf).is_ok()),
                Err(_) => None,
            };
            (foreign_completed, old_completed)
        });
        if plan.name == "token-outside-the-group" {
            if let Err(e) = &out {
                if e.contains("does not decode") {
                    c.count("forged_proof_refused_at_decode", 1);
                    return None;
                }
            }
        }
        let (out, completion) = c.ok(out)?;
        c.count("hook_records_read", 1);
        if is_draft {
            return Some((out.accepted.is_some(), out.challenge));
        }
        c.eval();
        let t = truth_of(b, pr, nonce_pub, amount_pub);
        let rel = pay_relations_ref(b, pr, rr, &out.challenge, nonce_pub, amount_pub);
        let failing: Vec<&str> = rel.iter().filter(|(_, ok)| !ok).map(|(n, _)| *n).collect();
        if failing.len() == 1 {
            c.count(&format!("exactly-one-relation-false[{}]", failing[0]), 1);
        }
        match &out.accepted {
            None => {
                c.count("rejected", 1);
                if t.truth && failing.is_empty() {
                    c.violation(&format!("C02 true-statement-rejected {}", label), json!({"label": label, "history": b.history}));
                }
            }
            Some(sig_b) => {
                c.count("accepted", 1);
                // one pay token, two nonces: whatever the reason, this is the double spend the property names
                if plan.w.token == b.token {
                    let mut set = self.accepted_nonces.borrow_mut();
                    let _ = set.insert(nonce_pub.to_bytes());
                    if set.len() > 1 {
                        c.violation(
                            &format!("{} same-pay-token-accepted-under-two-nonces {}", self.prop, label),
                            json!({"label": label, "nonces": set.iter().map(|n| hex(n)).collect::<Vec<_>>(), "history": b.history}),
                        );
                    }
                }
                let csig = c.ok(unblind_bytes(sig_b, &pr.close.bf))?;
                let on_close = ps_verify_ref(&b.m.pk, &csig.0, &csig.1, &pr.close.msg);
                if t.truth {
                    *self.accepted_blinded.borrow_mut() = Some((pr.token.s1, pr.token.s2));
                    c.count("accepted_true_statements", 1);
                    if !on_close {
                        c.violation(&format!("C02 honest-closing-signature-invalid {}", label), json!({"label": label}));
                    }
                    if let Some((_, Some(false))) = completion {
                        c.violation(&format!("C02 honest-completion-refused {}", label), json!({"label": label}));
                    }
                } else {
                    let token_link_false = failing.contains(&"token-link") || failing.contains(&"token-well-formed");
                    let foreign_completed = matches!(completion, Some((Some(true), _)));
                    if on_close || token_link_false || foreign_completed {
                        c.violation(
                            &format!("{} forgery-accepted {}", self.prop, label),
                            json!({
                                "label": label,
                                "why_false": t.reasons,
                                "public_nonce": hex(&nonce_pub.to_bytes()),
                                "public_amount": amount_pub.to_string(),
                                "old_state": pr.token.sch.msg.iter().map(|s| hex(&s.to_bytes())).collect::<Vec<_>>(),
                                "new_close_state": pr.close.msg.iter().map(|s| hex(&s.to_bytes())).collect::<Vec<_>>(),
                                "closing_signature_verifies_on_false_close_state": on_close,
                                "token_link_false_by_reference": token_link_false,
                                "completed_with_foreign_revocation_pair": foreign_completed,
                                "relations_false_by_reference": failing,
                                "history": b.history,
                                "old_balances": [b.cust.to_string(), b.merch.to_string()],
                            }),
                        );
                    } else {
                        c.inconclusive(&format!("C02: {} accepted for a statement believed false ({:?}) but no witness could be exhibited", label, t.reasons));
                    }
                }
            }
        }
        Some((out.accepted.is_some(), out.challenge))
    }
}

fn as_if_responses(pr: &PayProver, p: &Plan, c: &Scalar) -> PayResponses {
    PayResponses {
        revlock: pr.revlock.respond_as(c, &[p.claim_lock]),
        token: pr.token.sch.respond_as(c, &p.claim_old),
        state: pr.state.respond_as(c, &p.claim_new),
        close: pr.close.respond_as(c, &p.claim_close),
    }
}

pub fn run_plan(c: &mut Ctx, j: &PayJudge, rng: &mut (impl RngCore + CryptoRng), p: &Plan, cls: &str) {
    let b = j.b;
    // the "claimed" messages for answer-as-if: what a true statement under the public values
    // would look like, keeping the forger's free slots
    let mut claim = derive(p, &p.name);
    {
        let a = p.amount_pub;
        let nc = b.cust as i128 - a as i128;
        let nm = b.merch as i128 + a as i128;
        claim.claim_old[1] = p.nonce_pub;
        claim.claim_new = [claim.claim_old[0], p.w.new_state[1], p.w.new_state[2], scalar_i128(nc), scalar_i128(nm)];
        if claim.claim_old[3] != Scalar::from(b.cust) {
            // old state claimed richer: keep the forger's arithmetic
            claim.claim_new[3] = claim.claim_old[3] - amount_scalar_ref(a);
        }
        claim.claim_close = [claim.claim_old[0], close_tag_ref(), p.w.new_state[2], claim.claim_new[3], claim.claim_new[4]];
        claim.claim_lock = claim.claim_old[2];
    }
    // S1 honest-but-lying
    {
        let pr = PayProver::commit(rng, b.m, &p.w);
        if let Some((_, c0)) = j.submit(c, rng, "draft", &pr, None, &Scalar::zero(), p, &p.nonce_pub, p.amount_pub) {
            c.distinct(&format!("S1/{}", cls));
            let r = pr.responses(&c0);
            let _ = j.submit(c, rng, &format!("strategy=honest-but-lying variant={}", p.name), &pr, Some(&r), &c0, p, &p.nonce_pub, p.amount_pub);
        }
    }
    // S3 answer as if the statement were true
    {
        let pr = PayProver::commit(rng, b.m, &p.w);
        if let Some((_, c0)) = j.submit(c, rng, "draft", &pr, None, &Scalar::zero(), p, &p.nonce_pub, p.amount_pub) {
            c.distinct(&format!("S3/{}", cls));
            let r = as_if_responses(&pr, &claim, &c0);
            let _ = j.submit(c, rng, &format!("strategy=answer-as-if-true variant={}", p.name), &pr, Some(&r), &c0, p, &p.nonce_pub, p.amount_pub);
        }
    }
    // S4a post-challenge choice of every scalar commitment T (as-if responses, T := Com(resp) - c*C)
    {
        let mut pr = PayProver::commit(rng, b.m, &p.w);
        if let Some((_, mut ch)) = j.submit(c, rng, "draft", &pr, None, &Scalar::zero(), p, &p.nonce_pub, p.amount_pub) {
            c.distinct(&format!("S4/T-all/{}", cls));
            for _ in 0..2 {
                let r = as_if_responses(&pr, &claim, &ch);
                pr.revlock.t = pr.revlock.t_for(&ch, &r.revlock);
                pr.token.sch.t = pr.token.sch.t_for(&ch, &r.token);
                pr.state.t = pr.state.t_for(&ch, &r.state);
                pr.close.t = pr.close.t_for(&ch, &r.close);
                match j.submit(c, rng, &format!("strategy=post-challenge field=T-all variant={}", p.name), &pr, Some(&r), &ch, p, &p.nonce_pub, p.amount_pub) {
                    Some((false, c1)) if c1 != ch => {
                        c.count("field_bound_challenge_moved", 1);
                        ch = c1;
                    }
                    _ => break,
                }
            }
        }
    }
    // S5 the byte-identical blinded token of a proof the merchant accepted before, around this plan's
    // (different) commitment: whatever the merchant remembers about those bytes, the link is false
    let stored = *j.accepted_blinded.borrow();
    if let Some((s1, s2)) = stored {
        let mut pr = PayProver::commit(rng, b.m, &p.w);
        pr.token.s1 = s1;
        pr.token.s2 = s2;
        if let Some((_, c0)) = j.submit(c, rng, "draft", &pr, None, &Scalar::zero(), p, &p.nonce_pub, p.amount_pub) {
            c.distinct(&format!("S5/{}", cls));
            let r = pr.responses(&c0);
            let _ = j.submit(c, rng, &format!("strategy=replayed-blinded-token variant={}", p.name), &pr, Some(&r), &c0, p, &p.nonce_pub, p.amount_pub);
        }
    }
    // S4b post-challenge choice of the revealed commitment scalars
    let nonce_dev = p.w.old_state[1] != p.nonce_pub;
    let tag_dev = p.w.new_close[1] != close_tag_ref();
    if nonce_dev || tag_dev {
        let mut pr = PayProver::commit(rng, b.m, &p.w);
        if let Some((_, mut ch)) = j.submit(c, rng, "draft", &pr, None, &Scalar::zero(), p, &p.nonce_pub, p.amount_pub) {
            let field = if nonce_dev { "old_nonce_commitment_scalar" } else { "close_tag_commitment_scalar" };
            c.distinct(&format!("S4/{}/{}", field, cls));
            for _ in 0..3 {
                let r = pr.responses(&ch);
                if nonce_dev {
                    pr.old_nonce_cs = r.token.msg[1] - ch * p.nonce_pub;
                }
                if tag_dev {
                    pr.close_tag_cs = r.close.msg[1] - ch * close_tag_ref();
                }
                match j.submit(c, rng, &format!("strategy=post-challenge field={} variant={}", field, p.name), &pr, Some(&r), &ch, p, &p.nonce_pub, p.amount_pub) {
                    Some((false, c1)) if c1 != ch => {
                        c.count("field_bound_challenge_moved", 1);
                        ch = c1;
                    }
                    _ => break,
                }
            }
        }
    }
}

pub fn base_specs(tier: crate::ctx::Tier) -> Vec<(u64, u64, Vec<i64>, i64)> {
    // (initial customer, initial merchant, history, amount of the attacked payment)
    let mut v: Vec<(u64, u64, Vec<i64>, i64)> = vec![
        (1000, 10, vec![], 7),
        (1000, 10, vec![5], -3),
        (50, 50, vec![10, -20], 0),
        (MAXB, 0, vec![], 1),
        (0, MAXB, vec![], -1),
        (1 << 40, 1 << 40, vec![1, 2, 3], 1 << 39),
        // a balance within reach of 2^63-1: the out-of-range variants can push it to exactly 2^63
        (100, MAXB - 5, vec![], 3),
        (MAXB - 5, 100, vec![], -3),
    ];
    if tier == crate::ctx::Tier::Thorough {
        v.extend(vec![
            (1, 0, vec![], 1),
            (0, 1, vec![], -1),
            (MAXB - 5, 5, vec![-5], MAXB as i64),
            (12345, 678, vec![100, -100, 45], -678),
            (1 << 62, 1 << 62, vec![], -((1i64 << 62) - 1)),
            (77, 0, vec![7, 7, 7], 56),
        ]);
    }
    v
}

pub fn run(c: &mut Ctx) {
    c.note("rule", json!("per base (merchant, honest history leading to a real pay token, attacked amount): the true statement as positive control, ~40 false variants (public nonce, amount on either balance, state/close disagreement, foreign channel id, close-tag slot, old/new lock, foreign or tampered token, richer old state) and out-of-range variants with the attacker's best digit constraints (residue, all-max, digit outside the alphabet, negative digit), each under strategies {honest-but-lying, answer-as-if-true, post-challenge T-all, post-challenge old_nonce / close_tag commitment scalar}. Distinct = distinct (strategy, field, base, variant) that reached the real allow_payment. Added later: a tracker that fires when one pay token is accepted under two public nonces, compensating plans (nonce+1 balanced in another slot), boundary bases, and the closing signature of the old state spent as pay token under a fresh nonce. A token made of curve points outside the prime-order group; the byte-identical blinded token of an earlier accepted proof replayed around another commitment."));
    let nm = c.tier.pick(1usize, 3);
    for mi in 0..nm {
        let m = match fixtures::merchant(c.seed, &format!("m{}", mi)) {
            Ok(m) => m,
            Err(e) => return c.inconclusive(&e),
        };
        let other = match fixtures::merchant(c.seed, &format!("m{}", mi + 7)) {
            Ok(m) => m,
            Err(e) => return c.inconclusive(&e),
        };
        let template = match pay_template(m, c.seed) {
            Ok(t) => t,
            Err(e) => return c.inconclusive(&e),
        };
        for (bi, (cust, merch, hist, a)) in base_specs(c.tier).into_iter().enumerate() {
            // a base only makes sense when the ideal ledger accepts its history and the attacked amount
            let mut bal = Some((cust, merch));
            for x in hist.iter().chain(std::iter::once(&a)) {
                bal = bal.and_then(|(cc, mm)| ledger_apply(cc, mm, *x).ok());
            }
            if bal.is_none() {
                c.note(&format!("base{}_skipped", bi), json!("history or attacked amount out of range by the ideal ledger"));
                continue;
            }
            let ngroups = c.tier.pick(4usize, 6);
            for g in 0..ngroups {
                let name = format!("m{}/base{}/group{}", mi, bi, g);
                c.case(&name, |c| {
                    let mut brng = Ctx::fixture_rng(c.seed, &format!("c02/base/m{}/{}", mi, bi));
                    let b = match make_base(m, &mut brng, cust, merch, &hist, &template) {
                        Ok(b) => b,
                        Err(e) => return c.inconclusive(&e),
                    };
                    let mut rng = c.rng(&name);
                    let mut context = vec![0u8; 8];
                    rng.fill_bytes(&mut context);
                    let j = PayJudge { b: &b, context, prop: "C02", accepted_nonces: Default::default(), accepted_blinded: Default::default() };
                    // positive control
                    {
                        let p = true_plan(&b, &mut rng, a);
                        let pr = PayProver::commit(&mut rng, m, &p.w);
                        let Some((_, c0)) = j.submit(c, &mut rng, "draft", &pr, None, &Scalar::zero(), &p, &p.nonce_pub, a) else { return };
                        let r = pr.responses(&c0);
                        match j.submit(c, &mut rng, "control/true-statement", &pr, Some(&r), &c0, &p, &p.nonce_pub, a) {
                            Some((true, c1)) if c1 == c0 => c.count("positive_controls_accepted", 1),
                            Some((true, _)) => return c.inconclusive("C02: challenge changed between draft and final proof"),
                            Some((false, _)) => return c.inconclusive("C02: positive control (shadow prover, true statement) was rejected — cannot observe"),
                            None => return,
                        }
                    }
                    let mut plans = false_plans(&b, &mut rng, a, other);
                    plans.extend(out_of_range_plans(&b, &mut rng));
                    if g == 0 {
                        c.sample(json!({"merchant": m.label, "initial": [cust.to_string(), merch.to_string()], "history": hist, "attacked_amount": a.to_string(),
                                         "old_balances": [b.cust.to_string(), b.merch.to_string()], "variants": plans.iter().map(|p| p.name.clone()).collect::<Vec<_>>()}));
                    }
                    for (pi, p) in plans.iter().enumerate() {
                        if pi % ngroups != g {
                            continue;
                        }
                        let cls = format!("m{}/base{}/{}", mi, bi, p.name);
                        run_plan(c, &j, &mut rng, p, &cls);
                    }
                });
            }
        }
    }
}
