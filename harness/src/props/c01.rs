//! C01 — the merchant establishes only channels whose hidden state matches the agreed values.
//!
//! The shadow prover (I5) builds establish proofs for hidden (state, close state) pairs that differ
//! from the agreed values, with four strategy families; every proof is submitted to the real
//! `merchant::Config::initialize`. The refuting event is an *actual merchant signature* (closing
//! signature or pay token, unblinded with the forger's blinding factor) that verifies on a message
//! differing from the agreed one — checked with the pairing reference and with `Signature::verify`.

use crate::ctx::{hex, Ctx};
use crate::fixtures::{self, Merchant};
use crate::refs::*;
use crate::shadow::*;
use crate::tracer::{trace, Trace};
use crate::wire::{dec, enc};
use bls12_381::{G1Projective, Scalar};
use ff::Field;
use rand_core::RngCore;
use serde_json::json;
use zkabacus_crypto::{ChannelId, Context};
use zkchannels_crypto::{pointcheval_sanders::Signature, Message};

#[derive(Clone)]
pub struct Agreed {
    pub cid_bytes: [u8; 32],
    pub cid: Scalar,
    pub cust: u64,
    pub merch: u64,
    pub context: Vec<u8>,
}

impl Agreed {
    pub fn state(&self, nonce: Scalar, lock: Scalar) -> [Scalar; 5] {
        [self.cid, nonce, lock, Scalar::from(self.cust), Scalar::from(self.merch)]
    }
    pub fn close(&self, lock: Scalar) -> [Scalar; 5] {
        [self.cid, close_tag_ref(), lock, Scalar::from(self.cust), Scalar::from(self.merch)]
    }
    /// does the hidden pair satisfy the statement for these agreed values?
    pub fn statement_true(&self, st: &[Scalar], cl: &[Scalar]) -> bool {
        st[0] == self.cid
            && cl[0] == self.cid
            && cl[1] == close_tag_ref()
            && st[2] == cl[2]
            && st[3] == Scalar::from(self.cust)
            && cl[3] == Scalar::from(self.cust)
            && st[4] == Scalar::from(self.merch)
            && cl[4] == Scalar::from(self.merch)
    }
}

pub struct Witness {
    pub name: String,
    pub state: [Scalar; 5],
    pub close: [Scalar; 5],
    /// which slots deviate identically in both messages (eligible for the revealed-scalar attack)
    pub both_slots: Vec<usize>,
}

pub fn false_witnesses(a: &Agreed, rng: &mut impl RngCore) -> Vec<Witness> {
    let n = Scalar::random(&mut *rng);
    let l = Scalar::random(&mut *rng);
    let st = a.state(n, l);
    let cl = a.close(l);
    let mut v: Vec<Witness> = vec![];
    let mut add = |name: &str, s: [Scalar; 5], c: [Scalar; 5], both: &[usize]| {
        v.push(Witness {
            name: name.to_string(),
            state: s,
            close: c,
            both_slots: both.to_vec(),
        })
    };
    let other_cid = Scalar::random(&mut *rng);
    let one = Scalar::one();
    // channel id
    {
        let (mut s, mut c) = (st, cl);
        s[0] = other_cid;
        c[0] = other_cid;
        add("cid-other/both", s, c, &[0]);
        add("cid-other/state-only", s, cl, &[]);
        add("cid-other/close-only", st, c, &[]);
        let (mut s, mut c) = (st, cl);
        s[0] += one;
        c[0] += one;
        add("cid+1/both", s, c, &[0]);
    }
    // balances
    for (slot, nm) in [(3usize, "cust"), (4usize, "merch")] {
        for (dn, d) in [("+1", one), ("-1", -one), ("+2^63", Scalar::from(1u64 << 63)), ("=q-1", q_minus_1() - st[slot])] {
            let (mut s, mut c) = (st, cl);
            s[slot] += d;
            c[slot] += d;
            add(&format!("{}{}/both", nm, dn), s, c, &[slot]);
            if dn == "+1" {
                add(&format!("{}{}/state-only", nm, dn), s, cl, &[]);
                add(&format!("{}{}/close-only", nm, dn), st, c, &[]);
            }
        }
    }
    // the lie spread over both messages with opposite signs (state: v - d, close state: v + d)
    for (slot, nm) in [(0usize, "cid"), (3usize, "cust"), (4usize, "merch")] {
        for (dn, d) in [("1", one), ("10^6", Scalar::from(1_000_000u64))] {
            let (mut s, mut c) = (st, cl);
            s[slot] -= d;
            c[slot] += d;
            add(&format!("{}-{}/state,+{}/close", nm, dn, dn), s, c, &[]);
        }
    }
    {
        // swap and move (sum kept)
        let (mut s, mut c) = (st, cl);
        s.swap(3, 4);
        c.swap(3, 4);
        if a.cust != a.merch {
            add("swap-balances/both", s, c, &[3, 4]);
            let mut c2 = cl;
            c2.swap(3, 4);
            add("swap-balances/close-only", st, c2, &[]);
        }
        let total = Scalar::from(a.cust) + Scalar::from(a.merch);
        let (mut s, mut c) = (st, cl);
        s[3] = total;
        s[4] = Scalar::zero();
        c[3] = total;
        c[4] = Scalar::zero();
        if a.merch != 0 {
            add("move-all-to-customer/both", s, c, &[3, 4]);
        }
        let (mut s, mut c) = (st, cl);
        s[3] += one;
        s[4] -= one;
        c[3] += one;
        c[4] -= one;
        add("move-1-to-customer/both", s, c, &[3, 4]);
    }
    // close tag slot
    {
        let mut c = cl;
        c[1] = n;
        add("close-tag=nonce", st, c, &[]);
        let mut c = cl;
        c[1] = Scalar::zero();
        add("close-tag=0", st, c, &[]);
        let mut c = cl;
        c[1] = Scalar::random(&mut *rng);
        add("close-tag=random", st, c, &[]);
        let mut c = cl;
        c[1] += one;
        add("close-tag+1", st, c, &[]);
    }
    // revocation lock
    {
        let mut c = cl;
        c[2] = Scalar::random(&mut *rng);
        add("lock-differs", st, c, &[]);
        let mut c = cl;
        c[2] += one;
        add("lock+1", st, c, &[]);
    }
    // cross-slot substitutions inside the close state
    {
        let mut c = cl;
        c.swap(0, 2);
        add("cross/close cid<->lock", st, c, &[]);
        let mut c = cl;
        c.swap(1, 2);
        add("cross/close tag<->lock", st, c, &[]);
        let mut c = cl;
        c.swap(2, 3);
        add("cross/close lock<->cust", st, c, &[]);
        let mut s = st;
        s.swap(0, 1);
        add("cross/state cid<->nonce", s, cl, &[]);
        let mut s = st;
        s.swap(2, 3);
        add("cross/state lock<->cust", s, cl, &[]);
        // whole messages exchanged
        add("cross/state<->close", cl, st, &[]);
    }
    v.retain(|w| !a.statement_true(&w.state, &w.close));
    v
}

/// the eleven relations the verifier has to enforce, evaluated by the reference on a final proof
pub fn relation_vector(m: &Merchant, a: &Agreed, p: &EstProver, rs: &Resp, rc: &Resp, c: &Scalar) -> Vec<(&'static str, bool)> {
    let pk = &m.pk;
    let e = |v: u64| *c * Scalar::from(v);
    let exp_cid = *c * a.cid + p.revealed[0];
    let exp_tag = *c * close_tag_ref() + p.revealed[1];
    let exp_cust = e(a.cust) + p.revealed[2];
    let exp_merch = e(a.merch) + p.revealed[3];
    use group::Curve;
    vec![
        ("schnorr-state", schnorr_ref_g1(&pk.g1, &pk.y1s, &p.state.com.to_affine(), &p.state.t.to_affine(), c, &rs.bf, &rs.msg)),
        ("schnorr-close", schnorr_ref_g1(&pk.g1, &pk.y1s, &p.close.com.to_affine(), &p.close.t.to_affine(), c, &rc.bf, &rc.msg)),
        ("cid-state", rs.msg[0] == exp_cid),
        ("cid-close", rc.msg[0] == exp_cid),
        ("close-tag", rc.msg[1] == exp_tag),
        ("lock-equal", rs.msg[2] == rc.msg[2]),
        ("cust-state", rs.msg[3] == exp_cust),
        ("cust-close", rc.msg[3] == exp_cust),
        ("merch-state", rs.msg[4] == exp_merch),
        ("merch-close", rc.msg[4] == exp_merch),
    ]
}

pub struct Judge<'a> {
    pub m: &'static Merchant,
    pub a: &'a Agreed,
    pub cid: ChannelId,
    pub template: &'a Trace,
    /// property id used in violation signatures (C01; C18 reuses one plan)
    pub prop: &'static str,
}

/// does (s1,s2) verify on msg under the merchant key, by the reference *and* by the library?
fn sig_verifies(m: &Merchant, sig: &(bls12_381::G1Affine, bls12_381::G1Affine), msg: &[Scalar]) -> Result<bool, String> {
    let r = ps_verify_ref(&m.pk, &sig.0, &sig.1, msg);
    let mut b = sig.0.to_compressed().to_vec();
    b.extend_from_slice(&sig.1.to_compressed());
    let lib = match dec::<Signature>(&b) {
        Ok(s) => {
            let mut arr = [Scalar::zero(); 5];
            arr.copy_from_slice(msg);
            s.verify(m.ccfg.merchant_public_key(), &Message::new(arr))
        }
        Err(_) => false, // sigma1 = identity does not decode; the reference says false as well
    };
    if r != lib {
        return Err(format!("reference ({}) and Signature::verify ({}) disagree — a C07 matter", r, lib));
    }
    Ok(r)
}

impl<'a> Judge<'a> {
    /// Submit a final proof and judge the outcome. Returns (accepted, challenge).
    #[allow(clippy::too_many_arguments)]
    pub fn submit(
        &self,
        c: &mut Ctx,
        rng: &mut (impl RngCore + rand_core::CryptoRng),
        label: &str,
        p: &EstProver,
        rs: &Resp,
        rc: &Resp,
        count_as_attempt: bool,
    ) -> Option<(bool, Scalar)> {
        let bytes = c.ok(p.assemble(self.template, rs, rc))?;
        let out = c.ok(submit_establish(self.m, rng, &self.cid, self.a.cust, self.a.merch, &bytes, &self.a.context))?;
        c.count("hook_records_read", 1);
        if !count_as_attempt {
            return Some((out.accepted.is_some(), out.challenge));
        }
        c.eval();
        // openings known to the forger
        let st_open = pedersen(&p.state.h, &p.state.gs, &p.state.msg, &p.state.bf) == p.state.com;
        let cl_open = pedersen(&p.close.h, &p.close.gs, &p.close.msg, &p.close.bf) == p.close.com;
        let truth = st_open && cl_open && self.a.statement_true(&p.state.msg, &p.close.msg);
        let rel = relation_vector(self.m, self.a, p, rs, rc, &out.challenge);
        let failing: Vec<&str> = rel.iter().filter(|(_, ok)| !ok).map(|(n, _)| *n).collect();
        if failing.len() == 1 {
            c.count(&format!("exactly-one-relation-false[{}]", failing[0]), 1);
        }
        match &out.accepted {
            None => {
                c.count("rejected", 1);
                if truth && failing.is_empty() {
                    // completeness: a true statement with all relations holding was refused
                    c.violation(
                        &format!("C01 true-statement-rejected {}", label),
                        json!({"label": label, "agreed": agreed_json(self.a)}),
                    );
                }
            }
            Some((sig_b, tok_b)) => {
                c.count("accepted", 1);
                if truth {
                    c.count("accepted_true_statements", 1);
                }
                let csig = c.ok(unblind_bytes(sig_b, &p.close.bf))?;
                let tok = c.ok(unblind_bytes(tok_b, &p.state.bf))?;
                let agreed_close = self.a.close(p.state.msg[2]);
                let on_hidden_close = if cl_open { c.ok(sig_verifies(self.m, &csig, &p.close.msg))? } else { false };
                let on_hidden_state = if st_open { c.ok(sig_verifies(self.m, &tok, &p.state.msg))? } else { false };
                if truth {
                    // the signatures must verify on the agreed messages ONLY: not on a message in which two
                    // slots are moved in opposite directions (a signature that binds only the sum of its
                    // slots would), nor on one with a single slot changed
                    for i in 0..5 {
                        for jx in i..5 {
                            for (which, sig, base) in [("closing-signature", &csig, &p.close.msg), ("pay-token", &tok, &p.state.msg)] {
                                let mut m2 = base.clone();
                                m2[i] += Scalar::one();
                                if jx != i {
                                    m2[jx] -= Scalar::one();
                                }
                                c.eval();
                                if ps_verify_ref(&self.m.pk, &sig.0, &sig.1, &m2) {
                                    c.violation(
                                        &format!("C01 signature-verifies-on-other-message what={} slots={}{}", which, i, if jx != i { format!("+{}", jx) } else { String::new() }),
                                        json!({"label": label, "agreed": agreed_json(self.a), "slot_plus_one": i, "slot_minus_one": if jx != i { Some(jx) } else { None }}),
                                    );
                                }
                            }
                        }
                    }
                    c.count("issued_signatures_checked_against_neighbouring_messages", 1);
                    // positive control: both signatures must verify on the agreed messages
                    if !(on_hidden_close && on_hidden_state) {
                        c.violation(
                            &format!("C01 honest-signatures-invalid {}", label),
                            json!({"label": label, "closing_signature_valid": on_hidden_close, "pay_token_valid": on_hidden_state}),
                        );
                    }
                    let _ = agreed_close;
                } else if on_hidden_close || on_hidden_state {
                    c.violation(
                        &format!("{} forgery-accepted {}", self.prop, label),
                        json!({
                            "label": label,
                            "agreed": agreed_json(self.a),
                            "hidden_state": p.state.msg.iter().map(|s| hex(&s.to_bytes())).collect::<Vec<_>>(),
                            "hidden_close_state": p.close.msg.iter().map(|s| hex(&s.to_bytes())).collect::<Vec<_>>(),
                            "closing_signature_verifies_on_hidden_close_state": on_hidden_close,
                            "pay_token_verifies_on_hidden_state": on_hidden_state,
                            "relations_false_by_reference": failing,
                            "proof_hex": hex(&bytes),
                        }),
                    );
                } else {
                    c.inconclusive(&format!(
                        "C01: proof {} accepted for a statement the forger believes false, but no signature on a false message could be exhibited (relations false: {:?})",
                        label, failing
                    ));
                }
            }
        }
        Some((out.accepted.is_some(), out.challenge))
    }

    /// challenge the verifier derives for the first messages of `p` (draft with zero responses)
    pub fn draft_challenge(&self, c: &mut Ctx, rng: &mut (impl RngCore + rand_core::CryptoRng), p: &EstProver) -> Option<Scalar> {
        let z = EstProver::zero_resp();
        self.submit(c, rng, "draft", p, &z, &z, false).map(|x| x.1)
    }
}

fn agreed_json(a: &Agreed) -> serde_json::Value {
    json!({"channel_id": hex(&a.cid_bytes), "customer_balance": a.cust.to_string(), "merchant_balance": a.merch.to_string(), "context": hex(&a.context)})
}

pub fn balance_lattice() -> Vec<u64> {
    let mx = i64::MAX as u64;
    vec![0, 1, 2, 10, 1000, 1 << 31, 1 << 32, 1 << 62, mx - 1, mx]
}

fn run_tuple(c: &mut Ctx, m: &'static Merchant, template: &Trace, label: &str, cust: u64, merch: u64) {
    let mut rng = c.rng(label);
    let cid = crate::session::new_channel_id(m, &mut rng, b"m-acct", b"c-acct");
    let mut context = vec![0u8; 1 + (rng.next_u32() % 40) as usize];
    rng.fill_bytes(&mut context);
    let a = Agreed {
        cid_bytes: cid.to_bytes(),
        cid: raw32_to_scalar(&cid.to_bytes()),
        cust,
        merch,
        context,
    };
    let j = Judge { m, a: &a, cid, template, prop: "C01" };
    // positive control through the same machinery
    {
        let n = Scalar::random(&mut rng);
        let l = Scalar::random(&mut rng);
        let p = EstProver::commit(&mut rng, &m.pk, a.state(n, l), a.close(l));
        let Some(c0) = j.draft_challenge(c, &mut rng, &p) else { return };
        let r = j.submit(c, &mut rng, "control/honest", &p, &p.state.respond(&c0), &p.close.respond(&c0), true);
        match r {
            Some((true, c1)) if c1 == c0 => c.count("positive_controls_accepted", 1),
            Some((true, _)) => return c.inconclusive("C01: challenge changed between draft and final proof with identical first messages"),
            Some((false, _)) => {
                // The shadow prover proves the agreed message as this harness reads it. If the library's own
                // customer is accepted for the same tuple, look at what got signed: a closing signature that
                // the customer accepts but that is not on the agreed message (by the reference) means the two
                // sides established something else than what was agreed.
                if let Ok((mut s, proof)) = crate::session::Sess::request(m, &mut rng, cid, cust, merch, &a.context) {
                    if let Ok(Some(sig)) = s.m_initialize(&mut rng, cust, merch, &proof, &a.context) {
                        if s.c_complete(&sig) == Ok(true) {
                            if let crate::session::Stage::Inactive(i) = &s.stage {
                                if let Ok(t) = trace(i) {
                                    let g = |p: &str| t.fget(p).ok();
                                    let s1 = g("close_state_signature/sigma1").and_then(|b| crate::refs::g1(&b));
                                    let s2 = g("close_state_signature/sigma2").and_then(|b| crate::refs::g1(&b));
                                    let lock = g("state/revocation_pair/lock").and_then(|b| crate::refs::sc(&b));
                                    if let (Some(s1), Some(s2), Some(lock)) = (s1, s2, lock) {
                                        c.eval();
                                        if !ps_verify_ref(&m.pk, &s1, &s2, &a.close(lock)) {
                                            c.violation(
                                                "C01 established-signature-is-not-on-the-agreed-message route=library-customer",
                                                json!({"agreed": agreed_json(&a), "note": "the shadow prover's proof of the agreed message was refused, the library's customer was accepted, and its closing signature does not verify on (channel id, close tag, lock, balances) as agreed"}),
                                            );
                                            return;
                                        }
                                    }
                                }
                            }
                        }
                    }
                }
                return c.inconclusive("C01: positive control (shadow prover, true statement) was rejected — cannot observe");
            }
            None => return,
        }
    }
    // a real customer's proof for channel id A presented to the merchant under an id B that differs from
    // A in one bit (every byte position over the tuples of a run): must not establish channel B
    {
        let ctxb = a.context.clone();
        if let Ok((_s, proof)) = crate::session::Sess::request(m, &mut rng, cid, cust, merch, &ctxb) {
            let bit = (rng.next_u32() as usize) % 256;
            let mut idb = cid.to_bytes();
            idb[bit / 8] ^= 1 << (bit % 8);
            if let Ok(cid_b) = dec::<ChannelId>(&idb) {
                c.eval();
                c.distinct(&format!("other-channel-id-bit/{}", bit));
                match (submit_establish(m, &mut rng, &cid, cust, merch, &proof, &ctxb), submit_establish(m, &mut rng, &cid_b, cust, merch, &proof, &ctxb)) {
                    (Ok(own), Ok(other)) => {
                        if own.accepted.is_none() {
                            c.inconclusive("C01: a real customer's establish proof was rejected under its own tuple");
                        } else if other.accepted.is_some() {
                            c.violation(
                                "C01 proof-for-one-channel-id-accepted-for-another differing-in=one-bit",
                                json!({"bit": bit, "agreed": agreed_json(&a)}),
                            );
                        } else {
                            c.count("real_proofs_rejected_under_other_channel_id", 1);
                        }
                    }
                    (Err(e), _) | (_, Err(e)) => c.inconclusive(&e),
                }
            }
        }
    }
    let ws = false_witnesses(&a, &mut rng);
    c.sample(json!({"agreed": agreed_json(&a), "merchant": m.label, "false_witnesses": ws.iter().map(|w| w.name.clone()).collect::<Vec<_>>()}));
    for w in &ws {
        let cls = format!("{}/{}", class_pair(cust, merch), w.name);
        // strategy 1: honest-but-lying
        {
            let p = EstProver::commit(&mut rng, &m.pk, w.state, w.close);
            let Some(c0) = j.draft_challenge(c, &mut rng, &p) else { continue };
            c.distinct(&format!("S1/{}", cls));
            let _ = j.submit(c, &mut rng, &format!("strategy=honest-but-lying witness={}", w.name), &p, &p.state.respond(&c0), &p.close.respond(&c0), true);
        }
        // strategy 3: commit to W, answer as if the agreed values (only the Schnorr equations stand in the way)
        let as_if_state = a.state(w.state[1], w.state[2]);
        let as_if_close = a.close(w.state[2]);
        {
            let p = EstProver::commit(&mut rng, &m.pk, w.state, w.close);
            let Some(c0) = j.draft_challenge(c, &mut rng, &p) else { continue };
            c.distinct(&format!("S3/{}", cls));
            let rs = p.state.respond_as(&c0, &as_if_state);
            let rc = p.close.respond_as(&c0, &as_if_close);
            let _ = j.submit(c, &mut rng, &format!("strategy=answer-as-if-agreed witness={}", w.name), &p, &rs, &rc, true);
        }
        // strategy 4a: post-challenge choice of the scalar commitments T (up to 3 rounds)
        for which in ["T-state", "T-close", "T-both"] {
            let mut p = EstProver::commit(&mut rng, &m.pk, w.state, w.close);
            let Some(mut ch) = j.draft_challenge(c, &mut rng, &p) else { continue };
            c.distinct(&format!("S4/{}/{}", which, cls));
            for round in 0..3 {
                let rs = p.state.respond_as(&ch, &as_if_state);
                let rc = p.close.respond_as(&ch, &as_if_close);
                if which != "T-close" {
                    p.state.t = p.state.t_for(&ch, &rs);
                }
                if which != "T-state" {
                    p.close.t = p.close.t_for(&ch, &rc);
                }
                let r = j.submit(c, &mut rng, &format!("strategy=post-challenge field={} witness={}", which, w.name), &p, &rs, &rc, true);
                match r {
                    Some((false, c1)) if c1 != ch => {
                        c.count("field_bound_challenge_moved", 1);
                        ch = c1;
                        let _ = round;
                    }
                    _ => break,
                }
            }
        }
        // strategy 4b: post-challenge choice of the revealed commitment scalars
        // (needs the deviation to be identical in state and close state, or to sit in the tag slot)
        let mut fields: Vec<(usize, usize)> = vec![]; // (revealed index, message slot)
        for &slot in &w.both_slots {
            fields.push((match slot { 0 => 0, 3 => 2, 4 => 3, _ => continue }, slot));
        }
        if w.state == as_if_state && w.close[1] != close_tag_ref() && w.close[0] == a.cid && w.close[2] == w.state[2] && w.close[3] == w.state[3] && w.close[4] == w.state[4] {
            fields.push((1, 1));
        }
        if !fields.is_empty() {
            let mut p = EstProver::commit(&mut rng, &m.pk, w.state, w.close);
            let Some(mut ch) = j.draft_challenge(c, &mut rng, &p) else { continue };
            let fname = fields.iter().map(|(r, _)| EST_REVEALED[*r]).collect::<Vec<_>>().join("+");
            c.distinct(&format!("S4/{}/{}", fname, cls));
            for _round in 0..3 {
                let rs = p.state.respond(&ch);
                let rc = p.close.respond(&ch);
                let agreed_vals = [a.cid, close_tag_ref(), Scalar::from(a.cust), Scalar::from(a.merch)];
                for (ri, slot) in &fields {
                    // revealed := response - c * agreed value
                    p.revealed[*ri] = rc.msg[*slot] - ch * agreed_vals[*ri];
                }
                let r = j.submit(c, &mut rng, &format!("strategy=post-challenge field={} witness={}", fname, w.name), &p, &rs, &rc, true);
                match r {
                    Some((false, c1)) if c1 != ch => {
                        c.count("field_bound_challenge_moved", 1);
                        ch = c1;
                    }
                    _ => break,
                }
            }
        }
        // strategy 4c: post-challenge choice of the commitments C themselves: C' opens to the agreed
        // values, so acceptance would be a *true* statement; recorded as a control, never an alarm.
        {
            let mut p = EstProver::commit(&mut rng, &m.pk, w.state, w.close);
            let Some(ch) = j.draft_challenge(c, &mut rng, &p) else { continue };
            c.distinct(&format!("S4/C/{}", cls));
            let rs = p.state.respond_as(&ch, &as_if_state);
            let rc = p.close.respond_as(&ch, &as_if_close);
            let inv = ch.invert();
            if bool::from(inv.is_some()) {
                let inv = inv.unwrap();
                // C' = (Com(resp) - T) / c ; it opens to ((resp - cs)/c, (resp_bf - bf_cs)/c)
                let cs_state: G1Projective = (pedersen(&p.state.h, &p.state.gs, &rs.msg, &rs.bf) - p.state.t) * inv;
                let cs_close: G1Projective = (pedersen(&p.close.h, &p.close.gs, &rc.msg, &rc.bf) - p.close.t) * inv;
                p.state.com = cs_state;
                p.close.com = cs_close;
                p.state.msg = as_if_state.to_vec();
                p.close.msg = as_if_close.to_vec();
                // blinding factors of the new openings are unchanged: (c*bf + bf_cs - bf_cs)/c = bf
                let _ = j.submit(c, &mut rng, &format!("strategy=post-challenge field=C witness={}", w.name), &p, &rs, &rc, true);
            }
        }
    }
}

fn class_pair(cust: u64, merch: u64) -> String {
    format!("{}-{}", crate::props::util::class_u64(cust), crate::props::util::class_u64(merch))
}

pub fn honest_template(m: &'static Merchant, seed: u64) -> Result<Trace, String> {
    let mut rng = Ctx::fixture_rng(seed, "c01/template");
    let cid = crate::session::new_channel_id(m, &mut rng, b"m", b"c");
    let (_s, proof) = crate::session::Sess::request(m, &mut rng, cid, 3, 4, b"t")?;
    let p: zkabacus_crypto::EstablishProof = dec(&proof)?;
    let t = trace(&p)?;
    let _ = enc(&p);
    let _ = Context::new(b"");
    Ok(t)
}

pub fn run(c: &mut Ctx) {
    c.note("rule", json!("per merchant configuration and agreed (channel id, balances, context): every false (state, close state) witness of the deviation list x strategies {honest-but-lying, answer-as-if-agreed (per-relation), post-challenge choice of T-state / T-close / both / each revealed commitment scalar / C}; each attempt is submitted to the real initialize and the verifier's challenge is read through the hook. Distinct = distinct (strategy, field, balance class, witness name) whose hidden statement is false and that reached the verifier. Added later: neighbouring-message checks on every issued signature, opposite-sign witnesses, the honest proof under a channel id differing in one bit. When the shadow control is refused but the library customer is accepted, the customer's closing signature is checked against the agreed message by the reference."));
    let nm = c.tier.pick(2usize, 12);
    let lat = balance_lattice();
    for mi in 0..nm {
        let m = match fixtures::merchant(c.seed, &format!("m{}", mi)) {
            Ok(m) => m,
            Err(e) => return c.inconclusive(&e),
        };
        let template = match honest_template(m, c.seed) {
            Ok(t) => t,
            Err(e) => return c.inconclusive(&e),
        };
        // balance tuples: the headline tuple, lattice pairs (sum within range), random
        let mut tuples: Vec<(u64, u64)> = vec![(10, 1000), (0, 0), (0, 5), (5, 0), (i64::MAX as u64, 0), (0, i64::MAX as u64)];
        let mut rng = c.rng(&format!("tuples/{}", mi));
        let extra = c.tier.pick(6usize, 40);
        for _ in 0..extra {
            let a = lat[(rng.next_u32() as usize) % lat.len()];
            let b = lat[(rng.next_u32() as usize) % lat.len()];
            tuples.push((a, b));
            tuples.push((rng.next_u64() >> 1, rng.next_u64() >> 1));
        }
        for (ti, (cust, merch)) in tuples.into_iter().enumerate() {
            let name = format!("m{}/tuple{}/{}-{}", mi, ti, cust, merch);
            c.case(&name, |c| run_tuple(c, m, &template, &name, cust, merch));
        }
    }
}
