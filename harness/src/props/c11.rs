//! C11 — proof verifiers accept exactly the Schnorr and pairing relations.
//!
//! Oracle: the relations recomputed by the reference evaluators from the proof's *wire* atoms, the
//! parameter atoms and `Challenge::to_scalar()`. Refuting event: the verifier's result differs
//! from the oracle (both directions of the "iff" have their own signature and counters), or a
//! single-field change to an accepted proof / a changed challenge is accepted.

use crate::ctx::{hex, Ctx};
use crate::refs::*;
use crate::shadow::{Resp, Schnorr};
use crate::srng::ScriptRng;
use crate::tracer::{trace, Atom, Kind, Trace};
use crate::wire::{alt_valid, dec, g1_identity_bytes, g2_identity_bytes};
use bls12_381::{G1Affine, G1Projective, G2Affine, G2Projective, Scalar};
use ff::Field;
use group::{Curve, Group, GroupEncoding};
use rand_chacha::ChaCha20Rng;
use rand_core::RngCore;
use serde_json::{json, Value};
use zkchannels_crypto::{
    pedersen::PedersenParameters,
    pointcheval_sanders::{KeyPair, PublicKey},
    proofs::{
        verif_hooks, Challenge, ChallengeBuilder, CommitmentProof, CommitmentProofBuilder, SignatureProof, SignatureProofBuilder,
        SignatureRequestProof, SignatureRequestProofBuilder,
    },
    Message,
};

type R = ChaCha20Rng;

#[derive(Debug, Clone, Copy, PartialEq, Eq)]
enum Ty {
    ComG1,
    ComG2,
    Sig,
    Req,
}

impl Ty {
    const ALL: [Ty; 4] = [Ty::ComG1, Ty::ComG2, Ty::Sig, Ty::Req];
    fn name(self) -> &'static str {
        match self {
            Ty::ComG1 => "CommitmentProof<G1>",
            Ty::ComG2 => "CommitmentProof<G2>",
            Ty::Sig => "SignatureProof",
            Ty::Req => "SignatureRequestProof",
        }
    }
    fn short(self) -> &'static str {
        match self {
            Ty::ComG1 => "ComG1",
            Ty::ComG2 => "ComG2",
            Ty::Sig => "Sig",
            Ty::Req => "Req",
        }
    }
    /// field-path prefix of the commitment proof inside the proof
    fn prefix(self) -> &'static str {
        match self {
            Ty::ComG1 | Ty::ComG2 => "",
            Ty::Sig | Ty::Req => "commitment_proof",
        }
    }
}

fn pfx(p: &str, name: &str) -> String {
    if p.is_empty() {
        name.to_string()
    } else {
        format!("{}/{}", p, name)
    }
}

// ------------------------------------------------------------------------------------------
// library side

struct Setup<const N: usize> {
    kp: KeyPair<N>,
    p1: PedersenParameters<G1Projective, N>,
    p2: PedersenParameters<G2Projective, N>,
}

enum Params<const N: usize> {
    P1(PedersenParameters<G1Projective, N>),
    P2(PedersenParameters<G2Projective, N>),
    Pk(PublicKey<N>),
}

impl<const N: usize> Setup<N> {
    fn new(rng: &mut R) -> Self {
        Setup {
            kp: KeyPair::new(rng),
            p1: PedersenParameters::new(rng),
            p2: PedersenParameters::new(rng),
        }
    }
    fn params(&self, ty: Ty) -> Params<N> {
        match ty {
            Ty::ComG1 => Params::P1(self.p1.clone()),
            Ty::ComG2 => Params::P2(self.p2.clone()),
            Ty::Sig | Ty::Req => Params::Pk(self.kp.public_key().clone()),
        }
    }
    fn ptrace(&self, ty: Ty) -> Result<Trace, String> {
        match ty {
            Ty::ComG1 => trace(&self.p1),
            Ty::ComG2 => trace(&self.p2),
            Ty::Sig | Ty::Req => trace(self.kp.public_key()),
        }
    }
}

fn dec_params<const N: usize>(ty: Ty, b: &[u8]) -> Result<Params<N>, String> {
    Ok(match ty {
        Ty::ComG1 => Params::P1(dec(b)?),
        Ty::ComG2 => Params::P2(dec(b)?),
        Ty::Sig | Ty::Req => Params::Pk(dec(b)?),
    })
}

/// decode the proof bytes and run the library's verifier; Err = the bytes do not decode
fn lib_verify<const N: usize>(ty: Ty, bytes: &[u8], p: &Params<N>, ch: Challenge) -> Result<bool, String> {
    match (ty, p) {
        (Ty::ComG1, Params::P1(pp)) => Ok(dec::<CommitmentProof<G1Projective, N>>(bytes)?.verify_knowledge_of_opening(pp, ch)),
        (Ty::ComG2, Params::P2(pp)) => Ok(dec::<CommitmentProof<G2Projective, N>>(bytes)?.verify_knowledge_of_opening(pp, ch)),
        (Ty::Sig, Params::Pk(pk)) => Ok(dec::<SignatureProof<N>>(bytes)?.verify_knowledge_of_signature(pk, ch)),
        (Ty::Req, Params::Pk(pk)) => Ok(dec::<SignatureRequestProof<N>>(bytes)?.verify_knowledge_of_opening(pk, ch).is_some()),
        _ => Err("harness: parameter kind does not match proof type".into()),
    }
}

/// one decoded proof object verified several times in a row (right challenge first, then others): the
/// verdict is a function of the arguments of each call, not of what the object was asked before
fn lib_verify_seq<const N: usize>(ty: Ty, bytes: &[u8], p: &Params<N>, chs: &[Challenge]) -> Result<Vec<bool>, String> {
    Ok(match (ty, p) {
        (Ty::ComG1, Params::P1(pp)) => {
            let o = dec::<CommitmentProof<G1Projective, N>>(bytes)?;
            chs.iter().map(|ch| o.verify_knowledge_of_opening(pp, *ch)).collect()
        }
        (Ty::ComG2, Params::P2(pp)) => {
            let o = dec::<CommitmentProof<G2Projective, N>>(bytes)?;
            chs.iter().map(|ch| o.verify_knowledge_of_opening(pp, *ch)).collect()
        }
        (Ty::Sig, Params::Pk(pk)) => {
            let o = dec::<SignatureProof<N>>(bytes)?;
            chs.iter().map(|ch| o.verify_knowledge_of_signature(pk, *ch)).collect()
        }
        (Ty::Req, Params::Pk(pk)) => {
            let o = dec::<SignatureRequestProof<N>>(bytes)?;
            chs.iter().map(|ch| o.verify_knowledge_of_opening(pk, *ch).is_some()).collect()
        }
        _ => return Err("harness: parameter kind does not match proof type".into()),
    })
}

/// the Fiat-Shamir challenge the library derives from the (decoded) proof
fn fs_challenge<const N: usize>(ty: Ty, bytes: &[u8], salt: &[u8]) -> Result<Challenge, String> {
    let cb = ChallengeBuilder::new();
    let cb = match ty {
        Ty::ComG1 => cb.with(&dec::<CommitmentProof<G1Projective, N>>(bytes)?),
        Ty::ComG2 => cb.with(&dec::<CommitmentProof<G2Projective, N>>(bytes)?),
        Ty::Sig => cb.with(&dec::<SignatureProof<N>>(bytes)?),
        Ty::Req => cb.with(&dec::<SignatureRequestProof<N>>(bytes)?),
    };
    Ok(cb.with_bytes(salt).finish())
}

fn build_honest<const N: usize>(ty: Ty, rng: &mut R, st: &Setup<N>, msg: [Scalar; N], cs: &[Option<Scalar>; N], salt: &[u8]) -> Result<(Trace, Challenge), String> {
    let m = Message::new(msg);
    match ty {
        Ty::ComG1 => {
            let b = CommitmentProofBuilder::generate_proof_commitments(rng, m, cs, &st.p1);
            let ch = ChallengeBuilder::new().with(&b).with_bytes(salt).finish();
            Ok((trace(&b.generate_proof_response(ch))?, ch))
        }
        Ty::ComG2 => {
            let b = CommitmentProofBuilder::generate_proof_commitments(rng, m, cs, &st.p2);
            let ch = ChallengeBuilder::new().with(&b).with_bytes(salt).finish();
            Ok((trace(&b.generate_proof_response(ch))?, ch))
        }
        Ty::Sig => {
            let sig = m.sign(rng, &st.kp);
            let b = SignatureProofBuilder::generate_proof_commitments(rng, m, sig, cs, st.kp.public_key());
            let ch = ChallengeBuilder::new().with(&b).with_bytes(salt).finish();
            Ok((trace(&b.generate_proof_response(ch))?, ch))
        }
        Ty::Req => {
            let b = SignatureRequestProofBuilder::generate_proof_commitments(rng, m, cs, st.kp.public_key());
            let ch = ChallengeBuilder::new().with(&b).with_bytes(salt).finish();
            Ok((trace(&b.generate_proof_response(ch))?, ch))
        }
    }
}

// ------------------------------------------------------------------------------------------
// oracle side: everything from wire atoms

enum PA {
    G1(G1Affine, Vec<G1Affine>),
    G2(G2Affine, Vec<G2Affine>),
    Pk(PkAtoms),
}

fn param_atoms(ty: Ty, t: &Trace) -> Result<PA, String> {
    match ty {
        Ty::ComG1 => {
            let h = g1(&t.fget("h")?).ok_or("parameter atom h does not decode")?;
            let mut gs = vec![];
            while !t.by_fpath(&format!("gs/[{}]", gs.len())).is_empty() {
                gs.push(g1(&t.fget(&format!("gs/[{}]", gs.len()))?).ok_or("parameter atom gs does not decode")?);
            }
            Ok(PA::G1(h, gs))
        }
        Ty::ComG2 => {
            let h = g2(&t.fget("h")?).ok_or("parameter atom h does not decode")?;
            let mut gs = vec![];
            while !t.by_fpath(&format!("gs/[{}]", gs.len())).is_empty() {
                gs.push(g2(&t.fget(&format!("gs/[{}]", gs.len()))?).ok_or("parameter atom gs does not decode")?);
            }
            Ok(PA::G2(h, gs))
        }
        Ty::Sig | Ty::Req => Ok(PA::Pk(PkAtoms::from_trace(t, "")?)),
    }
}

#[derive(Debug, Clone, Copy, PartialEq, Eq)]
struct Verdict {
    wf: bool,
    sch: bool,
    link: bool,
}

impl Verdict {
    fn all(self) -> bool {
        self.wf && self.sch && self.link
    }
    fn which_false(self) -> String {
        let mut v = vec![];
        if !self.wf {
            v.push("well-formed");
        }
        if !self.sch {
            v.push("schnorr");
        }
        if !self.link {
            v.push("pairing-link");
        }
        if v.is_empty() {
            "none".into()
        } else {
            v.join("+")
        }
    }
}

fn responses(t: &Trace, p: &str) -> Result<(Scalar, Vec<Scalar>), String> {
    let bf = sc(&t.fget(&pfx(p, "blinding_factor_response_scalar"))?).ok_or("blinding-factor response is not canonical")?;
    let mut rs = vec![];
    loop {
        let path = pfx(p, &format!("message_response_scalars/[{}]", rs.len()));
        if t.by_fpath(&path).is_empty() {
            break;
        }
        rs.push(sc(&t.fget(&path)?).ok_or("response scalar is not canonical")?);
    }
    Ok((bf, rs))
}

/// the relation of the property, from the atoms of `t` (layout of an honest proof, possibly
/// substituted bytes), the parameter atoms and the challenge scalar
fn oracle(ty: Ty, t: &Trace, pa: &PA, c: &Scalar) -> Result<Verdict, String> {
    let p = ty.prefix();
    let (bf, rs) = responses(t, p)?;
    let com = t.fget(&pfx(p, "commitment"))?;
    let tt = t.fget(&pfx(p, "scalar_commitment"))?;
    match (ty, pa) {
        (Ty::ComG1, PA::G1(h, gs)) => {
            let com = g1(&com).ok_or("commitment does not decode")?;
            let tt = g1(&tt).ok_or("scalar commitment does not decode")?;
            Ok(Verdict { wf: true, sch: schnorr_ref_g1(h, gs, &com, &tt, c, &bf, &rs), link: true })
        }
        (Ty::ComG2, PA::G2(h, gs)) => {
            let com = g2(&com).ok_or("commitment does not decode")?;
            let tt = g2(&tt).ok_or("scalar commitment does not decode")?;
            Ok(Verdict { wf: true, sch: schnorr_ref_g2(h, gs, &com, &tt, c, &bf, &rs), link: true })
        }
        (Ty::Req, PA::Pk(pk)) => {
            let com = g1(&com).ok_or("commitment does not decode")?;
            let tt = g1(&tt).ok_or("scalar commitment does not decode")?;
            Ok(Verdict { wf: true, sch: schnorr_ref_g1(&pk.g1, &pk.y1s, &com, &tt, c, &bf, &rs), link: true })
        }
        (Ty::Sig, PA::Pk(pk)) => {
            let com = g2(&com).ok_or("commitment does not decode")?;
            let tt = g2(&tt).ok_or("scalar commitment does not decode")?;
            let s1 = g1(&t.fget("blinded_signature/sigma1")?).ok_or("sigma1 does not decode")?;
            let s2 = g1(&t.fget("blinded_signature/sigma2")?).ok_or("sigma2 does not decode")?;
            let (wf, sch, link) = sigproof_ref(pk, &s1, &s2, &com, &tt, c, &bf, &rs);
            Ok(Verdict { wf, sch, link })
        }
        _ => Err("harness: parameter atoms do not match proof type".into()),
    }
}

// ------------------------------------------------------------------------------------------
// comparison and bookkeeping

struct Obs<'a> {
    ty: Ty,
    n: usize,
    /// counter class (no indices)
    class: &'a str,
    /// label in violation signatures (with the atom's field path)
    label: &'a str,
    /// the property says this object must be rejected whatever the oracle says
    must_reject: bool,
}

fn compare(c: &mut Ctx, o: &Obs, lib: bool, v: Verdict, detail: impl FnOnce() -> Value) {
    c.eval();
    let rel = v.all();
    c.count(if lib { "verifier_accepted" } else { "verifier_rejected" }, 1);
    c.count(if rel { "relation_true" } else { "relation_false" }, 1);
    if o.ty == Ty::Sig && !rel {
        c.count(&format!("signature_proof_conjuncts_false[{}]", v.which_false()), 1);
    }
    match (lib, rel) {
        (true, true) => {
            c.count(&format!("accepted&relation-true[{}]", o.class), 1);
            if o.must_reject {
                c.violation(
                    &format!("C11 changed-object-accepted type={} N={} perturbation={}", o.ty.name(), o.n, o.label),
                    detail(),
                );
            }
        }
        (false, false) => c.count(&format!("rejected&relation-false[{}]", o.class), 1),
        (true, false) => {
            c.count("iff_violated(accepted,relation-false)", 1);
            let mut d = detail();
            d["relation_conjuncts_false"] = json!(v.which_false());
            c.violation(
                &format!("C11 verifier-accepts-but-relation-false type={} N={} perturbation={}", o.ty.name(), o.n, o.label),
                d,
            );
        }
        (false, true) => {
            c.count("iff_violated(rejected,relation-true)", 1);
            c.violation(
                &format!("C11 verifier-rejects-but-relation-true type={} N={} perturbation={}", o.ty.name(), o.n, o.label),
                detail(),
            );
        }
    }
}

/// atom class for counters: the field path without indices
fn atom_class(a: &Atom) -> String {
    let mut s = String::new();
    for part in a.fpath.split('/') {
        if part.starts_with('[') {
            continue;
        }
        if !s.is_empty() {
            s.push('/');
        }
        s.push_str(part);
    }
    s
}

fn replacements(c: &Ctx, t: &Trace, a: &Atom, rng: &mut R) -> Vec<(&'static str, Vec<u8>)> {
    let orig = t.atom_bytes(a);
    let mut v: Vec<(&'static str, Vec<u8>)> = vec![];
    match a.kind {
        Kind::G1 | Kind::G2 => {
            if let Some(b) = alt_valid(a.kind, orig, rng) {
                v.push(("other-valid-point", b));
            }
            v.push(("identity", if a.kind == Kind::G1 { g1_identity_bytes().to_vec() } else { g2_identity_bytes().to_vec() }));
            if a.kind == Kind::G1 {
                // the same point shifted by a point of order 3 (outside the prime-order group): the
                // challenge acts on that part only modulo 3
                let mut t3 = [0u8; 48];
                t3[0] = 0x80;
                let t3p: Option<bls12_381::G1Affine> = Option::from(bls12_381::G1Affine::from_compressed_unchecked(&t3));
                let op: Option<bls12_381::G1Affine> = crate::refs::g1(orig);
                if let (Some(t3p), Some(op)) = (t3p, op) {
                    use group::Curve;
                    let shifted = (bls12_381::G1Projective::from(op) + bls12_381::G1Projective::from(t3p)).to_affine();
                    v.push(("+order-3-point(outside the group)", shifted.to_compressed().to_vec()));
                }
            }
            // thorough: the negated point (same x, other sign bit)
            if c.tier.pick(false, true) {
                let mut b = orig.to_vec();
                b[0] ^= 0x20;
                v.push(("negated-point", b));
            }
        }
        Kind::B32 => {
            if let Some(s) = sc(orig) {
                v.push(("+1", (s + Scalar::one()).to_bytes().to_vec()));
                v.push(("-1", (s - Scalar::one()).to_bytes().to_vec()));
                if c.tier.pick(false, true) {
                    v.push(("zero", Scalar::zero().to_bytes().to_vec()));
                    v.push(("negated", (-s).to_bytes().to_vec()));
                }
            }
            if let Some(b) = alt_valid(a.kind, orig, rng) {
                v.push(("random", b));
            }
            // the same residue in a non-canonical encoding: value + q as a 256-bit little-endian integer
            let mut b = orig.to_vec();
            let mut carry = 0u16;
            for i in 0..32 {
                let x = b[i] as u16 + crate::wire::Q_LE[i] as u16 + carry;
                b[i] = x as u8;
                carry = x >> 8;
            }
            if carry == 0 {
                v.push(("+q(non-canonical)", b));
            }
        }
        _ => {}
    }
    v.retain(|(_, b)| b != orig);
    v
}

// ------------------------------------------------------------------------------------------
// simulated and compensated transcripts

trait Grp: Group<Scalar = Scalar> + GroupEncoding {
    fn from_wire(b: &[u8]) -> Option<Self>;
}
impl Grp for G1Projective {
    fn from_wire(b: &[u8]) -> Option<Self> {
        g1(b).map(Into::into)
    }
}
impl Grp for G2Projective {
    fn from_wire(b: &[u8]) -> Option<Self> {
        g2(b).map(Into::into)
    }
}

fn gb<G: Grp>(g: &G) -> Vec<u8> {
    g.to_bytes().as_ref().to_vec()
}

fn fill_cp(tr: &mut Trace, p: &str, com: &[u8], t: &[u8], r: &Resp) -> Result<(), String> {
    tr.fset(&pfx(p, "commitment"), com)?;
    tr.fset(&pfx(p, "scalar_commitment"), t)?;
    tr.fset(&pfx(p, "blinding_factor_response_scalar"), &r.bf.to_bytes())?;
    for (i, s) in r.msg.iter().enumerate() {
        tr.fset(&pfx(p, &format!("message_response_scalars/[{}]", i)), &s.to_bytes())?;
    }
    if !tr.by_fpath(&pfx(p, &format!("message_response_scalars/[{}]", r.msg.len()))).is_empty() {
        return Err("template holds more response scalars than the simulator wrote".into());
    }
    Ok(())
}

struct Variant {
    class: &'static str,
    bytes: Vec<u8>,
    /// the Schnorr conjunct is true by construction under the chosen challenge
    schnorr_true_under_c: bool,
}

/// transcripts assembled without running the prover, for chosen challenge scalar `c`
fn sim_variants<G: Grp>(rng: &mut R, honest: &Trace, p: &str, h: G, gs: &[G], c: &Scalar) -> Result<Vec<Variant>, String> {
    let n = gs.len();
    let com = G::from_wire(&honest.fget(&pfx(p, "commitment"))?).ok_or("honest commitment does not decode")?;
    let t_honest = G::from_wire(&honest.fget(&pfx(p, "scalar_commitment"))?).ok_or("honest scalar commitment does not decode")?;
    let (bf_h, rs_h) = responses(honest, p)?;
    if rs_h.len() != n {
        return Err(format!("proof has {} response scalars, parameters have {} generators", rs_h.len(), n));
    }
    let mut sch = Schnorr {
        h,
        gs: gs.to_vec(),
        msg: vec![Scalar::zero(); n],
        bf: Scalar::zero(),
        cs: vec![Scalar::zero(); n],
        bf_cs: Scalar::zero(),
        com,
        t: G::identity(),
    };
    let mut out = vec![];
    let rand_resp = |rng: &mut R| Resp {
        bf: Scalar::random(&mut *rng),
        msg: (0..n).map(|_| Scalar::random(&mut *rng)).collect(),
    };
    // (a) the honest commitment, random responses, T := Com(resp) - c*C
    {
        let resp = rand_resp(rng);
        let t = sch.t_for(c, &resp);
        let mut tr = honest.clone();
        fill_cp(&mut tr, p, &gb(&com), &gb(&t), &resp)?;
        out.push(Variant { class: "simulated:honest-C", bytes: tr.bytes, schnorr_true_under_c: true });
    }
    // (a') the same with responses of machine-word size and other shaped values (bit 63 set and nothing
    //      above, 2^64-1, 2^32, 2^128, q-small): any value is a legitimate response
    {
        let shaped = |rng: &mut R, k: usize| -> Scalar {
            let lo = rng.next_u64();
            match k % 7 {
                0 => Scalar::from(lo | (1 << 63)),
                1 => Scalar::from(u64::MAX),
                2 => Scalar::from(1u64 << 63),
                3 => Scalar::from(lo >> 32),
                4 => Scalar::from_raw([lo, 1, 0, 0]),
                5 => Scalar::zero() - Scalar::from(lo | (1 << 63)),
                _ => Scalar::from_raw([lo | (1 << 63), 0, lo, 0]),
            }
        };
        for (class, off) in [("simulated:honest-C,64-bit-responses", 0usize), ("simulated:honest-C,shaped-responses", 2)] {
            let resp = Resp {
                bf: shaped(rng, off),
                msg: (0..n).map(|i| if off == 0 { shaped(rng, i % 3) } else { shaped(rng, off + i) }).collect(),
            };
            let t = sch.t_for(c, &resp);
            let mut tr = honest.clone();
            fill_cp(&mut tr, p, &gb(&com), &gb(&t), &resp)?;
            out.push(Variant { class, bytes: tr.bytes, schnorr_true_under_c: true });
        }
    }
    // (a'') the statement about the identity element (the all-zero message under a zero blinding factor):
    //       T := Com(resp)
    {
        sch.com = G::identity();
        let resp = rand_resp(rng);
        let t = sch.t_for(c, &resp);
        let mut tr = honest.clone();
        fill_cp(&mut tr, p, &gb(&sch.com), &gb(&t), &resp)?;
        out.push(Variant { class: "simulated:identity-C", bytes: tr.bytes, schnorr_true_under_c: true });
        sch.com = com;
    }
    // (b) a random commitment (nobody knows an opening), simulated the same way
    {
        sch.com = G::random(&mut *rng);
        let resp = rand_resp(rng);
        let t = sch.t_for(c, &resp);
        let mut tr = honest.clone();
        fill_cp(&mut tr, p, &gb(&sch.com), &gb(&t), &resp)?;
        out.push(Variant { class: "simulated:random-C", bytes: tr.bytes, schnorr_true_under_c: true });
        // zero responses: T = -c*C
        let resp = Resp { bf: Scalar::zero(), msg: vec![Scalar::zero(); n] };
        let t = sch.t_for(c, &resp);
        let mut tr = honest.clone();
        fill_cp(&mut tr, p, &gb(&sch.com), &gb(&t), &resp)?;
        out.push(Variant { class: "simulated:random-C,zero-responses", bytes: tr.bytes, schnorr_true_under_c: true });
    }
    // (c) no opening and no simulation: random C, random T, random responses; random C with the
    //     honest T and responses
    {
        let resp = rand_resp(rng);
        let mut tr = honest.clone();
        fill_cp(&mut tr, p, &gb(&G::random(&mut *rng)), &gb(&G::random(&mut *rng)), &resp)?;
        out.push(Variant { class: "no-opening:all-random", bytes: tr.bytes, schnorr_true_under_c: false });
        let mut tr = honest.clone();
        tr.fset(&pfx(p, "commitment"), &gb(&G::random(&mut *rng)))?;
        out.push(Variant { class: "no-opening:random-C,honest-rest", bytes: tr.bytes, schnorr_true_under_c: false });
    }
    // (d) compensated two-field changes of the honest proof: r_i+1 with T+g_i; bf response + 1 with T+h
    {
        let i = (rng.next_u32() as usize) % n;
        let mut tr = honest.clone();
        tr.fset(&pfx(p, &format!("message_response_scalars/[{}]", i)), &(rs_h[i] + Scalar::one()).to_bytes())?;
        tr.fset(&pfx(p, "scalar_commitment"), &gb(&(t_honest + gs[i])))?;
        out.push(Variant { class: "compensated:response+1,T+g", bytes: tr.bytes, schnorr_true_under_c: true });
        let mut tr = honest.clone();
        tr.fset(&pfx(p, "blinding_factor_response_scalar"), &(bf_h + Scalar::one()).to_bytes())?;
        tr.fset(&pfx(p, "scalar_commitment"), &gb(&(t_honest + h)))?;
        out.push(Variant { class: "compensated:bf-response+1,T+h", bytes: tr.bytes, schnorr_true_under_c: true });
    }
    Ok(out)
}

/// compensated changes of an honest signature proof that keep all three conjuncts true
fn sig_compensated(rng: &mut R, honest: &Trace, pk: &PkAtoms, c: &Scalar) -> Result<Vec<Variant>, String> {
    let s1: G1Projective = g1(&honest.fget("blinded_signature/sigma1")?).ok_or("sigma1")?.into();
    let s2: G1Projective = g1(&honest.fget("blinded_signature/sigma2")?).ok_or("sigma2")?.into();
    let com: G2Projective = g2(&honest.fget("commitment_proof/commitment")?).ok_or("commitment")?.into();
    let (bf_h, _) = responses(honest, "commitment_proof")?;
    let mut out = vec![];
    // re-randomise the blinded signature
    let r = Scalar::random(&mut *rng);
    let mut tr = honest.clone();
    tr.fset("blinded_signature/sigma1", &(s1 * r).to_affine().to_compressed())?;
    tr.fset("blinded_signature/sigma2", &(s2 * r).to_affine().to_compressed())?;
    out.push(Variant { class: "compensated:rerandomised-signature", bytes: tr.bytes, schnorr_true_under_c: true });
    // re-blind: C + d*g~, sigma2 + d*sigma1, bf response + c*d
    let d = Scalar::random(&mut *rng);
    let mut tr = honest.clone();
    tr.fset("commitment_proof/commitment", &(com + G2Projective::from(pk.g2) * d).to_affine().to_compressed())?;
    tr.fset("blinded_signature/sigma2", &(s2 + s1 * d).to_affine().to_compressed())?;
    tr.fset("commitment_proof/blinding_factor_response_scalar", &(bf_h + *c * d).to_bytes())?;
    out.push(Variant { class: "compensated:reblinded", bytes: tr.bytes, schnorr_true_under_c: true });
    // the same re-blinding without moving the signature: only the pairing link becomes false
    let mut tr = honest.clone();
    tr.fset("commitment_proof/commitment", &(com + G2Projective::from(pk.g2) * d).to_affine().to_compressed())?;
    tr.fset("commitment_proof/blinding_factor_response_scalar", &(bf_h + *c * d).to_bytes())?;
    out.push(Variant { class: "reblinded-commitment-only", bytes: tr.bytes, schnorr_true_under_c: true });
    Ok(out)
}

// ------------------------------------------------------------------------------------------
// the case

const CLASSES: [&str; 5] = ["0", "1", "q-1", "small", "random"];

fn val(rng: &mut R, class: usize) -> Scalar {
    match class % 5 {
        0 => Scalar::zero(),
        1 => Scalar::one(),
        2 => q_minus_1(),
        3 => Scalar::from(2 + (rng.next_u32() % 100_000) as u64),
        _ => Scalar::random(&mut *rng),
    }
}

fn message<const N: usize>(rng: &mut R, v: usize) -> ([Scalar; N], String) {
    let mut m = [Scalar::zero(); N];
    let mut names = vec![];
    for i in 0..N {
        let cl = if v < 5 { v } else { (v + i * (1 + v / 5)) % 5 };
        m[i] = val(rng, cl);
        names.push(CLASSES[cl % 5]);
    }
    (m, if v < 5 { format!("all:{}", CLASSES[v]) } else { names.join(",") })
}

fn proof_case<const N: usize>(c: &mut Ctx, ty: Ty, inst: usize) {
    let name = format!("{}/N={}/inst{}", ty.short(), N, inst);
    c.case(&name, |c| {
        let mut rng = c.rng(&name);
        let st = Setup::<N>::new(&mut rng);
        let (msg, mclass) = message::<N>(&mut rng, inst % 12);
        // commitment scalars: random; some instances pin zero (with a zero message entry the
        // response scalar itself is zero)
        let mut cs = [None; N];
        if inst % 3 == 2 {
            for i in 0..N {
                if i % 2 == 0 {
                    cs[i] = Some(Scalar::zero());
                }
            }
        }
        let (honest, ch) = match build_honest(ty, &mut rng, &st, msg, &cs, name.as_bytes()) {
            Ok(x) => x,
            Err(e) => return c.inconclusive(&e),
        };
        let cval = ch.to_scalar();
        let params = st.params(ty);
        let ptrace = match st.ptrace(ty) {
            Ok(t) => t,
            Err(e) => return c.inconclusive(&e),
        };
        let pa = match param_atoms(ty, &ptrace) {
            Ok(p) => p,
            Err(e) => return c.inconclusive(&e),
        };
        let key = |what: &str| format!("{}/N={}/{}/{}", ty.short(), N, mclass, what);
        let base_detail = json!({"type": ty.name(), "N": N, "message_classes": mclass, "challenge": hex(&cval.to_bytes()), "honest_proof": hex(&honest.bytes), "parameters": hex(&ptrace.bytes)});

        // 1. the honest proof: positive control for everything below
        {
            let lib = match lib_verify(ty, &honest.bytes, &params, ch) {
                Ok(b) => b,
                Err(e) => return c.inconclusive(&format!("C11: honest proof does not decode: {}", e)),
            };
            let v = match oracle(ty, &honest, &pa, &cval) {
                Ok(v) => v,
                Err(e) => return c.inconclusive(&format!("C11: oracle cannot read the honest proof: {}", e)),
            };
            c.distinct(&key("honest"));
            compare(c, &Obs { ty, n: N, class: "honest", label: "none(honest)", must_reject: false }, lib, v, || base_detail.clone());
            if !(lib && v.all()) {
                // without an accepted control the negative observations below mean nothing
                if !v.all() {
                    c.inconclusive("C11: the reference evaluator does not accept an honest proof — cannot observe");
                }
                return;
            }
        }

        // 2. every atom of the proof replaced in turn
        for a in &honest.atoms {
            if a.kind == Kind::Len {
                // a response-scalar sequence that announces more elements than the array holds is a changed
                // field of the proof: it must not decode into something the verifier accepts
                let n = u64::from_le_bytes(honest.atom_bytes(a).try_into().unwrap_or([0u8; 8]));
                for (vn, v) in [("n+1", n + 1), ("2n+7", 2 * n + 7), ("2^32", 1u64 << 32), ("2^64-1", u64::MAX)] {
                    let bytes = honest.with_replaced(a, &v.to_le_bytes());
                    c.eval();
                    c.distinct(&key(&format!("{}:length-prefix:{}", a.fpath, vn)));
                    match lib_verify(ty, &bytes, &params, ch) {
                        Err(_) => c.count("length_prefix_not_decodable", 1),
                        Ok(true) => c.violation(
                            &format!("C11 verifier-accepts-changed-field type={} N={} perturbation=proof-atom:length-prefix:{}", ty.name(), N, vn),
                            json!({"atom": a.path, "announced": v.to_string(), "base": base_detail.clone()}),
                        ),
                        Ok(false) => c.count("length_prefix_decoded_but_rejected", 1),
                    }
                }
                continue;
            }
            let acl = atom_class(a);
            for (rname, rbytes) in replacements(c, &honest, a, &mut rng) {
                let class = format!("proof-atom:{}:{}", acl, rname);
                let label = format!("{}:{}", a.fpath, rname);
                let mut tr = honest.clone();
                tr.bytes = honest.with_replaced(a, &rbytes);
                match lib_verify(ty, &tr.bytes, &params, ch) {
                    Err(_) => c.count(&format!("replacement_not_decodable[{}:{}]", acl, rname), 1),
                    Ok(lib) if rname == "+q(non-canonical)" || rname.starts_with("+order-3-point") => {
                        // a changed field of an accepted proof that still decodes: it must at least be rejected
                        c.eval();
                        c.distinct(&key(&label));
                        if lib {
                            c.violation(
                                &format!("C11 verifier-accepts-changed-field type={} N={} perturbation={}", ty.name(), N, class),
                                json!({"atom": a.path, "original": hex(honest.atom_bytes(a)), "replacement": hex(&rbytes), "base": base_detail.clone()}),
                            );
                        } else {
                            c.count("non_canonical_scalar_decoded_but_rejected", 1);
                        }
                    }
                    Ok(lib) => match oracle(ty, &tr, &pa, &cval) {
                        Ok(v) => {
                            c.distinct(&key(&label));
                            compare(c, &Obs { ty, n: N, class: &class, label: &label, must_reject: true }, lib, v, || {
                                let mut d = base_detail.clone();
                                d["atom"] = json!(a.path);
                                d["original"] = json!(hex(honest.atom_bytes(a)));
                                d["replacement"] = json!(hex(&rbytes));
                                d
                            });
                        }
                        Err(e) => c.inconclusive(&format!("C11: oracle cannot read a decodable proof: {}", e)),
                    },
                }
            }
        }

        // 3. wrong challenge
        {
            let others = [
                ("other-seed", ChallengeBuilder::new().with_bytes(name.as_bytes()).with_bytes(b"/other").finish()),
                ("same-proof-other-context", fs_challenge::<N>(ty, &honest.bytes, b"another context").unwrap_or(ch)),
                ("empty-transcript", ChallengeBuilder::new().finish()),
            ];
            for (what, ch2) in others {
                if ch2.to_scalar() == cval {
                    c.inconclusive("C11: could not produce a different challenge");
                    continue;
                }
                let lib = lib_verify(ty, &honest.bytes, &params, ch2).unwrap_or(false);
                match oracle(ty, &honest, &pa, &ch2.to_scalar()) {
                    Ok(v) => {
                        let label = format!("challenge:{}", what);
                        c.distinct(&key(&label));
                        compare(c, &Obs { ty, n: N, class: &label, label: &label, must_reject: true }, lib, v, || {
                            let mut d = base_detail.clone();
                            d["wrong_challenge"] = json!(hex(&ch2.to_scalar().to_bytes()));
                            d
                        });
                    }
                    Err(e) => c.inconclusive(&e),
                }
            }
        }

        // 3a. the same object asked repeatedly: right, wrong, right, wrong
        {
            let other = ChallengeBuilder::new().with_bytes(name.as_bytes()).with_bytes(b"/other").finish();
            let seq = [ch, other, ch, other];
            match lib_verify_seq(ty, &honest.bytes, &params, &seq) {
                Ok(rs) => {
                    for (i, (r, chx)) in rs.iter().zip(seq.iter()).enumerate() {
                        if let Ok(v) = oracle(ty, &honest, &pa, &chx.to_scalar()) {
                            let label = format!("same-object-call{}", i);
                            c.distinct(&key(&label));
                            compare(c, &Obs { ty, n: N, class: &label, label: &label, must_reject: i % 2 == 1 }, *r, v, || base_detail.clone());
                        }
                    }
                }
                Err(e) => c.inconclusive(&e),
            }
        }

        // 4. wrong parameters: a fresh set / key, then every parameter atom replaced in turn
        {
            let st2 = Setup::<N>::new(&mut rng);
            match st2.ptrace(ty).and_then(|t| param_atoms(ty, &t).map(|p| (t, p))) {
                Ok((t2, pa2)) => {
                    let lib = lib_verify(ty, &honest.bytes, &st2.params(ty), ch).unwrap_or(false);
                    match oracle(ty, &honest, &pa2, &cval) {
                        Ok(v) => {
                            c.distinct(&key("params:fresh"));
                            compare(c, &Obs { ty, n: N, class: "params:fresh", label: "params:fresh", must_reject: true }, lib, v, || {
                                let mut d = base_detail.clone();
                                d["wrong_parameters"] = json!(hex(&t2.bytes));
                                d
                            });
                        }
                        Err(e) => c.inconclusive(&e),
                    }
                }
                Err(e) => c.inconclusive(&e),
            }
            for a in &ptrace.atoms {
                if a.kind != Kind::G1 && a.kind != Kind::G2 {
                    continue;
                }
                let acl = atom_class(a);
                for (rname, rbytes) in replacements(c, &ptrace, a, &mut rng) {
                    let mut pt = ptrace.clone();
                    pt.bytes = ptrace.with_replaced(a, &rbytes);
                    let p2 = match dec_params::<N>(ty, &pt.bytes) {
                        Ok(p) => p,
                        Err(_) => {
                            c.count(&format!("parameter_replacement_not_decodable[{}:{}]", acl, rname), 1);
                            continue;
                        }
                    };
                    let pa2 = match param_atoms(ty, &pt) {
                        Ok(p) => p,
                        Err(e) => {
                            c.inconclusive(&format!("C11: oracle cannot read decodable parameters: {}", e));
                            continue;
                        }
                    };
                    let lib = lib_verify(ty, &honest.bytes, &p2, ch).unwrap_or(false);
                    match oracle(ty, &honest, &pa2, &cval) {
                        Ok(v) => {
                            let class = format!("param-atom:{}:{}", acl, rname);
                            let label = format!("param:{}:{}", a.fpath, rname);
                            c.distinct(&key(&label));
                            // whether the relation depends on this generator is the oracle's call
                            // (a zero response scalar, or the other group's half of a public key)
                            compare(c, &Obs { ty, n: N, class: &class, label: &label, must_reject: false }, lib, v, || {
                                let mut d = base_detail.clone();
                                d["parameter_atom"] = json!(a.path);
                                d["replacement"] = json!(hex(&rbytes));
                                d
                            });
                        }
                        Err(e) => c.inconclusive(&e),
                    }
                }
            }
        }

        // 5. simulated / compensated transcripts and proofs without an opening, under a chosen
        //    challenge c, another challenge c', and the Fiat-Shamir challenge of the object itself
        {
            let csim = ChallengeBuilder::new().with_bytes(name.as_bytes()).with_bytes(b"/simulation").finish();
            let cprime = ChallengeBuilder::new().with_bytes(name.as_bytes()).with_bytes(b"/simulation-other").finish();
            let cs_val = csim.to_scalar();
            let p = ty.prefix();
            let vars = match &pa {
                PA::G1(h, gs) => sim_variants::<G1Projective>(&mut rng, &honest, p, (*h).into(), &gs.iter().map(|g| (*g).into()).collect::<Vec<_>>(), &cs_val),
                PA::G2(h, gs) => sim_variants::<G2Projective>(&mut rng, &honest, p, (*h).into(), &gs.iter().map(|g| (*g).into()).collect::<Vec<_>>(), &cs_val),
                PA::Pk(pk) if ty == Ty::Req => {
                    sim_variants::<G1Projective>(&mut rng, &honest, p, pk.g1.into(), &pk.y1s.iter().map(|g| (*g).into()).collect::<Vec<_>>(), &cs_val)
                }
                PA::Pk(pk) => sim_variants::<G2Projective>(&mut rng, &honest, p, pk.g2.into(), &pk.y2s.iter().map(|g| (*g).into()).collect::<Vec<_>>(), &cs_val),
            };
            let mut vars = match vars {
                Ok(v) => v,
                Err(e) => return c.inconclusive(&format!("C11: simulator: {}", e)),
            };
            // variants built from the honest responses are true under the honest challenge, not
            // under csim: split by which challenge they were built for
            let mut runs: Vec<(Variant, Challenge)> = vec![];
            for v in vars.drain(..) {
                let for_ch = if v.class.starts_with("compensated") || v.class == "no-opening:random-C,honest-rest" { ch } else { csim };
                runs.push((v, for_ch));
            }
            if let (Ty::Sig, PA::Pk(pk)) = (ty, &pa) {
                match sig_compensated(&mut rng, &honest, pk, &cval) {
                    Ok(vs) => runs.extend(vs.into_iter().map(|v| (v, ch))),
                    Err(e) => c.inconclusive(&format!("C11: simulator: {}", e)),
                }
            }
            for (v, for_ch) in runs {
                let mut tr = honest.clone();
                tr.bytes = v.bytes.clone();
                let fs = fs_challenge::<N>(ty, &tr.bytes, b"");
                let mut chs: Vec<(&str, Challenge)> = vec![("c", for_ch), ("c'", cprime)];
                match fs {
                    Ok(f) => chs.push(("fiat-shamir", f)),
                    Err(_) => {
                        c.count(&format!("assembled_not_decodable[{}]", v.class), 1);
                        continue;
                    }
                }
                for (cname, chx) in chs {
                    let lib = match lib_verify(ty, &tr.bytes, &params, chx) {
                        Ok(b) => b,
                        Err(_) => continue,
                    };
                    let verdict = match oracle(ty, &tr, &pa, &chx.to_scalar()) {
                        Ok(x) => x,
                        Err(e) => {
                            c.inconclusive(&e);
                            continue;
                        }
                    };
                    if cname == "c" && v.schnorr_true_under_c && !verdict.sch {
                        c.inconclusive(&format!("C11: simulator produced a transcript whose Schnorr relation is false by the reference ({})", v.class));
                        continue;
                    }
                    let class = format!("{}@{}", v.class, cname);
                    c.distinct(&key(&class));
                    // the statement about the identity holds under every challenge (c*0 = 0): nothing to refuse there
                    let challenge_free = v.class == "simulated:identity-C";
                    compare(c, &Obs { ty, n: N, class: &class, label: &class, must_reject: cname != "c" && !challenge_free }, lib, verdict, || {
                        let mut d = base_detail.clone();
                        d["assembled_proof"] = json!(hex(&tr.bytes));
                        d["verified_under"] = json!(hex(&chx.to_scalar().to_bytes()));
                        d
                    });
                }
            }
        }

        // 6. signature proofs around signatures made degenerate through chosen randomness
        if ty == Ty::Sig {
            degenerate::<N>(c, &st, &mut rng, msg, &mclass, &pa);
        }
        if inst == 0 {
            c.sample(json!({"type": ty.name(), "N": N, "message_classes": mclass, "proof_atoms": honest.atoms.len(), "parameter_atoms": ptrace.atoms.len(),
                "challenge": hex(&cval.to_bytes())}));
        }
        verif_hooks::clear();
    });
}

/// Zero bytes injected at every 64-byte draw of `SignatureProofBuilder::generate_proof_commitments`
/// (one at a time) and into `Signature::randomize`: the in-memory proof object is verified and the
/// oracle is evaluated on its traced atoms (the all-identity signature does not exist on the wire).
fn degenerate<const N: usize>(c: &mut Ctx, st: &Setup<N>, rng: &mut R, msg: [Scalar; N], mclass: &str, pa: &PA) {
    let pk = st.kp.public_key();
    let sig = Message::new(msg).sign(rng, &st.kp);
    let mut seed = [0u8; 32];
    rng.fill_bytes(&mut seed);
    let mut dry = ScriptRng::new(seed);
    let b0 = SignatureProofBuilder::generate_proof_commitments(&mut dry, Message::new(msg), sig, &[None; N], pk);
    let draws64 = dry.draws_of_len(64);
    if draws64.len() < 3 {
        return c.inconclusive("C11: dry run of the signature-proof prover saw fewer than three 64-byte draws");
    }
    let identity1 = g1_identity_bytes().to_vec();
    let check = |c: &mut Ctx, class: &str, p: &SignatureProof<N>, ch: Challenge, expect_degenerate: Option<bool>| {
        let t = match trace(p) {
            Ok(t) => t,
            Err(e) => return c.inconclusive(&e),
        };
        let is_deg = t.fget("blinded_signature/sigma1").map(|b| b == identity1).unwrap_or(false);
        if let Some(e) = expect_degenerate {
            if e != is_deg {
                return c.inconclusive(&format!("C11: scripted randomness did not have the intended effect ({}: sigma1 identity = {})", class, is_deg));
            }
        }
        let lib = p.verify_knowledge_of_signature(pk, ch);
        let v = match oracle(Ty::Sig, &t, pa, &ch.to_scalar()) {
            Ok(v) => v,
            Err(e) => return c.inconclusive(&e),
        };
        if is_deg {
            c.count("degenerate_signature_proofs_observed", 1);
            match dec::<SignatureProof<N>>(&t.bytes) {
                Ok(_) => c.count("degenerate_proof_decodes_from_wire", 1),
                Err(_) => c.count("degenerate_proof_rejected_at_decode", 1),
            }
        }
        c.distinct(&format!("Sig/N={}/{}/{}", N, mclass, class));
        compare(c, &Obs { ty: Ty::Sig, n: N, class, label: class, must_reject: is_deg }, lib, v, || {
            json!({"type": "SignatureProof", "N": N, "message_classes": mclass, "in_memory_proof": hex(&t.bytes), "challenge": hex(&ch.to_scalar().to_bytes())})
        });
    };
    // positive twin: the dry run itself
    {
        let ch = ChallengeBuilder::new().with(&b0).finish();
        let p = b0.generate_proof_response(ch);
        check(c, "scripted:no-injection", &p, ch, Some(false));
    }
    let last = *draws64.last().unwrap();
    for (k, idx) in draws64.iter().enumerate() {
        let mut s = ScriptRng::new(seed);
        s.inject(*idx, vec![0u8; 64]);
        let b = SignatureProofBuilder::generate_proof_commitments(&mut s, Message::new(msg), sig, &[None; N], pk);
        if s.consumed != 1 || s.misaligned != 0 {
            c.inconclusive("C11: injection was not consumed by the prover");
            continue;
        }
        let ch = ChallengeBuilder::new().with(&b).finish();
        let p = b.generate_proof_response(ch);
        if *idx == last {
            check(c, "degenerate:randomizer=0(all-identity-signature)", &p, ch, Some(true));
        } else {
            let class = match k {
                0 => "scripted:blinding-factor=0".to_string(),
                1 => "scripted:bf-commitment-scalar=0".to_string(),
                _ => "scripted:commitment-scalar=0".to_string(),
            };
            check(c, &class, &p, ch, Some(false));
        }
    }
    // blinding factor related to the key and the message: bf = -(x + sum y_i m_i) makes the blinded
    // sigma2' the identity while sigma1' is not; all three conjuncts hold, so the proof is a valid one
    if let Ok(kt) = trace(&st.kp) {
        let x = kt.fget("sk/x").ok().and_then(|b| sc(&b));
        let mut acc = x;
        for i in 0..N {
            let y = kt.fget(&format!("sk/ys/[{}]", i)).ok().and_then(|b| sc(&b));
            acc = match (acc, y) {
                (Some(a), Some(y)) => Some(a + y * msg[i]),
                _ => None,
            };
        }
        if let Some(sum) = acc {
            let mut pat = (Scalar::zero() - sum).to_bytes().to_vec();
            pat.extend_from_slice(&[0u8; 32]);
            let mut s = ScriptRng::new(seed);
            s.inject(draws64[0], pat);
            let b = SignatureProofBuilder::generate_proof_commitments(&mut s, Message::new(msg), sig, &[None; N], pk);
            if s.consumed == 1 {
                let ch = ChallengeBuilder::new().with(&b).finish();
                let p = b.generate_proof_response(ch);
                let s2_is_identity = trace(&p).ok().and_then(|t| t.fget("blinded_signature/sigma2").ok()).map(|b| b == identity1).unwrap_or(false);
                c.count(if s2_is_identity { "signature_proofs_with_identity_sigma2" } else { "related_blinding_factor_not_effective" }, 1);
                check(c, "scripted:blinding-factor=-(x+sum y_i m_i)", &p, ch, Some(false));
            }
        }
    }
    // Signature::randomize with randomizer 0, then an ordinary proof around the result
    {
        let mut s = ScriptRng::new(seed);
        s.inject(0, vec![0u8; 64]);
        let mut sg = sig;
        sg.randomize(&mut s);
        if s.consumed != 1 {
            return c.inconclusive("C11: injection was not consumed by Signature::randomize");
        }
        let b = SignatureProofBuilder::generate_proof_commitments(rng, Message::new(msg), sg, &[None; N], pk);
        let ch = ChallengeBuilder::new().with(&b).finish();
        let p = b.generate_proof_response(ch);
        check(c, "degenerate:Signature::randomize(0)", &p, ch, Some(true));
    }
}

fn type_cases<const N: usize>(c: &mut Ctx) {
    let insts = c.tier.pick(6usize, 60);
    for ty in Ty::ALL {
        for inst in 0..insts {
            proof_case::<N>(c, ty, inst);
        }
    }
}

pub fn run(c: &mut Ctx) {
    c.note(
        "rule",
        json!("per (proof type in {CommitmentProof<G1>, CommitmentProof<G2>, SignatureProof, SignatureRequestProof}, N in {1,2,3,5,8,13}, instance = message variant over {0,1,q-1,small,random} and pinned-zero commitment scalars): the honest proof (control), every wire atom of the proof replaced in turn (other valid point, identity, scalar +1/-1/random) and re-decoded, three wrong challenges, a fresh parameter set / key and every parameter atom replaced, simulated transcripts (honest C / random C / zero responses; T = Com(resp) - c*C) and compensated multi-field changes each verified under c, under c' and under the Fiat-Shamir challenge of the assembled proof, objects without an opening, and signature proofs built with zero bytes injected at every 64-byte draw of the prover (the randomizer draw gives the all-identity signature, verified in memory). Each observation compares the library verifier with the reference relation on the wire atoms. Distinct = distinct (type, N, message classes, perturbed atom path or transcript class, replacement kind / challenge). Added later: non-canonical (+q) scalars, length prefixes, order-3 shifts, simulated transcripts with machine-word-sized responses and about the identity statement. One decoded object verified under alternating challenges; blinding factor related to key and message."),
    );
    verif_hooks::clear();
    type_cases::<1>(c);
    type_cases::<2>(c);
    type_cases::<3>(c);
    type_cases::<5>(c);
    type_cases::<8>(c);
    type_cases::<13>(c);
}
