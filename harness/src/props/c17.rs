//! C17 — balance and amount arithmetic is total, exact and range-preserving.
//!
//! Oracle: i128 arithmetic (`ledger_apply`). The worker is built with overflow checks and debug
//! assertions on, so a wrap shows up as a panic, which `guard` turns into an observation.

use crate::ctx::{guard, Ctx};
use crate::fixtures;
use crate::props::util::*;
use crate::refs::ledger_apply;
use crate::session::{amount, Sess, Stage};
use crate::tracer::trace;
use crate::wire::{dec, enc};
use rand_core::RngCore;
use serde_json::json;
use zkabacus_crypto::{
    customer::Ready, Context, CustomerBalance, Error, MerchantBalance, Nonce, PayProof, PaymentAmount,
};

const MAXB: u64 = i64::MAX as u64;

pub fn lattice_u64() -> Vec<u64> {
    vec![
        0,
        1,
        2,
        1 << 31,
        1 << 32,
        1 << 62,
        MAXB - 1,
        MAXB,
        1 << 63,
        (1 << 63) + 1,
        u64::MAX,
    ]
}

pub fn lattice_i64() -> Vec<i64> {
    let mut v = vec![];
    for x in lattice_u64() {
        if x <= MAXB {
            v.push(x as i64);
            v.push(-(x as i64));
        }
    }
    v.push(i64::MIN);
    v.push(i64::MIN + 1);
    v.sort();
    v.dedup();
    v
}

fn err_name(e: &Error) -> String {
    match e {
        Error::AmountTooLarge(v) => format!("AmountTooLarge({})", v),
        Error::InsufficientFunds => "InsufficientFunds".into(),
    }
}

pub fn check_constructors(c: &mut Ctx, v: u64) {
    c.eval();
    c.distinct(&format!("ctor/{}", v));
    if v == 0 {
        // the named zero constructors
        let (cz, mz, az) = (CustomerBalance::zero(), MerchantBalance::zero(), PaymentAmount::zero());
        if cz.into_inner() != 0 || mz.into_inner() != 0 || az.to_i64() != 0 || !cz.is_zero() || !mz.is_zero() {
            c.violation("C17 wrong-result api=zero() class=0", json!({"customer": cz.into_inner().to_string(), "merchant": mz.into_inner().to_string(), "amount": az.to_i64().to_string()}));
        }
        if CustomerBalance::try_new(0).map(|b| enc(&b) != enc(&cz)).unwrap_or(true) {
            c.violation("C17 wrong-result api=zero()-vs-try_new(0) class=0", json!({}));
        }
    }
    let expect_ok = v <= MAXB;
    // balances
    match guard(|| (CustomerBalance::try_new(v), MerchantBalance::try_new(v))) {
        Err(p) => c.violation(
            &format!("C17 panic api=Balance::try_new class={} loc={}", class_u64(v), repo_rel(&p.location)),
            json!({"input": v.to_string(), "panic": p.message}),
        ),
        Ok((cb, mb)) => {
            let ok = match (&cb, &mb) {
                (Ok(a), Ok(b)) => expect_ok && a.into_inner() == v && b.into_inner() == v,
                (Err(Error::AmountTooLarge(x)), Err(Error::AmountTooLarge(y))) => !expect_ok && *x == v && *y == v,
                _ => false,
            };
            if !ok {
                c.violation(
                    &format!("C17 wrong-result api=Balance::try_new class={}", class_u64(v)),
                    json!({"input": v.to_string(), "customer": format!("{:?}", cb), "merchant": format!("{:?}", mb)}),
                );
            }
            if let (Ok(a), Ok(b)) = (&cb, &mb) {
                // zero tests
                if a.is_zero() != (v == 0) || b.is_zero() != (v == 0) || a.is_positive() != (v != 0) || b.is_positive() != (v != 0) {
                    c.violation(
                        &format!("C17 wrong-result api=Balance::is_zero class={}", class_u64(v)),
                        json!({"input": v.to_string()}),
                    );
                }
            }
        }
    }
    // amounts
    match guard(|| (PaymentAmount::pay_merchant(v), PaymentAmount::pay_customer(v))) {
        Err(p) => c.violation(
            &format!("C17 panic api=PaymentAmount::pay_* class={} loc={}", class_u64(v), repo_rel(&p.location)),
            json!({"input": v.to_string(), "panic": p.message}),
        ),
        Ok((pm, pc)) => {
            let ok = match (&pm, &pc) {
                (Ok(a), Ok(b)) => expect_ok && a.to_i64() as i128 == v as i128 && b.to_i64() as i128 == -(v as i128),
                (Err(Error::AmountTooLarge(x)), Err(Error::AmountTooLarge(y))) => !expect_ok && *x == v && *y == v,
                _ => false,
            };
            if !ok {
                c.violation(
                    &format!("C17 wrong-result api=PaymentAmount::pay_* class={}", class_u64(v)),
                    json!({"input": v.to_string(), "pay_merchant": format!("{:?}", pm), "pay_customer": format!("{:?}", pc)}),
                );
            }
        }
    }
}

pub fn check_try_add(c: &mut Ctx, a: u64, b: u64) {
    if a > MAXB || b > MAXB {
        return;
    }
    c.eval();
    c.distinct(&format!("add/{}/{}", a, b));
    let r = guard(|| {
        let m = MerchantBalance::try_new(a).ok()?;
        let cb = CustomerBalance::try_new(b).ok()?;
        Some(m.try_add(cb))
    });
    let sum = a as u128 + b as u128;
    match r {
        Err(p) => c.violation(
            &format!("C17 panic api=MerchantBalance::try_add class={}+{} loc={}", class_u64(a), class_u64(b), repo_rel(&p.location)),
            json!({"a": a.to_string(), "b": b.to_string(), "panic": p.message}),
        ),
        Ok(None) => c.inconclusive("C17: in-range balance refused by constructor inside try_add check"),
        Ok(Some(res)) => {
            let ok = match &res {
                Ok(v) => sum <= MAXB as u128 && v.into_inner() as u128 == sum,
                Err(Error::AmountTooLarge(x)) => sum > MAXB as u128 && *x as u128 == sum,
                Err(_) => false,
            };
            if !ok {
                c.violation(
                    &format!("C17 wrong-result api=MerchantBalance::try_add class={}+{}", class_u64(a), class_u64(b)),
                    json!({"a": a.to_string(), "b": b.to_string(), "result": format!("{:?}", res)}),
                );
            }
        }
    }
}

/// A Ready state with the given balances, obtained by substituting the balance atoms of an
/// honest Ready's bytes (the pay token then no longer matches, which `start` does not check).
fn crafted_ready(template: &crate::tracer::Trace, cust: u64, merch: u64) -> Result<Ready, String> {
    let mut t = template.clone();
    t.fset("state/customer_balance", &cust.to_le_bytes())?;
    t.fset("state/merchant_balance", &merch.to_le_bytes())?;
    dec(&t.bytes)
}

fn check_apply(c: &mut Ctx, m: &'static fixtures::Merchant, template: &crate::tracer::Trace, cust: u64, merch: u64, amt: i64, label: &str) {
    // amounts are obtained the way a program can obtain them: constructors, or the wire
    let pa: PaymentAmount = match amount(amt) {
        Ok(a) => a,
        Err(_) => match dec::<PaymentAmount>(&amt.to_le_bytes()) {
            Ok(a) => a,
            Err(_) => return, // neither constructible nor decodable: outside the quantifier
        },
    };
    let ready = match crafted_ready(template, cust, merch) {
        Ok(r) => r,
        Err(_) => {
            c.count("apply_state_not_decodable", 1);
            return;
        }
    };
    c.eval();
    c.distinct(&format!("apply/{}/{}/{}", cust, merch, amt));
    let before = enc(&ready);
    let mut rng = c.rng(&format!("apply/{}", label));
    let r = guard(|| ready.start(&mut rng, pa, &Context::new(b"c17"), &m.ccfg));
    let expect = ledger_apply(cust, merch, amt);
    let cls = format!("{}/{}/{}", class_u64(cust), class_u64(merch), class_i64(amt));
    match r {
        Err(p) => c.violation(
            &format!("C17 panic api=Ready::start class={} loc={}", cls, repo_rel(&p.location)),
            json!({"cust": cust.to_string(), "merch": merch.to_string(), "amount": amt.to_string(), "panic": p.message}),
        ),
        Ok(Ok((started, _msg))) => {
            c.count("apply_accepted", 1);
            let tr = match trace(&started) {
                Ok(t) => t,
                Err(e) => {
                    c.inconclusive(&e);
                    return;
                }
            };
            let nc = tr.fget("new_state/customer_balance").map(|b| le64(&b));
            let nm = tr.fget("new_state/merchant_balance").map(|b| le64(&b));
            let (nc, nm) = match (nc, nm) {
                (Ok(a), Ok(b)) => (a, b),
                _ => {
                    c.inconclusive("C17: cannot read new balances from Started bytes");
                    return;
                }
            };
            let reported = (started.customer_balance().into_inner(), started.merchant_balance().into_inner());
            match expect {
                Ok((ec, em)) => {
                    if (nc, nm) != (ec, em) || reported != (cust, merch) {
                        c.violation(
                            &format!("C17 wrong-result api=Ready::start class={}", cls),
                            json!({"cust": cust.to_string(), "merch": merch.to_string(), "amount": amt.to_string(),
                                   "new": [nc.to_string(), nm.to_string()], "expected": [ec.to_string(), em.to_string()],
                                   "reported_old": [reported.0.to_string(), reported.1.to_string()]}),
                        );
                    }
                }
                Err(_) => c.violation(
                    &format!("C17 accepted-out-of-range api=Ready::start class={}", cls),
                    json!({"cust": cust.to_string(), "merch": merch.to_string(), "amount": amt.to_string(),
                           "new": [nc.to_string(), nm.to_string()]}),
                ),
            }
        }
        Ok(Err((ready, e))) => {
            c.count("apply_refused", 1);
            let after = enc(&ready);
            match expect {
                Ok(_) => c.violation(
                    &format!("C17 refused-in-range api=Ready::start class={}", cls),
                    json!({"cust": cust.to_string(), "merch": merch.to_string(), "amount": amt.to_string(), "error": err_name(&e)}),
                ),
                Err(le) => {
                    let ok = match e {
                        Error::InsufficientFunds => le.neg,
                        Error::AmountTooLarge(_) => le.big,
                    };
                    if !ok {
                        c.violation(
                            &format!("C17 wrong-error api=Ready::start class={}", cls),
                            json!({"cust": cust.to_string(), "merch": merch.to_string(), "amount": amt.to_string(), "error": err_name(&e)}),
                        );
                    }
                }
            }
            if after != before {
                c.violation(
                    &format!("C17 state-changed-on-refusal api=Ready::start class={}", cls),
                    json!({"cust": cust.to_string(), "merch": merch.to_string(), "amount": amt.to_string()}),
                );
            }
        }
    }
}

pub fn run(c: &mut Ctx) {
    c.note("rule", json!("constructor lattice: every u64 lattice value and random values; try_add: every in-range pair; payment application: every (customer balance, merchant balance, amount) triple of the boundary lattice and random triples, through Ready states decoded from crafted bytes; wire amounts through allow_payment; full honest payments at boundary amounts. Distinct = distinct input tuple. Added later: cross-amount checks (a proof made for X offered under Y at the encoding boundaries). The named zero constructors."));
    let lat = lattice_u64();
    let lat_i = lattice_i64();
    let nrand = c.tier.pick(200usize, 5000);

    c.case("api/lattice", |c| {
        for &v in &lattice_u64() {
            check_constructors(c, v);
        }
        for &a in &lattice_u64() {
            for &b in &lattice_u64() {
                check_try_add(c, a, b);
            }
        }
        c.sample(json!({"kind": "constructor lattice", "values": lattice_u64().iter().map(|v| v.to_string()).collect::<Vec<_>>()}));
    });
    for chunk in 0..8 {
        c.case(&format!("api/random/{}", chunk), |c| {
            let mut rng = c.rng(&format!("api/random/{}", chunk));
            for _ in 0..nrand {
                let v = shaped_u64(&mut rng);
                check_constructors(c, v);
                let w = shaped_u64(&mut rng);
                check_try_add(c, v, w);
            }
        });
    }

    // payment application through crafted Ready states
    let m = match fixtures::merchant(c.seed, "m0") {
        Ok(m) => m,
        Err(e) => {
            c.inconclusive(&e);
            return;
        }
    };
    let template = {
        let mut rng = Ctx::fixture_rng(c.seed, "c17/ready-template");
        let s = Sess::open(m, &mut rng, 5, 7, b"c17");
        match s {
            Ok(s) => match &s.stage {
                Stage::Ready(r) => trace(r),
                _ => Err("C17: template session is not Ready".into()),
            },
            Err(e) => Err(e),
        }
    };
    let template = match template {
        Ok(t) => t,
        Err(e) => {
            c.inconclusive(&e);
            return;
        }
    };
    for &cust in &lat {
        for &merch in &lat {
            for &amt in &lat_i {
                let name = format!("apply/{}/{}/{}", cust, merch, amt);
                c.case(&name, |c| check_apply(c, m, &template, cust, merch, amt, &name));
            }
        }
    }
    let napply = c.tier.pick(64usize, 2000);
    for k in 0..napply {
        let name = format!("apply/random/{}", k);
        c.case(&name, |c| {
            let mut rng = c.rng(&name);
            let cust = shaped_u64(&mut rng) & MAXB;
            let merch = shaped_u64(&mut rng) & MAXB;
            let amt = shaped_u64(&mut rng) as i64;
            // half of the random triples are steered towards the feasible region
            let amt = if rng.next_u32() % 2 == 0 { amt } else if rng.next_u32() % 2 == 0 { (amt as i128 % (cust as i128 + 1)) as i64 } else { -((amt as i128).rem_euclid(merch as i128 + 1) as i64) };
            check_apply(c, m, &template, cust, merch, amt, &name);
            c.sample(json!({"kind": "payment application", "cust": cust.to_string(), "merch": merch.to_string(), "amount": amt.to_string()}));
        });
    }

    // wire-decoded amounts reaching the merchant's scalar encoding
    let pay_msg = {
        let mut rng = Ctx::fixture_rng(c.seed, "c17/pay-template");
        Sess::open(m, &mut rng, 1000, 1000, b"c17").and_then(|mut s| {
            let r = s.c_start(&mut rng, amount(1).unwrap(), b"c17")?;
            r.map_err(|e| format!("{:?}", e))
        })
    };
    let (nonce_b, proof_b) = match pay_msg {
        Ok(x) => x,
        Err(e) => {
            c.inconclusive(&e);
            return;
        }
    };
    for &amt in &lat_i {
        let name = format!("wire-amount/{}", amt);
        c.case(&name, |c| {
            let pa: PaymentAmount = match dec(&amt.to_le_bytes()) {
                Ok(a) => a,
                Err(_) => {
                    c.count("wire_amount_not_decodable", 1);
                    return;
                }
            };
            c.eval();
            c.distinct(&name);
            let nonce: Nonce = dec(&nonce_b).unwrap();
            let proof: PayProof = dec(&proof_b).unwrap();
            let mut rng = c.rng(&name);
            let r = guard(|| m.cfg.allow_payment(&mut rng, pa, &nonce, proof, &Context::new(b"c17")).is_some());
            match r {
                Err(p) => c.violation(
                    &format!("C17 panic api=allow_payment wire-amount={} loc={}", class_i64(amt), repo_rel(&p.location)),
                    json!({"amount": amt.to_string(), "panic": p.message, "location": p.location}),
                ),
                Ok(acc) => {
                    // the proof was made for amount 1
                    if acc != (amt == 1) {
                        c.violation(
                            &format!("C17 wrong-result api=allow_payment wire-amount={}", class_i64(amt)),
                            json!({"amount": amt.to_string(), "accepted": acc}),
                        );
                    }
                    if pa.to_i64() != amt {
                        c.violation(
                            &format!("C17 wrong-result api=PaymentAmount::to_i64 wire-amount={}", class_i64(amt)),
                            json!({"amount": amt.to_string(), "to_i64": pa.to_i64().to_string()}),
                        );
                    }
                }
            }
        });
    }

    // a proof made for amount X must not be accepted under another amount Y, in particular not at
    // the encodings' boundaries (enc(i64::MIN) is a wire-only value next to enc(-(2^63-1)))
    for (i, (cust, merch, x)) in [(0u64, MAXB, -(MAXB as i64)), (MAXB, 0u64, MAXB as i64), (1u64 << 61, 1u64 << 62, -(1i64 << 62)), (5u64, 5u64, 0i64)].into_iter().enumerate() {
        let name = format!("cross-amount/{}", i);
        c.case(&name, |c| {
            let mut rng = c.rng(&name);
            let started = Sess::open(m, &mut rng, cust, merch, b"c17x").and_then(|mut s| {
                let r = s.c_start(&mut rng, amount(x)?, b"c17x")?;
                r.map_err(|e| format!("{:?}", e))
            });
            let (nonce_b, proof_b) = match started {
                Ok(v) => v,
                Err(e) => return c.inconclusive(&e),
            };
            let mut others: Vec<i64> = vec![i64::MIN, i64::MIN + 1, i64::MAX, -(x.wrapping_add(0)), x.wrapping_add(1), x.wrapping_sub(1), 0, 1, -1];
            others.push(x);
            others.sort();
            others.dedup();
            for y in others {
                let pa: PaymentAmount = match dec(&y.to_le_bytes()) {
                    Ok(a) => a,
                    Err(_) => continue,
                };
                c.eval();
                c.distinct(&format!("cross-amount/{}/{}", x, y));
                let nonce: Nonce = dec(&nonce_b).unwrap();
                let proof: PayProof = dec(&proof_b).unwrap();
                match guard(|| m.cfg.allow_payment(&mut rng, pa, &nonce, proof, &Context::new(b"c17x")).is_some()) {
                    Err(p) => c.violation(
                        &format!("C17 panic api=allow_payment wire-amount={} loc={}", class_i64(y), repo_rel(&p.location)),
                        json!({"proof_made_for": x.to_string(), "verified_under": y.to_string(), "panic": p.message}),
                    ),
                    Ok(acc) => {
                        if acc != (y == x) {
                            c.violation(
                                &format!("C17 scalar-encoding-inconsistent proof-for={} verified-under={}", class_i64(x), class_i64(y)),
                                json!({"proof_made_for": x.to_string(), "verified_under": y.to_string(), "accepted": acc, "balances": [cust.to_string(), merch.to_string()]}),
                            );
                        } else {
                            c.count("cross_amount_checks", 1);
                        }
                    }
                }
            }
        });
    }

    // full honest payments at boundary amounts: both sides' scalar encodings must agree
    let mut plans: Vec<(u64, u64, Vec<i64>)> = vec![
        (MAXB, 0, vec![MAXB as i64, -(MAXB as i64), 1, -1]),
        (0, MAXB, vec![-(MAXB as i64), MAXB as i64]),
        (1 << 62, (1 << 62) - 1, vec![1 << 62, -(1i64 << 62), -(1i64 << 62) + 1, 0]),
        (MAXB - 1, 1, vec![MAXB as i64 - 1, -1, 0, 1]),
        (1 << 32, 1 << 31, vec![(1 << 32) - 1, 1, -(1i64 << 32) - (1i64 << 31)]),
    ];
    let nplans = c.tier.pick(6usize, 120);
    {
        let mut rng = c.rng("pay-plans");
        for _ in 0..nplans {
            let cust = shaped_u64(&mut rng) & MAXB;
            let merch = (shaped_u64(&mut rng) & MAXB).min(MAXB - cust);
            let mut amts = vec![];
            let (mut cc, mut mm) = (cust, merch);
            for _ in 0..3 {
                let a: i64 = match rng.next_u32() % 4 {
                    0 => cc as i64,
                    1 => -(mm as i64),
                    2 => (rng.next_u64() % (cc + 1)) as i64,
                    _ => -((rng.next_u64() % (mm + 1)) as i64),
                };
                if let Ok((x, y)) = ledger_apply(cc, mm, a) {
                    cc = x;
                    mm = y;
                    amts.push(a);
                }
            }
            plans.push((cust, merch, amts));
        }
    }
    for (i, (cust, merch, amts)) in plans.into_iter().enumerate() {
        let name = format!("pay/{}", i);
        // keep only the amounts the ideal ledger accepts, so that a refusal is a finding
        let amts: Vec<i64> = {
            let (mut cc, mut mm) = (cust, merch);
            amts.into_iter()
                .filter(|a| match ledger_apply(cc, mm, *a) {
                    Ok((x, y)) => {
                        cc = x;
                        mm = y;
                        true
                    }
                    Err(_) => false,
                })
                .collect()
        };
        c.case(&name, |c| {
            let mut rng = c.rng(&name);
            let r = guard(|| -> Result<(), String> {
                let mut s = Sess::open(m, &mut rng, cust, merch, b"c17-pay")?;
                for &a in &amts {
                    let pa = amount(a)?;
                    match s.pay(&mut rng, pa, b"c17-pay")? {
                        Ok(()) => {}
                        Err(e) => return Err(format!("in-range payment refused by start: {:?}", e)),
                    }
                    if s.stage.balances() != Some(s.ledger) {
                        return Err(format!("balances {:?} differ from ledger {:?}", s.stage.balances(), s.ledger));
                    }
                }
                Ok(())
            });
            c.evals(amts.len() as u64);
            for &a in &amts {
                c.distinct(&format!("pay/{}/{}/{}", cust, merch, a));
            }
            c.sample(json!({"kind": "honest boundary payments", "cust": cust.to_string(), "merch": merch.to_string(),
                             "amounts": amts.iter().map(|a| a.to_string()).collect::<Vec<_>>()}));
            match r {
                Err(p) => c.violation(
                    &format!("C17 panic api=honest-payment loc={}", repo_rel(&p.location)),
                    json!({"cust": cust.to_string(), "merch": merch.to_string(), "amounts": format!("{:?}", amts), "panic": p.message}),
                ),
                Ok(Err(e)) => c.violation(
                    "C17 honest boundary payment failed",
                    json!({"cust": cust.to_string(), "merch": merch.to_string(), "amounts": format!("{:?}", amts), "error": e}),
                ),
                Ok(Ok(())) => c.count("boundary_payments_completed", amts.len() as i64),
            }
        });
    }
}
