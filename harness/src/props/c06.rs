//! C06 — an accepted proof is rejected under any other statement, key or context.
//!
//! Acceptance under a substituted tuple is itself the refutation. Every negative check is paired
//! with the positive control (the unsubstituted tuple is accepted) in the same case.

use crate::ctx::{guard, Ctx};
use crate::fixtures::{self, Merchant};
use crate::props::util::*;
use crate::session::{amount, new_channel_id, Sess, Stage};
use crate::tracer::trace;
use crate::wire::{dec, enc};
use bls12_381::Scalar;
use rand_core::{CryptoRng, RngCore};
use serde_json::json;
use zkabacus_crypto::{self as zk, customer::ClosingMessage, merchant, ChannelId, Context, CustomerBalance, MerchantBalance, Verification};

const MAXB: u64 = i64::MAX as u64;

fn init_accepts(m: &Merchant, rng: &mut (impl RngCore + CryptoRng), cid: &ChannelId, cust: u64, merch: u64, proof: &[u8], ctx: &[u8]) -> Result<bool, String> {
    let p: zk::EstablishProof = dec(proof)?;
    let cb = CustomerBalance::try_new(cust).map_err(|e| format!("{:?}", e))?;
    let mb = MerchantBalance::try_new(merch).map_err(|e| format!("{:?}", e))?;
    Ok(m.cfg.initialize(rng, cid, cb, mb, p, &Context::new(ctx)).is_some())
}

fn pay_accepts(m: &Merchant, rng: &mut (impl RngCore + CryptoRng), amt: i64, nonce: &[u8], proof: &[u8], ctx: &[u8]) -> Result<bool, String> {
    let p: zk::PayProof = dec(proof)?;
    let n: zk::Nonce = dec(nonce)?;
    // amounts no constructor produces (i64::MIN) are obtained the way a merchant would get them: decoded
    let pa = match amount(amt) {
        Ok(a) => a,
        Err(_) => dec::<zk::PaymentAmount>(&amt.to_le_bytes())?,
    };
    Ok(m.cfg.allow_payment(rng, pa, &n, p, &Context::new(ctx)).is_some())
}

/// merchant configuration identical to `m` except for the part taken from `other`
fn recombine(m: &Merchant, other: &Merchant, part: &str) -> Result<&'static Merchant, String> {
    let kp = if part == "key" { other.cfg.signing_keypair() } else { m.cfg.signing_keypair() };
    let rev = if part == "revocation-parameters" { other.cfg.revocation_commitment_parameters() } else { m.cfg.revocation_commitment_parameters() };
    let range = if part == "range-parameters" { other.cfg.range_constraint_parameters() } else { m.cfg.range_constraint_parameters() };
    let cfg = merchant::Config::from_parts(dec(&enc(kp))?, dec(&enc(rev))?, dec(&enc(range))?);
    let f = fixtures::from_config(&format!("{}-with-other-{}", m.label, part), cfg)?;
    Ok(Box::leak(Box::new(f)))
}

/// merchant configuration identical to `m` except that digit signature `k` of the range parameters
/// is re-randomised (same key, still a valid signature on digit k, `validate()` still passes)
fn near_range_config(m: &Merchant, k: usize, rng: &mut (impl RngCore + CryptoRng)) -> Result<&'static Merchant, String> {
    use ff::Field;
    use group::Curve;
    let mut t = trace(m.cfg.range_constraint_parameters())?;
    let (s1, s2) = m.digit_sigs[k % m.digit_sigs.len()];
    let r = Scalar::random(&mut *rng);
    let n1 = (bls12_381::G1Projective::from(s1) * r).to_affine().to_compressed();
    let n2 = (bls12_381::G1Projective::from(s2) * r).to_affine().to_compressed();
    t.fset(&format!("digit_signatures/[{}]/sigma1", k), &n1)?;
    t.fset(&format!("digit_signatures/[{}]/sigma2", k), &n2)?;
    let range: zk::RangeConstraintParameters = dec(&t.bytes)?;
    range.validate().map_err(|e| format!("near range parameters do not validate: {}", e))?;
    let cfg = merchant::Config::from_parts(dec(&enc(m.cfg.signing_keypair()))?, dec(&enc(m.cfg.revocation_commitment_parameters()))?, range);
    let f = fixtures::from_config(&format!("{}-digit-{}-rerandomised", m.label, k), cfg)?;
    Ok(Box::leak(Box::new(f)))
}

fn context_variants(ctx: &[u8]) -> Vec<(&'static str, Vec<u8>)> {
    let mut v = vec![];
    let mut a = ctx.to_vec();
    a[0] ^= 1;
    v.push(("context-first-byte", a));
    let mut a = ctx.to_vec();
    let l = a.len();
    a[l - 1] ^= 0x80;
    v.push(("context-last-byte", a));
    let mut a = ctx.to_vec();
    a.push(0);
    v.push(("context-byte-appended", a));
    v.push(("context-truncated", ctx[..ctx.len() - 1].to_vec()));
    v.push(("context-empty", vec![]));
    {
        use sha3::{Digest, Sha3_256};
        v.push(("context-replaced-by-its-sha3-digest", Sha3_256::digest(ctx).to_vec()));
    }
    v
}

fn establish_case(c: &mut Ctx, m: &'static Merchant, other: &'static Merchant, name: &str, cust: u64, merch: u64) {
    let mut rng = c.rng(name);
    let ctx = name.as_bytes().to_vec();
    let cid = new_channel_id(m, &mut rng, b"m", b"c");
    let (_s, proof) = match Sess::request(m, &mut rng, cid, cust, merch, &ctx) {
        Ok(x) => x,
        Err(e) => return c.inconclusive(&e),
    };
    c.eval();
    match init_accepts(m, &mut rng, &cid, cust, merch, &proof, &ctx) {
        Ok(true) => c.count("positive_controls_accepted", 1),
        _ => return c.inconclusive("C06: positive control (honest establish proof under its own tuple) not accepted"),
    }
    let mut subs: Vec<(String, Result<bool, String>)> = vec![];
    let cid2 = new_channel_id(m, &mut rng, b"m", b"c");
    subs.push(("channel-id-fresh".into(), init_accepts(m, &mut rng, &cid2, cust, merch, &proof, &ctx)));
    // every single bit of the channel id
    for bit in 0..256usize {
        let mut idb = cid.to_bytes();
        idb[bit / 8] ^= 1 << (bit % 8);
        if let Ok(cid3) = dec::<ChannelId>(&idb) {
            c.eval();
            match init_accepts(m, &mut rng, &cid3, cust, merch, &proof, &ctx) {
                Ok(false) => c.count("rejected[establish/channel-id-single-bit]", 1),
                Ok(true) => c.violation(
                    "C06 accepted-under-substituted-tuple proof=EstablishProof component=channel-id-single-bit",
                    json!({"bit": bit, "agreed": [cust.to_string(), merch.to_string()]}),
                ),
                Err(e) => c.inconclusive(&e),
            }
        }
    }
    c.distinct(&format!("establish/channel-id-every-bit/{}", class_u64(cust)));
    for (k, cb, mb) in [
        ("customer-balance+1", cust.wrapping_add(1), merch),
        ("customer-balance-1", cust.wrapping_sub(1), merch),
        ("merchant-balance+1", cust, merch.wrapping_add(1)),
        ("merchant-balance-1", cust, merch.wrapping_sub(1)),
        ("balances-swapped", merch, cust),
        ("balances-moved", cust.wrapping_add(1), merch.wrapping_sub(1)),
    ] {
        if cb <= MAXB && mb <= MAXB && (cb, mb) != (cust, merch) {
            subs.push((k.into(), init_accepts(m, &mut rng, &cid, cb, mb, &proof, &ctx)));
        }
    }
    for (k, cx) in context_variants(&ctx) {
        subs.push((k.into(), init_accepts(m, &mut rng, &cid, cust, merch, &proof, &cx)));
    }
    match recombine(m, other, "key") {
        Ok(mx) => subs.push(("merchant-key".into(), init_accepts(mx, &mut rng, &cid, cust, merch, &proof, &ctx))),
        Err(e) => c.inconclusive(&e),
    }
    subs.push(("other-merchant".into(), init_accepts(other, &mut rng, &cid, cust, merch, &proof, &ctx)));
    // a merchant key differing from the right one in a single element
    if let Ok(patoms) = crate::props::c12::parameter_atoms(m, usize::MAX) {
        for (which, fpath, kind, orig) in patoms.iter().filter(|p| p.0 == "key") {
            let Some(alt) = crate::wire::alt_valid(*kind, orig, &mut rng) else { continue };
            match crate::props::c12::config_with_atom(m, which, fpath, &alt) {
                Ok(mx) => subs.push((format!("merchant-key-element:{}", fpath), init_accepts(mx, &mut rng, &cid, cust, merch, &proof, &ctx))),
                Err(e) => c.inconclusive(&e),
            }
        }
    }
    for (k, r) in subs {
        c.eval();
        c.distinct(&format!("establish/{}/{}", k, class_u64(cust)));
        match r {
            Ok(false) => c.count(&format!("rejected[establish/{}]", k), 1),
            Ok(true) => c.violation(
                &format!("C06 accepted-under-substituted-tuple proof=EstablishProof component={}", k),
                json!({"component": k, "agreed": [cust.to_string(), merch.to_string()]}),
            ),
            Err(e) => c.inconclusive(&e),
        }
    }
}

/// The same substitutions with the proof handed over as the object the customer's code built, never encoded:
/// customer and merchant in one process (simulators, integration tests, a node that is both).
fn in_memory_case(c: &mut Ctx, m: &'static Merchant, name: &str, cust: u64, merch: u64) {
    use zkabacus_crypto::{customer::Requested, Context, CustomerBalance, MerchantBalance};
    let mut rng = c.rng(name);
    let ctx = name.as_bytes().to_vec();
    let (Ok(cb), Ok(mb)) = (CustomerBalance::try_new(cust), MerchantBalance::try_new(merch)) else { return };
    let cid = new_channel_id(m, &mut rng, b"m", b"c");
    let seed = rng.clone();
    // the same proof object again and again: identical randomness gives identical objects
    let mk = || {
        let mut r = seed.clone();
        Requested::new(&mut r, &m.ccfg, cid, mb, cb, &Context::new(&ctx)).1
    };
    c.eval();
    if m.cfg.initialize(&mut rng, &cid, cb, mb, mk(), &Context::new(&ctx)).is_none() {
        return c.inconclusive("C06: positive control (in-memory establish proof) not accepted");
    }
    c.count("positive_controls_accepted", 1);
    let mut idb = cid.to_bytes();
    idb[0] ^= 1;
    let mut subs: Vec<(&str, bool)> = vec![];
    if let Ok(cid2) = dec::<ChannelId>(&idb) {
        subs.push(("channel-id-single-bit", m.cfg.initialize(&mut rng, &cid2, cb, mb, mk(), &Context::new(&ctx)).is_some()));
    }
    if let Ok(cb2) = CustomerBalance::try_new(cust.wrapping_add(1) & MAXB) {
        if cb2.into_inner() != cust {
            subs.push(("customer-balance+1", m.cfg.initialize(&mut rng, &cid, cb2, mb, mk(), &Context::new(&ctx)).is_some()));
        }
    }
    if let Ok(mb2) = MerchantBalance::try_new(merch.wrapping_add(1) & MAXB) {
        if mb2.into_inner() != merch {
            subs.push(("merchant-balance+1", m.cfg.initialize(&mut rng, &cid, cb, mb2, mk(), &Context::new(&ctx)).is_some()));
        }
    }
    let mut cx = ctx.clone();
    cx[0] ^= 1;
    subs.push(("context-byte", m.cfg.initialize(&mut rng, &cid, cb, mb, mk(), &Context::new(&cx)).is_some()));
    for (k, acc) in subs {
        c.eval();
        c.distinct(&format!("establish-in-memory/{}/{}", k, class_u64(cust)));
        if acc {
            c.violation(&format!("C06 accepted-under-substituted-tuple proof=EstablishProof(in-memory) component={}", k), json!({"component": k}));
        } else {
            c.count(&format!("rejected[establish-in-memory/{}]", k), 1);
        }
    }
    // pay proof objects
    let s = match Sess::open(m, &mut rng, cust.max(5), merch, &ctx) {
        Ok(s) => s,
        Err(e) => return c.inconclusive(&e),
    };
    let ready = s.stage.bytes();
    let seed = rng.clone();
    let amt = 2i64;
    let mkp = || -> Option<(zk::Nonce, zk::PayProof)> {
        let mut r = seed.clone();
        let rd: zk::customer::Ready = dec(&ready).ok()?;
        let (_st, msg) = rd.start(&mut r, amount(amt).ok()?, &Context::new(&ctx), &m.ccfg).ok()?;
        Some((msg.nonce, msg.pay_proof))
    };
    let Some((n0, p0)) = mkp() else { return c.inconclusive("C06: in-memory start") };
    c.eval();
    if m.cfg.allow_payment(&mut rng, amount(amt).unwrap(), &n0, p0, &Context::new(&ctx)).is_none() {
        return c.inconclusive("C06: positive control (in-memory pay proof) not accepted");
    }
    c.count("positive_controls_accepted", 1);
    let mut subs: Vec<(&str, bool)> = vec![];
    if let Some((n, p)) = mkp() {
        subs.push(("amount+1", m.cfg.allow_payment(&mut rng, amount(amt + 1).unwrap(), &n, p, &Context::new(&ctx)).is_some()));
    }
    if let Some((_n, p)) = mkp() {
        let fresh = zk::internal::test_new_nonce(&mut rng);
        subs.push(("nonce-fresh", m.cfg.allow_payment(&mut rng, amount(amt).unwrap(), &fresh, p, &Context::new(&ctx)).is_some()));
    }
    if let Some((n, p)) = mkp() {
        subs.push(("context-byte", m.cfg.allow_payment(&mut rng, amount(amt).unwrap(), &n, p, &Context::new(&cx)).is_some()));
    }
    for (k, acc) in subs {
        c.eval();
        c.distinct(&format!("pay-in-memory/{}/{}", k, class_u64(cust)));
        if acc {
            c.violation(&format!("C06 accepted-under-substituted-tuple proof=PayProof(in-memory) component={}", k), json!({"component": k}));
        } else {
            c.count(&format!("rejected[pay-in-memory/{}]", k), 1);
        }
    }
}

fn pay_case(c: &mut Ctx, m: &'static Merchant, other: &'static Merchant, name: &str, cust: u64, merch: u64, amt: i64) {
    let mut rng = c.rng(name);
    let ctx = name.as_bytes().to_vec();
    let mut s = match Sess::open(m, &mut rng, cust, merch, &ctx) {
        Ok(s) => s,
        Err(e) => return c.inconclusive(&e),
    };
    let (nonce, proof) = match s.c_start(&mut rng, amount(amt).unwrap(), &ctx) {
        Ok(Ok(x)) => x,
        _ => return c.inconclusive("C06: honest start refused"),
    };
    c.eval();
    match pay_accepts(m, &mut rng, amt, &nonce, &proof, &ctx) {
        Ok(true) => c.count("positive_controls_accepted", 1),
        _ => return c.inconclusive("C06: positive control (honest pay proof under its own tuple) not accepted"),
    }
    let mut subs: Vec<(String, Result<bool, String>)> = vec![];
    for part in ["key", "revocation-parameters", "range-parameters"] {
        match recombine(m, other, part) {
            Ok(mx) => subs.push((part.to_string(), pay_accepts(mx, &mut rng, amt, &nonce, &proof, &ctx))),
            Err(e) => c.inconclusive(&e),
        }
    }
    subs.push(("other-merchant".into(), pay_accepts(other, &mut rng, amt, &nonce, &proof, &ctx)));
    // near value of the range parameters: same key, one digit signature re-randomised (still valid)
    for k in [0usize, 3, 127] {
        match near_range_config(m, k, &mut rng) {
            Ok(mx) => subs.push((format!("range-parameters-digit-signature-{}-rerandomised", k), pay_accepts(mx, &mut rng, amt, &nonce, &proof, &ctx))),
            Err(e) => c.inconclusive(&e),
        }
    }
    if let Ok(patoms) = crate::props::c12::parameter_atoms(m, usize::MAX) {
        for (which, fpath, kind, orig) in patoms.iter().filter(|p| p.0 == "key") {
            let Some(alt) = crate::wire::alt_valid(*kind, orig, &mut rng) else { continue };
            match crate::props::c12::config_with_atom(m, which, fpath, &alt) {
                Ok(mx) => subs.push((format!("merchant-key-element:{}", fpath), pay_accepts(mx, &mut rng, amt, &nonce, &proof, &ctx))),
                Err(e) => c.inconclusive(&e),
            }
        }
    }
    let n = crate::refs::sc(&nonce).unwrap_or(Scalar::zero());
    subs.push(("nonce+1".into(), pay_accepts(m, &mut rng, amt, &(n + Scalar::one()).to_bytes(), &proof, &ctx)));
    let fresh_nonce = enc(&zk::internal::test_new_nonce(&mut rng));
    subs.push(("nonce-fresh".into(), pay_accepts(m, &mut rng, amt, &fresh_nonce, &proof, &ctx)));
    for (k, a) in [("amount+1", amt.wrapping_add(1)), ("amount-1", amt.wrapping_sub(1)), ("amount-negated", -amt), ("amount-zero", 0), ("amount-doubled", amt.wrapping_mul(2))] {
        if a != amt {
            subs.push((k.into(), pay_accepts(m, &mut rng, a, &nonce, &proof, &ctx)));
        }
    }
    for (k, cx) in context_variants(&ctx) {
        subs.push((k.into(), pay_accepts(m, &mut rng, amt, &nonce, &proof, &cx)));
    }
    for (k, r) in subs {
        c.eval();
        c.distinct(&format!("pay/{}/{}", k, class_i64(amt)));
        match r {
            Ok(false) => c.count(&format!("rejected[pay/{}]", k), 1),
            Ok(true) => c.violation(
                &format!("C06 accepted-under-substituted-tuple proof=PayProof component={}", k),
                json!({"component": k, "amount": amt.to_string()}),
            ),
            Err(e) => c.inconclusive(&e),
        }
    }
}

fn reply_to(s: &mut Sess, reply: &[u8]) -> Result<bool, String> {
    match s.stage.name() {
        "requested" => s.c_complete(reply),
        "inactive" => s.c_activate(reply),
        "started" => s.c_lock(reply).map(|o| o.is_some()),
        "locked" => s.c_unlock(reply),
        x => Err(format!("stage {} takes no reply", x)),
    }
}

/// replies and proofs recorded in one session presented in another
fn replay_case(c: &mut Ctx, m: &'static Merchant, other: &'static Merchant, name: &str) {
    let mut rng = c.rng(name);
    // session A: full establishment and one payment, everything recorded
    let ctx_a = format!("{}/A", name).into_bytes();
    let mut a = match Sess::open(m, &mut rng, 500, 500, &ctx_a) {
        Ok(s) => s,
        Err(e) => return c.inconclusive(&e),
    };
    if a.pay(&mut rng, amount(5).unwrap(), &ctx_a).map(|r| r.is_ok()) != Ok(true) {
        return c.inconclusive("C06: session A payment failed");
    }
    let rec: Vec<(String, Vec<u8>)> = a.log.iter().filter(|r| r.dir == "m2c").enumerate().map(|(i, r)| (format!("A{}:{}", i, r.kind), r.bytes.clone())).collect();
    // victims: same merchant / other channel with the same balances; other merchant
    for (vk, vm) in [("same-merchant-other-channel", m), ("other-merchant", other)] {
        let ctx_b = format!("{}/B/{}", name, vk).into_bytes();
        let cid = new_channel_id(vm, &mut rng, b"m", b"c");
        let (mut b, proof) = match Sess::request(vm, &mut rng, cid, 500, 500, &ctx_b) {
            Ok(x) => x,
            Err(e) => return c.inconclusive(&e),
        };
        // walk B through all four reply points; at each, first offer every recorded reply of A
        loop {
            let stage = b.stage.name();
            if matches!(stage, "requested" | "inactive" | "started" | "locked") {
                for (k, r) in &rec {
                    let before = b.stage.bytes();
                    c.eval();
                    c.distinct(&format!("replay/{}/{}/{}", vk, stage, k.split(':').last().unwrap_or("")));
                    match reply_to(&mut b, r) {
                        Ok(false) => {
                            c.count(&format!("replayed_replies_refused[{}]", vk), 1);
                            if b.stage.bytes() != before {
                                c.violation("C06 replayed-reply-changed-state", json!({"victim": vk, "stage": stage, "reply": k}));
                            }
                        }
                        Ok(true) => {
                            return c.violation(
                                &format!("C06 replayed-reply-accepted victim={} stage={}", vk, stage),
                                json!({"victim": vk, "stage": stage, "reply": k}),
                            );
                        }
                        Err(e) => return c.inconclusive(&e),
                    }
                }
            }
            // then the honest step
            let r: Result<(), String> = (|| {
                match stage {
                    "requested" => {
                        let sig = b.m_initialize(&mut rng, 500, 500, &proof, &ctx_b)?.ok_or("honest establish refused")?;
                        if !b.c_complete(&sig)? {
                            return Err("honest reply refused".into());
                        }
                    }
                    "inactive" => {
                        let tok = b.m_activate(&mut rng)?;
                        if !b.c_activate(&tok)? {
                            return Err("honest reply refused".into());
                        }
                    }
                    "ready" => {
                        let (n, p) = b.c_start(&mut rng, amount(5)?, &ctx_b)?.map_err(|e| format!("{:?}", e))?;
                        let sig = b.m_allow(&mut rng, amount(5)?, &n, &p, &ctx_b)?.ok_or("honest pay proof refused")?;
                        // keep the honest reply for the next iteration
                        b.log.push(crate::session::MsgRec { dir: "m2c", kind: "held", bytes: sig, step: 0 });
                    }
                    "started" => {
                        let sig = b.log.iter().rev().find(|r| r.kind == "held").map(|r| r.bytes.clone()).ok_or("no held reply")?;
                        let (pair, bf) = b.c_lock(&sig)?.ok_or("honest reply refused")?;
                        let tok = b.m_complete(&mut rng, &pair, &bf)?.ok_or("honest revocation refused")?;
                        b.log.push(crate::session::MsgRec { dir: "m2c", kind: "held2", bytes: tok, step: 0 });
                    }
                    "locked" => {
                        let tok = b.log.iter().rev().find(|r| r.kind == "held2").map(|r| r.bytes.clone()).ok_or("no held reply")?;
                        if !b.c_unlock(&tok)? {
                            return Err("honest reply refused".into());
                        }
                    }
                    _ => {}
                }
                Ok(())
            })();
            if let Err(e) = r {
                return c.inconclusive(&format!("C06: victim session failed: {}", e));
            }
            if stage == "locked" {
                break;
            }
        }
    }
    // recorded proofs of A replayed under another context / for another channel
    let est = a.log.iter().find(|r| r.kind == "establish_proof").map(|r| r.bytes.clone());
    let nonce = a.log.iter().find(|r| r.kind == "nonce").map(|r| r.bytes.clone());
    let pp = a.log.iter().find(|r| r.kind == "pay_proof").map(|r| r.bytes.clone());
    if let (Some(est), Some(nonce), Some(pp)) = (est, nonce, pp) {
        c.eval();
        // positive: the recorded proofs are acceptable where they were made
        let ok = init_accepts(m, &mut rng, &a.cid, 500, 500, &est, &ctx_a) == Ok(true) && pay_accepts(m, &mut rng, 5, &nonce, &pp, &ctx_a) == Ok(true);
        if !ok {
            return c.inconclusive("C06: recorded proofs of session A are not accepted in their own session");
        }
        let ctx_b = format!("{}/B", name).into_bytes();
        let cid_b = new_channel_id(m, &mut rng, b"m", b"c");
        for (k, r) in [
            ("establish-proof/other-session-context", init_accepts(m, &mut rng, &a.cid, 500, 500, &est, &ctx_b)),
            ("establish-proof/other-channel", init_accepts(m, &mut rng, &cid_b, 500, 500, &est, &ctx_a)),
            ("establish-proof/other-merchant", init_accepts(other, &mut rng, &a.cid, 500, 500, &est, &ctx_a)),
            ("pay-proof/other-session-context", pay_accepts(m, &mut rng, 5, &nonce, &pp, &ctx_b)),
            ("pay-proof/other-merchant", pay_accepts(other, &mut rng, 5, &nonce, &pp, &ctx_a)),
        ] {
            c.eval();
            c.distinct(&format!("replay-proof/{}", k));
            match r {
                Ok(false) => c.count("replayed_proofs_rejected", 1),
                Ok(true) => c.violation(&format!("C06 replayed-proof-accepted what={}", k), json!({"what": k})),
                Err(e) => c.inconclusive(&e),
            }
        }
    }
}

fn close_accepts(m: &Merchant, bytes: &[u8]) -> Result<bool, String> {
    let cm: ClosingMessage = dec(bytes)?;
    let (sig, st) = cm.into_parts();
    Ok(matches!(m.cfg.check_close_signature(sig, &st), Verification::Verified))
}

/// closing messages with one field replaced by the value from another state or channel
fn closing_case(c: &mut Ctx, m: &'static Merchant, name: &str) {
    let mut rng = c.rng(name);
    let collect = |sess: &mut Sess, tag: &str, out: &mut Vec<(String, Vec<u8>)>, rng: &mut rand_chacha::ChaCha20Rng| {
        if let Ok(Some(cm)) = sess.stage.close_from_copy(rng) {
            out.push((format!("{}@{}", tag, sess.stage.name()), enc(&cm)));
        }
    };
    let mut msgs: Vec<(String, Vec<u8>)> = vec![];
    // channel X: closes collected at every stage across two payments; channel Y: another channel
    for tag in ["X", "Y"] {
        let ctx = format!("{}/{}", name, tag).into_bytes();
        let cust = 100 + (rng.next_u64() % 100);
        let merch = 100 + (rng.next_u64() % 100);
        let cid = new_channel_id(m, &mut rng, b"m", b"c");
        let (mut s, proof) = match Sess::request(m, &mut rng, cid, cust, merch, &ctx) {
            Ok(x) => x,
            Err(e) => return c.inconclusive(&e),
        };
        let r: Result<(), String> = (|| {
            let sig = s.m_initialize(&mut rng, cust, merch, &proof, &ctx)?.ok_or("refused")?;
            s.c_complete(&sig)?;
            collect(&mut s, tag, &mut msgs, &mut rng);
            let tok = s.m_activate(&mut rng)?;
            s.c_activate(&tok)?;
            collect(&mut s, tag, &mut msgs, &mut rng);
            for a in [7i64, -3] {
                let (n, p) = s.c_start(&mut rng, amount(a)?, &ctx)?.map_err(|e| format!("{:?}", e))?;
                collect(&mut s, tag, &mut msgs, &mut rng);
                let sig = s.m_allow(&mut rng, amount(a)?, &n, &p, &ctx)?.ok_or("refused")?;
                let (pair, bf) = s.c_lock(&sig)?.ok_or("refused")?;
                collect(&mut s, tag, &mut msgs, &mut rng);
                let tok = s.m_complete(&mut rng, &pair, &bf)?.ok_or("refused")?;
                s.c_unlock(&tok)?;
                collect(&mut s, tag, &mut msgs, &mut rng);
            }
            Ok(())
        })();
        if let Err(e) = r {
            return c.inconclusive(&format!("C06: honest history failed: {}", e));
        }
    }
    let fields = ["close_signature/sigma1", "close_signature/sigma2", "close_state/channel_id", "close_state/revocation_lock", "close_state/merchant_balance", "close_state/customer_balance"];
    let traces: Vec<(String, crate::tracer::Trace)> = msgs
        .iter()
        .filter_map(|(k, b)| dec::<ClosingMessage>(b).ok().and_then(|cm| trace(&cm).ok()).map(|t| (k.clone(), t)))
        .collect();
    for (k, t) in &traces {
        c.eval();
        match close_accepts(m, &t.bytes) {
            Ok(true) => c.count("positive_controls_accepted", 1),
            _ => return c.inconclusive(&format!("C06: honest closing message {} not accepted", k)),
        }
        for (k2, t2) in &traces {
            if k == k2 {
                continue;
            }
            for f in fields {
                let (Ok(a), Ok(b)) = (t.fget(f), t2.fget(f)) else { return c.inconclusive("C06: closing message layout") };
                if a == b {
                    continue; // same value (e.g. channel id of the same channel): not a substitution
                }
                let mut t3 = t.clone();
                if t3.fset(f, &b).is_err() {
                    continue;
                }
                c.eval();
                let rel = if k[..1] == k2[..1] { "same-channel-other-state" } else { "other-channel" };
                c.distinct(&format!("closing/{}/{}/{}", f, rel, k.split('@').last().unwrap_or("")));
                match close_accepts(m, &t3.bytes) {
                    Ok(false) => c.count(&format!("substituted_closing_rejected[{}]", f), 1),
                    Ok(true) => c.violation(
                        &format!("C06 closing-message-accepted-with-substituted field={} from={}", f, rel),
                        json!({"message": k, "field": f, "value_from": k2}),
                    ),
                    Err(_) => c.count("substituted_closing_not_decodable", 1),
                }
            }
        }
        // every single bit of the channel id (first messages of each channel only: 256 checks each)
        if k.ends_with("@inactive") || k.ends_with("@started") {
            if let Ok(cidb) = t.fget("close_state/channel_id") {
                for bit in 0..256usize {
                    let mut b = cidb.clone();
                    b[bit / 8] ^= 1 << (bit % 8);
                    let mut t3 = t.clone();
                    let _ = t3.fset("close_state/channel_id", &b);
                    c.eval();
                    match close_accepts(m, &t3.bytes) {
                        Ok(false) => c.count("substituted_closing_rejected[channel-id-single-bit]", 1),
                        Ok(true) => c.violation("C06 closing-message-accepted-with-substituted field=close_state/channel_id from=single-bit-flip", json!({"message": k, "bit": bit})),
                        Err(_) => {}
                    }
                }
                c.distinct(&format!("closing/channel-id-every-bit/{}", k.split('@').last().unwrap_or("")));
            }
        }
        // near values
        for f in ["close_state/merchant_balance", "close_state/customer_balance"] {
            let v = le64(&t.fget(f).unwrap_or(vec![0; 8]));
            for nv in [v.wrapping_add(1), v.wrapping_sub(1)] {
                if nv > MAXB {
                    continue;
                }
                let mut t3 = t.clone();
                let _ = t3.fset(f, &nv.to_le_bytes());
                c.eval();
                c.distinct(&format!("closing/{}/near/{}", f, k.split('@').last().unwrap_or("")));
                match close_accepts(m, &t3.bytes) {
                    Ok(false) => c.count("substituted_closing_rejected[balance+-1]", 1),
                    Ok(true) => c.violation(&format!("C06 closing-message-accepted-with-substituted field={} from=near-value", f), json!({"message": k})),
                    Err(_) => {}
                }
            }
        }
    }
    // a closing signature randomised with a zero randomiser is the all-identity pair; as an in-memory
    // object (it does not decode from the wire) it must fail the close check on every close state
    {
        use crate::srng::ScriptRng;
        let mut frng = Ctx::fixture_rng(c.seed, &format!("{}/degenerate", name));
        if let Ok(s) = Sess::open(m, &mut frng, 70, 30, b"degenerate") {
            let mut zr = ScriptRng::new([5u8; 32]);
            zr.inject(0, vec![0u8; 64]);
            if let Ok(Some(cm0)) = s.stage.close_from_copy(&mut zr) {
                let is_id = enc(&cm0)[..48] == crate::wire::g1_identity_bytes()[..];
                if zr.consumed == 1 && is_id {
                    let (sig0, st0) = cm0.into_parts();
                    let mut states = vec![("own close state".to_string(), st0)];
                    for (k, t) in traces.iter().take(6) {
                        if let Ok(cmx) = dec::<ClosingMessage>(&t.bytes) {
                            states.push((k.clone(), cmx.into_parts().1));
                        }
                    }
                    for (k, st) in states {
                        c.eval();
                        c.distinct(&format!("closing/degenerate-signature/{}", k.split('@').last().unwrap_or("own")));
                        match m.cfg.check_close_signature(sig0.clone(), &st) {
                            Verification::Failed => c.count("degenerate_closing_signature_rejected", 1),
                            Verification::Verified => c.violation(
                                "C06 closing-message-accepted-with-substituted field=close_signature from=zero-randomiser(all-identity, in memory)",
                                json!({"close_state_of": k}),
                            ),
                        }
                    }
                } else {
                    c.count("degenerate_closing_signature_not_produced", 1);
                }
            }
        }
    }
    c.sample(json!({"closing_messages": traces.iter().map(|(k, _)| k.clone()).collect::<Vec<_>>(), "fields": fields}));
    let _ = Stage::None;
}

pub fn run(c: &mut Ctx) {
    c.note("rule", json!("establish tuple (key, channel id, balances, context) and pay tuple (key, range parameters, revocation-commitment parameters, nonce, amount, context): each component replaced by a fresh value and by near values (balance+-1, amount+-1, negated, zero, context with one byte changed / appended / truncated / empty, nonce+1), merchant configurations recombined with from_parts so that exactly one part differs; recorded replies and proofs presented in other sessions (other channel, other merchant, other context) at every reply point; closing messages from every stage with each field replaced by the value from an earlier / later state or another channel. Distinct = distinct (proof kind, substituted component, substitution kind). Added later: all 256 channel-id bits, near range parameters, per-key-element substitution, a degenerate in-memory closing signature, digest-of-context contexts, wire amounts including i64::MIN. The same substitutions with the proof handed over as an in-memory object."));
    let m = match fixtures::merchant(c.seed, "m0") {
        Ok(m) => m,
        Err(e) => return c.inconclusive(&e),
    };
    let other = match fixtures::merchant(c.seed, "m1") {
        Ok(m) => m,
        Err(e) => return c.inconclusive(&e),
    };
    let tuples: Vec<(u64, u64)> = vec![(10, 1000), (0, 0), (1, MAXB), (MAXB, 1), (1 << 40, 1 << 20), (5, 5)];
    let reps = c.tier.pick(2usize, 12);
    for r in 0..reps {
        for (i, (cust, merch)) in tuples.iter().enumerate() {
            let name = format!("establish/{}/{}", r, i);
            c.case(&name, |c| {
                if let Err(p) = guard(|| establish_case(c, m, other, &name, *cust, *merch)) {
                    c.violation(&format!("C06 panic loc={}", repo_rel(&p.location)), json!({"panic": p.message}));
                }
            });
        }
    }
    for (i, (cust, merch)) in [(1000u64, 10u64), (7, 0), (1 << 40, 1 << 40)].into_iter().enumerate() {
        if i >= c.tier.pick(2usize, 3) {
            break;
        }
        let name = format!("in-memory/{}", i);
        c.case(&name, |c| {
            if let Err(p) = guard(|| in_memory_case(c, m, &name, cust, merch)) {
                c.violation(&format!("C06 panic loc={}", repo_rel(&p.location)), json!({"panic": p.message}));
            }
        });
    }
    let pays: Vec<(u64, u64, i64)> = vec![(0, MAXB, -(MAXB as i64)), (1000, 10, 7), (10, 1000, -7), (500, 500, 0), (MAXB, 0, MAXB as i64), (0, MAXB, -1), (1 << 40, 1 << 40, -(1 << 39))];
    let preps = c.tier.pick(1usize, 8);
    for r in 0..preps {
        for (i, (cust, merch, a)) in pays.iter().enumerate() {
            let name = format!("pay/{}/{}", r, i);
            c.case(&name, |c| {
                if let Err(p) = guard(|| pay_case(c, m, other, &name, *cust, *merch, *a)) {
                    c.violation(&format!("C06 panic loc={}", repo_rel(&p.location)), json!({"panic": p.message}));
                }
            });
        }
    }
    for r in 0..c.tier.pick(4usize, 40) {
        let name = format!("replay/{}", r);
        c.case(&name, |c| {
            if let Err(p) = guard(|| replay_case(c, m, other, &name)) {
                c.violation(&format!("C06 panic loc={}", repo_rel(&p.location)), json!({"panic": p.message}));
            }
        });
    }
    for r in 0..c.tier.pick(6usize, 60) {
        let name = format!("closing/{}", r);
        c.case(&name, |c| {
            if let Err(p) = guard(|| closing_case(c, m, &name)) {
                c.violation(&format!("C06 panic loc={}", repo_rel(&p.location)), json!({"panic": p.message}));
            }
        });
    }
}
