//! C12 — challenges bind every first-message element and match for prover and verifier.
//!
//! Library level: builder challenge = proof challenge; every non-response atom of every proof
//! type and every atom of every other `ChallengeInput` type is replaced by a different valid
//! encoding and the challenge must move. Non-response atoms are identified *behaviourally*
//! (answer the same builder under two challenges: atoms that stay equal were fixed before).
//! zkAbacus level: the same differential through the hook, on the challenge the merchant derives
//! inside `initialize` / `allow_payment`.

use crate::ctx::{hex, Ctx};
use crate::fixtures::{self, Merchant};
use crate::session::{amount, Sess, Stage};
use crate::srng::ScriptRng;
use crate::tracer::{trace, Kind, Trace};
use crate::wire::{alt_valid, copy, dec, enc};
use bls12_381::{G1Affine, G1Projective, G2Affine, G2Projective, Scalar};
use ff::Field;
use group::{Curve, Group};
use rand_core::RngCore;
use serde::{de::DeserializeOwned, Serialize};
use serde_json::json;
use zkabacus_crypto::{self as zk, Context};
use zkchannels_crypto::{
    pedersen::{Commitment, PedersenParameters},
    pointcheval_sanders::{BlindedMessage, BlindedSignature, KeyPair, PublicKey, Signature},
    proofs::{
        verif_hooks, Challenge, ChallengeBuilder, ChallengeInput, CommitmentProof, CommitmentProofBuilder, RangeConstraint,
        RangeConstraintBuilder, RangeConstraintParameters, SignatureProof, SignatureProofBuilder, SignatureRequestProof,
        SignatureRequestProofBuilder,
    },
    BlindingFactor, Message,
};

fn ch_of<T: ChallengeInput>(x: &T) -> Scalar {
    ChallengeBuilder::new().with(x).finish().to_scalar()
}

fn two_challenges() -> (Challenge, Challenge) {
    (
        ChallengeBuilder::new().with_bytes(b"challenge-one").finish(),
        ChallengeBuilder::new().with_bytes(b"challenge-two").finish(),
    )
}

/// Differential over the atoms of a serializable `ChallengeInput` value. `skip` = atoms that are
/// responses (identified by the caller), given as a set of field paths.
fn differential<T: ChallengeInput + Serialize + DeserializeOwned>(c: &mut Ctx, tname: &str, v: &T, responses: &[String], rng: &mut impl RngCore) {
    let t = match trace(v) {
        Ok(t) => t,
        Err(e) => return c.inconclusive(&e),
    };
    let base = ch_of(v);
    // determinism: the same value gives the same challenge, also through a reference
    if ch_of(v) != base || ch_of(&v) != base {
        c.violation(&format!("C12 challenge-not-deterministic type={}", tname), json!({"type": tname}));
    }
    for a in &t.atoms {
        if a.kind == Kind::Len {
            continue;
        }
        if responses.iter().any(|r| r == &a.fpath) {
            c.count("response_atoms_skipped", 1);
            continue;
        }
        // a point is also replaced by its negation (same x-coordinate, other sign bit)
        if matches!(a.kind, Kind::G1 | Kind::G2) {
            let mut neg = t.atom_bytes(a).to_vec();
            if neg[0] & 0x40 == 0 {
                neg[0] ^= 0x20;
                if let Ok(vn) = dec::<T>(&t.with_replaced(a, &neg)) {
                    c.eval();
                    c.distinct(&format!("lib/{}/{}/negated", tname, a.fpath));
                    c.count("library_atoms_negated", 1);
                    if ch_of(&vn) == base {
                        c.violation(
                            &format!("C12 challenge-unchanged level=library type={} atom={} replacement=negation", tname, a.fpath),
                            json!({"type": tname, "atom": a.path, "original": hex(t.atom_bytes(a)), "replacement": hex(&neg)}),
                        );
                    }
                }
            }
        }
        let Some(alt) = alt_valid(a.kind, t.atom_bytes(a), rng) else { continue };
        let bytes = t.with_replaced(a, &alt);
        let v2: T = match dec(&bytes) {
            Ok(x) => x,
            Err(_) => {
                // e.g. a validated pair: not a value a program can hold
                c.count("replacements_not_decodable", 1);
                continue;
            }
        };
        c.eval();
        c.distinct(&format!("lib/{}/{}", tname, a.fpath));
        c.count("library_atoms_replaced", 1);
        let c2 = ch_of(&v2);
        if c2 == base {
            c.violation(
                &format!("C12 challenge-unchanged level=library type={} atom={}", tname, a.fpath),
                json!({"type": tname, "atom": a.path, "original": hex(t.atom_bytes(a)), "replacement": hex(&alt)}),
            );
        }
        // the challenge is a function of its input alone: the original and the changed value hashed again,
        // in the other order, after other values went through the same code
        if ch_of(v) != base || ch_of(&v2) != c2 {
            c.violation(
                &format!("C12 challenge-depends-on-call-history type={} atom={}", tname, a.fpath),
                json!({"type": tname, "atom": a.path, "sequence": "v, v', v, v'"}),
            );
        }
    }
}

/// field paths of the atoms that differ between two traces of the same shape
fn differing(t1: &Trace, t2: &Trace) -> Result<Vec<String>, String> {
    if t1.atoms.len() != t2.atoms.len() {
        return Err("C12: twin proofs have different shapes".into());
    }
    let mut v = vec![];
    for (a, b) in t1.atoms.iter().zip(t2.atoms.iter()) {
        if a.fpath != b.fpath {
            return Err("C12: twin proofs have different layouts".into());
        }
        if t1.atom_bytes(a) != t2.atom_bytes(b) {
            v.push(a.fpath.clone());
        }
    }
    Ok(v)
}

/// Cross-check of the behavioural classification against field names, and the final list of
/// response atoms. A response scalar whose message entry is zero (c*0 + s) does not move with the
/// challenge, so "equal in both runs" alone cannot prove that an atom is a first message: atoms
/// *named* response scalars are treated as responses as well. The opposite disagreement (an atom
/// that moved with the challenge but is not named a response) makes the case inconclusive.
fn names_agree(c: &mut Ctx, what: &str, t: &Trace, responses: &[String]) -> Vec<String> {
    let mut out: Vec<String> = responses.to_vec();
    for a in &t.atoms {
        let by_name = a.fpath.contains("response_scalar") && a.kind == Kind::B32;
        let by_behaviour = responses.iter().any(|r| r == &a.fpath);
        if by_behaviour && !by_name {
            c.inconclusive(&format!("C12: {}: atom {} moved with the challenge but is not named a response scalar", what, a.fpath));
        }
        if by_name && !by_behaviour {
            c.count("responses_constant_under_challenge(zero message entry)", 1);
            out.push(a.fpath.clone());
        }
    }
    out
}

fn edge_message<const N: usize>(rng: &mut impl RngCore, variant: usize) -> Message<N> {
    let mut m = [Scalar::zero(); N];
    for (i, x) in m.iter_mut().enumerate() {
        *x = match (variant + i) % 4 {
            0 => Scalar::random(&mut *rng),
            1 => Scalar::zero(),
            2 => Scalar::one(),
            _ => Scalar::zero() - Scalar::one(),
        };
    }
    Message::new(m)
}

fn library_n<const N: usize>(c: &mut Ctx, instances: usize) {
    let name = format!("library/N={}", N);
    c.case(&name, |c| {
        let mut rng = c.rng(&name);
        for inst in 0..instances {
            let kp = KeyPair::<N>::new(&mut rng);
            let pk = kp.public_key().clone();
            let msg: Message<N> = edge_message(&mut rng, inst);
            let sig = msg.sign(&mut rng, &kp);
            let p1 = PedersenParameters::<G1Projective, N>::new(&mut rng);
            let p2 = PedersenParameters::<G2Projective, N>::new(&mut rng);
            let (c1, c2) = two_challenges();
            // commitment proofs, both groups
            {
                let b = CommitmentProofBuilder::<G1Projective, N>::generate_proof_commitments(&mut rng, msg.clone(), &[None; N], &p1);
                let bc = ch_of(&b);
                let pa: CommitmentProof<G1Projective, N> = b.clone().generate_proof_response(c1);
                let pb = b.generate_proof_response(c2);
                c.eval();
                if ch_of(&pa) != bc || ch_of(&pb) != bc {
                    c.violation(&format!("C12 builder-proof-challenge-differ type=CommitmentProof<G1,{}>", N), json!({}));
                }
                match (trace(&pa), trace(&pb)) {
                    (Ok(ta), Ok(tb)) => match differing(&ta, &tb) {
                        Ok(resp) => {
                            let resp = names_agree(c, "CommitmentProof<G1>", &ta, &resp);
                            differential(c, &format!("CommitmentProof<G1,{}>", N), &pa, &resp, &mut rng);
                        }
                        Err(e) => c.inconclusive(&e),
                    },
                    _ => c.inconclusive("C12: trace failed"),
                }
            }
            {
                let b = CommitmentProofBuilder::<G2Projective, N>::generate_proof_commitments(&mut rng, msg.clone(), &[None; N], &p2);
                let bc = ch_of(&b);
                let pa: CommitmentProof<G2Projective, N> = b.clone().generate_proof_response(c1);
                let pb = b.generate_proof_response(c2);
                c.eval();
                if ch_of(&pa) != bc || ch_of(&pb) != bc {
                    c.violation(&format!("C12 builder-proof-challenge-differ type=CommitmentProof<G2,{}>", N), json!({}));
                }
                if let (Ok(ta), Ok(tb)) = (trace(&pa), trace(&pb)) {
                    match differing(&ta, &tb) {
                        Ok(resp) => {
                            let resp = names_agree(c, "CommitmentProof<G2>", &ta, &resp);
                            differential(c, &format!("CommitmentProof<G2,{}>", N), &pa, &resp, &mut rng);
                        }
                        Err(e) => c.inconclusive(&e),
                    }
                }
            }
            // signature proof
            {
                let b = SignatureProofBuilder::<N>::generate_proof_commitments(&mut rng, msg.clone(), sig, &[None; N], &pk);
                let bc = ch_of(&b);
                let pa: SignatureProof<N> = b.clone().generate_proof_response(c1);
                let pb = b.generate_proof_response(c2);
                c.eval();
                if ch_of(&pa) != bc || ch_of(&pb) != bc {
                    c.violation(&format!("C12 builder-proof-challenge-differ type=SignatureProof<{}>", N), json!({}));
                }
                if let (Ok(ta), Ok(tb)) = (trace(&pa), trace(&pb)) {
                    match differing(&ta, &tb) {
                        Ok(resp) => {
                            let resp = names_agree(c, "SignatureProof", &ta, &resp);
                            differential(c, &format!("SignatureProof<{}>", N), &pa, &resp, &mut rng);
                        }
                        Err(e) => c.inconclusive(&e),
                    }
                }
            }
            // signature request proof
            {
                let b = SignatureRequestProofBuilder::<N>::generate_proof_commitments(&mut rng, msg.clone(), &[None; N], &pk);
                let bc = ch_of(&b);
                let pa: SignatureRequestProof<N> = b.clone().generate_proof_response(c1);
                let pb = b.generate_proof_response(c2);
                c.eval();
                if ch_of(&pa) != bc || ch_of(&pb) != bc {
                    c.violation(&format!("C12 builder-proof-challenge-differ type=SignatureRequestProof<{}>", N), json!({}));
                }
                if let (Ok(ta), Ok(tb)) = (trace(&pa), trace(&pb)) {
                    match differing(&ta, &tb) {
                        Ok(resp) => {
                            let resp = names_agree(c, "SignatureRequestProof", &ta, &resp);
                            differential(c, &format!("SignatureRequestProof<{}>", N), &pa, &resp, &mut rng);
                        }
                        Err(e) => c.inconclusive(&e),
                    }
                }
            }
            // keys and parameters: every atom counts
            differential(c, &format!("PublicKey<{}>", N), &pk, &[], &mut rng);
            differential(c, &format!("PedersenParameters<G1,{}>", N), &p1, &[], &mut rng);
            differential(c, &format!("PedersenParameters<G2,{}>", N), &p2, &[], &mut rng);
            c.count("library_instances", 1);
        }
    });
}

fn library_misc(c: &mut Ctx, m: &'static Merchant) {
    c.case("library/misc", |c| {
        let mut rng = c.rng("library/misc");
        let kp = KeyPair::<3>::new(&mut rng);
        let msg = Message::<3>::random(&mut rng);
        let sig: Signature = msg.sign(&mut rng, &kp);
        let bf = BlindingFactor::new(&mut rng);
        let bm: BlindedMessage = msg.blind(kp.public_key(), bf);
        let bs: BlindedSignature = sig.blind_and_randomize(&mut rng, bf);
        let p1 = PedersenParameters::<G1Projective, 3>::new(&mut rng);
        let p2 = PedersenParameters::<G2Projective, 3>::new(&mut rng);
        let c1: Commitment<G1Projective> = msg.commit(&p1, bf);
        let c2: Commitment<G2Projective> = msg.commit(&p2, bf);
        differential(c, "Signature", &sig, &[], &mut rng);
        differential(c, "BlindedMessage", &bm, &[], &mut rng);
        differential(c, "BlindedSignature", &bs, &[], &mut rng);
        differential(c, "Commitment<G1>", &c1, &[], &mut rng);
        differential(c, "Commitment<G2>", &c2, &[], &mut rng);
        // bare elements (no serde on the foreign types: compare directly)
        for k in 0..c.tier.pick(20, 300) {
            c.eval();
            c.distinct(&format!("lib/bare/{}", k));
            let (s1, s2) = (Scalar::random(&mut rng), Scalar::random(&mut rng));
            let (a1, a2) = (G1Projective::random(&mut rng), G1Projective::random(&mut rng));
            let (b1, b2) = (G2Projective::random(&mut rng), G2Projective::random(&mut rng));
            let ok = ch_of(&s1) != ch_of(&s2)
                && ch_of(&a1) != ch_of(&a2)
                && ch_of(&b1) != ch_of(&b2)
                && ch_of(&a1.to_affine()) != ch_of(&a2.to_affine())
                && ch_of(&b1.to_affine()) != ch_of(&b2.to_affine())
                && ch_of(&a1) == ch_of(&a1.to_affine())
                && ch_of(&b1) == ch_of(&b1.to_affine())
                && ch_of(&&s1) == ch_of(&s1);
            if !ok {
                c.violation("C12 challenge-unchanged level=library type=bare-element", json!({"k": k}));
            }
            let _: (G1Affine, G2Affine) = (a1.to_affine(), b1.to_affine());
        }
        // arbitrary bytes and order of consumption
        for len in 0..c.tier.pick(40usize, 200) {
            let mut b = vec![0u8; len];
            rng.fill_bytes(&mut b);
            let base = ChallengeBuilder::new().with_bytes(&b).finish().to_scalar();
            for pos in 0..len {
                c.eval();
                let mut b2 = b.clone();
                b2[pos] ^= 1 << (rng.next_u32() % 8);
                if ChallengeBuilder::new().with_bytes(&b2).finish().to_scalar() == base {
                    c.violation("C12 challenge-unchanged level=library type=bytes", json!({"len": len, "pos": pos}));
                }
            }
            c.distinct(&format!("lib/bytes/{}", len));
            let mut b3 = b.clone();
            b3.push(0);
            if ChallengeBuilder::new().with_bytes(&b3).finish().to_scalar() == base {
                c.violation("C12 challenge-unchanged level=library type=bytes-appended", json!({"len": len}));
            }
        }
        // range constraint: builder = proof, differential over every non-response atom
        let rp: &RangeConstraintParameters = m.ccfg.range_constraint_parameters();
        for (k, v) in [0i64, 1, 127, 128, i64::MAX, 987_654_321].into_iter().enumerate() {
            let mut seed = [0u8; 32];
            rng.fill_bytes(&mut seed);
            let (ch1, ch2) = two_challenges();
            let b1 = RangeConstraintBuilder::generate_constraint_commitments(v, rp, &mut ScriptRng::new(seed));
            let b2 = RangeConstraintBuilder::generate_constraint_commitments(v, rp, &mut ScriptRng::new(seed));
            let (Ok(b1), Ok(b2)) = (b1, b2) else { return c.inconclusive("C12: range builder refused an in-range value") };
            let bc = ch_of(&b1);
            c.eval();
            if ch_of(&b2) != bc {
                return c.inconclusive("C12: identical RNG streams gave different range builders");
            }
            let ra: RangeConstraint = b1.generate_constraint_response(ch1);
            let rb: RangeConstraint = b2.generate_constraint_response(ch2);
            if ch_of(&ra) != bc || ch_of(&rb) != bc {
                c.violation("C12 builder-proof-challenge-differ type=RangeConstraint", json!({"value": v.to_string()}));
            }
            if k < c.tier.pick(1, 6) {
                if let (Ok(ta), Ok(tb)) = (trace(&ra), trace(&rb)) {
                    match differing(&ta, &tb) {
                        Ok(resp) => {
                            let resp = names_agree(c, "RangeConstraint", &ta, &resp);
                            differential(c, "RangeConstraint", &ra, &resp, &mut rng);
                        }
                        Err(e) => c.inconclusive(&e),
                    }
                }
            }
        }
    });
    // range parameters: 128 signatures and a key (split: decoding them is slow)
    let rp: &RangeConstraintParameters = m.ccfg.range_constraint_parameters();
    let t = match trace(rp) {
        Ok(t) => t,
        Err(e) => return c.inconclusive(&e),
    };
    let natoms = t.atoms.len();
    let stride = c.tier.pick(4usize, 1); // quick: every 4th atom
    let chunk = 16usize;
    let mut lo = 0;
    while lo < natoms {
        let name = format!("library/range-params/{}", lo);
        c.case(&name, |c| {
            let mut rng = c.rng(&name);
            let base = ch_of(rp);
            for (i, a) in t.atoms.iter().enumerate().skip(lo).take(chunk) {
                if a.kind == Kind::Len || (i % stride != 0) {
                    continue;
                }
                let Some(alt) = alt_valid(a.kind, t.atom_bytes(a), &mut rng) else { continue };
                let Ok(v2) = dec::<RangeConstraintParameters>(&t.with_replaced(a, &alt)) else { continue };
                c.eval();
                c.distinct(&format!("lib/RangeConstraintParameters/{}", a.fpath));
                c.count("library_atoms_replaced", 1);
                if ch_of(&v2) == base {
                    c.violation(
                        &format!("C12 challenge-unchanged level=library type=RangeConstraintParameters atom={}", a.fpath),
                        json!({"atom": a.path}),
                    );
                }
            }
        });
        lo += chunk;
    }
}

fn context_cases(c: &mut Ctx) {
    // distinct context inputs must give distinct contexts: a corpus of related inputs (an input, its
    // SHA3-256 digest as a 32-byte input, the digest of that, paddings, prefixes, the empty string)
    c.case("context/related-inputs", |c| {
        use sha3::{Digest, Sha3_256};
        use std::collections::HashMap;
        let mut rng = c.rng("context/related-inputs");
        let mut corpus: Vec<Vec<u8>> = vec![vec![], vec![0u8], vec![0u8; 32], vec![0xff; 32], vec![0u8; 31], vec![0u8; 33]];
        for len in [1usize, 5, 21, 27, 31, 32, 33, 64, 100] {
            for _ in 0..c.tier.pick(3, 30) {
                let mut t = vec![0u8; len];
                rng.fill_bytes(&mut t);
                let d1 = Sha3_256::digest(&t).to_vec();
                let d2 = Sha3_256::digest(&d1).to_vec();
                let mut padded = t.clone();
                padded.push(0);
                corpus.push(d1);
                corpus.push(d2);
                corpus.push(padded);
                if len > 1 {
                    corpus.push(t[..len - 1].to_vec());
                }
                corpus.push(t);
            }
        }
        corpus.sort();
        corpus.dedup();
        let mut seen: HashMap<[u8; 32], Vec<u8>> = HashMap::new();
        for inp in &corpus {
            c.eval();
            c.distinct(&format!("context-related/{}", hex(&inp[..inp.len().min(16)])));
            let d = Context::new(inp).as_bytes();
            if let Some(prev) = seen.insert(d, inp.clone()) {
                c.violation(
                    "C12 challenge-unchanged level=library type=Context-related-inputs",
                    json!({"input_a": hex(&prev), "input_b": hex(inp), "context": hex(&d)}),
                );
            }
        }
        c.count("context_inputs_compared", corpus.len() as i64);
    });
    // sequences of small scalars feed distinct transcripts: (a, 0) and (0, a), (0x0102, 0x03) and (0x01, 0x0203)
    // are different first messages (balances, amounts, digits are such values)
    c.case("builder/small-scalar-sequences", |c| {
        let vals: [u64; 9] = [0, 1, 2, 3, 255, 256, 257, 0x0102, 0x0203];
        let mut seen: std::collections::BTreeMap<[u8; 32], (u64, u64)> = Default::default();
        for &a in &vals {
            for &b in &vals {
                c.eval();
                c.distinct(&format!("small-scalars/{}/{}", a, b));
                let ch = ChallengeBuilder::new().with(&Scalar::from(a)).with(&Scalar::from(b)).finish().to_scalar().to_bytes();
                if let Some(prev) = seen.insert(ch, (a, b)) {
                    c.violation("C12 challenge-unchanged level=library type=Scalar-sequence", json!({"first": [prev.0, prev.1], "second": [a, b]}));
                }
            }
        }
        c.count("small_scalar_sequences_compared", (vals.len() * vals.len()) as i64);
    });
    // both public constructors of the challenge builder start the same transcript
    c.case("builder/constructors", |c| {
        let mut rng = c.rng("builder/constructors");
        for k in 0..c.tier.pick(20, 200) {
            c.eval();
            c.distinct(&format!("constructors/{}", k));
            let s = Scalar::random(&mut rng);
            let mut b = vec![0u8; (rng.next_u32() % 50) as usize];
            rng.fill_bytes(&mut b);
            let a = ChallengeBuilder::new().with(&s).with_bytes(&b).finish().to_scalar();
            let d = ChallengeBuilder::default().with(&s).with_bytes(&b).finish().to_scalar();
            if a != d || ChallengeBuilder::new().finish().to_scalar() != ChallengeBuilder::default().finish().to_scalar() {
                c.violation("C12 prover-verifier-challenge-differ constructors=new-vs-default", json!({"k": k}));
            }
        }
    });
    c.case("context/bytes", |c| {
        let mut rng = c.rng("context/bytes");
        let maxlen = c.tier.pick(64usize, 160);
        for len in 0..=maxlen {
            let mut b = vec![0u8; len];
            rng.fill_bytes(&mut b);
            let base = Context::new(&b).as_bytes();
            let basec = ChallengeBuilder::new().with_bytes(base).finish().to_scalar();
            c.distinct(&format!("context/{}", len));
            for pos in 0..len {
                c.eval();
                let mut b2 = b.clone();
                b2[pos] ^= 1 << (rng.next_u32() % 8);
                let d = Context::new(&b2).as_bytes();
                if d == base || ChallengeBuilder::new().with_bytes(d).finish().to_scalar() == basec {
                    c.violation("C12 challenge-unchanged level=library type=Context", json!({"len": len, "pos": pos}));
                }
            }
            let mut b3 = b.clone();
            b3.push(0);
            c.eval();
            if Context::new(&b3).as_bytes() == base || (len > 0 && Context::new(&b[..len - 1]).as_bytes() == base) {
                c.violation("C12 challenge-unchanged level=library type=Context-length", json!({"len": len}));
            }
        }
    });
}

struct EstFixture {
    cid: zk::ChannelId,
    proof: Trace,
    responses: Vec<String>,
    context: Vec<u8>,
    challenge: Scalar,
}

fn est_challenge(m: &Merchant, cid: &zk::ChannelId, cust: u64, merch: u64, proof: &[u8], ctx: &[u8], rng: &mut (impl RngCore + rand_core::CryptoRng)) -> Result<Scalar, String> {
    crate::shadow::submit_establish(m, rng, cid, cust, merch, proof, ctx).map(|o| o.challenge)
}

fn abacus_establish(c: &mut Ctx, m: &'static Merchant, inst: usize) {
    let name = format!("abacus/establish/{}", inst);
    c.case(&name, |c| {
        let mut rng = c.rng(&name);
        let (cust, merch) = [(10u64, 1000u64), (0, 0), (i64::MAX as u64, 1)][inst % 3];
        let cid = crate::session::new_channel_id(m, &mut rng, b"m", b"c");
        let mut seed = [0u8; 32];
        rng.fill_bytes(&mut seed);
        let ctx1 = b"context-one".to_vec();
        let ctx2 = b"context-two".to_vec();
        // the real prover twice, identical randomness, different contexts
        let mk = |ctx: &[u8]| -> Result<Trace, String> {
            let (_s, p) = Sess::request(m, &mut ScriptRng::new(seed), cid, cust, merch, ctx)?;
            trace(&dec::<zk::EstablishProof>(&p)?)
        };
        let (t1, t2) = match (mk(&ctx1), mk(&ctx2)) {
            (Ok(a), Ok(b)) => (a, b),
            (Err(e), _) | (_, Err(e)) => return c.inconclusive(&e),
        };
        let responses = match differing(&t1, &t2) {
            Ok(r) => r,
            Err(e) => return c.inconclusive(&e),
        };
        let responses = names_agree(c, "EstablishProof", &t1, &responses);
        c.note("establish_response_atoms", json!(responses));
        let base = match est_challenge(m, &cid, cust, merch, &t1.bytes, &ctx1, &mut rng) {
            Ok(x) => x,
            Err(e) => return c.inconclusive(&e),
        };
        // the honest proof must be accepted (otherwise we are not looking at the real transcript)
        match crate::shadow::submit_establish(m, &mut rng, &cid, cust, merch, &t1.bytes, &ctx1) {
            Ok(o) if o.accepted.is_some() && o.challenge == base => {}
            _ => return c.inconclusive("C12: honest establish proof not accepted / challenge unstable"),
        }
        let fx = EstFixture { cid, proof: t1, responses, context: ctx1, challenge: base };
        for a in &fx.proof.atoms {
            if a.kind == Kind::Len || fx.responses.iter().any(|r| r == &a.fpath) {
                continue;
            }
            let Some(alt) = alt_valid(a.kind, fx.proof.atom_bytes(a), &mut rng) else { continue };
            let bytes = fx.proof.with_replaced(a, &alt);
            c.eval();
            c.distinct(&format!("abacus/EstablishProof/{}", a.fpath));
            c.count("abacus_atoms_replaced", 1);
            match est_challenge(m, &fx.cid, cust, merch, &bytes, &fx.context, &mut rng) {
                Ok(ch) => {
                    if ch == fx.challenge {
                        c.violation(
                            &format!("C12 challenge-unchanged level=zkabacus proof=EstablishProof atom={}", a.fpath),
                            json!({"atom": a.path, "original": hex(fx.proof.atom_bytes(a)), "replacement": hex(&alt)}),
                        );
                    }
                }
                Err(e) => c.inconclusive(&e),
            }
        }
        // public values, key and context bytes
        let mut variants: Vec<(&str, Result<Scalar, String>)> = vec![];
        let cid2 = crate::session::new_channel_id(m, &mut rng, b"m", b"c2");
        variants.push(("channel-id", est_challenge(m, &cid2, cust, merch, &fx.proof.bytes, &fx.context, &mut rng)));
        variants.push(("customer-balance", est_challenge(m, &fx.cid, cust ^ 1, merch, &fx.proof.bytes, &fx.context, &mut rng)));
        variants.push(("merchant-balance", est_challenge(m, &fx.cid, cust, merch ^ 1, &fx.proof.bytes, &fx.context, &mut rng)));
        let mut cx = fx.context.clone();
        cx[3] ^= 0x10;
        variants.push(("context-byte", est_challenge(m, &fx.cid, cust, merch, &fx.proof.bytes, &cx, &mut rng)));
        let mut cx = fx.context.clone();
        cx.push(0);
        variants.push(("context-appended", est_challenge(m, &fx.cid, cust, merch, &fx.proof.bytes, &cx, &mut rng)));
        if let Ok(m2) = fixtures::merchant(c.seed, "m9") {
            variants.push(("merchant-key", est_challenge(m2, &fx.cid, cust, merch, &fx.proof.bytes, &fx.context, &mut rng)));
        }
        if inst == 0 {
            if let Ok(patoms) = parameter_atoms(m, usize::MAX) {
                for (which, fpath, kind, orig) in patoms.iter().filter(|p| p.0 == "key") {
                    let Some(alt) = alt_valid(*kind, orig, &mut rng) else { continue };
                    let Ok(mx) = config_with_atom(m, which, fpath, &alt) else { continue };
                    c.eval();
                    c.distinct(&format!("abacus/EstablishProof/parameter/{}", fpath));
                    c.count("abacus_parameter_atoms_replaced", 1);
                    match est_challenge(mx, &fx.cid, cust, merch, &fx.proof.bytes, &fx.context, &mut rng) {
                        Ok(ch) if ch == fx.challenge => c.violation(
                            &format!("C12 challenge-unchanged level=zkabacus proof=EstablishProof parameter=key:{}", fpath),
                            json!({"atom": fpath}),
                        ),
                        Ok(_) => {}
                        Err(e) => c.inconclusive(&e),
                    }
                }
            }
        }
        for (what, r) in variants {
            c.eval();
            c.distinct(&format!("abacus/EstablishProof/public/{}", what));
            match r {
                Ok(ch) if ch == fx.challenge => c.violation(&format!("C12 challenge-unchanged level=zkabacus proof=EstablishProof public={}", what), json!({})),
                Ok(_) => {}
                Err(e) => c.inconclusive(&e),
            }
        }
        c.sample(json!({"proof": "EstablishProof", "atoms": fx.proof.atoms.len(), "response_atoms": fx.responses.len(), "challenge": hex(&fx.challenge.to_bytes())}));
    });
}

fn pay_challenge(m: &'static Merchant, amt: i64, nonce: &[u8], proof: &[u8], ctx: &[u8], rng: &mut (impl RngCore + rand_core::CryptoRng)) -> Result<(Scalar, bool), String> {
    let (o, _) = crate::shadow::submit_pay(m, rng, amount(amt)?, nonce, proof, ctx, |_u| ())?;
    Ok((o.challenge, o.accepted.is_some()))
}

/// merchant configuration equal to `m` except for one atom of the signing key pair's public half
/// or of the range parameters (the secret half is untouched; decoding does not cross-check them)
pub fn config_with_atom(m: &Merchant, which: &str, fpath: &str, new: &[u8]) -> Result<&'static Merchant, String> {
    let kp_bytes = {
        let mut t = trace(m.cfg.signing_keypair())?;
        if which == "key" {
            t.fset(fpath, new)?;
        }
        t.bytes
    };
    let range_bytes = {
        let mut t = trace(m.cfg.range_constraint_parameters())?;
        if which == "range" {
            t.fset(fpath, new)?;
        }
        t.bytes
    };
    let cfg = zk::merchant::Config::from_parts(dec(&kp_bytes)?, dec(&enc(m.cfg.revocation_commitment_parameters()))?, dec(&range_bytes)?);
    let f = fixtures::from_config(&format!("{}-{}-{}", m.label, which, fpath), cfg)?;
    Ok(Box::leak(Box::new(f)))
}

/// (which, field path, kind, original bytes) of the parameter atoms the merchant feeds to its challenges
pub fn parameter_atoms(m: &Merchant, range_stride: usize) -> Result<Vec<(String, String, Kind, Vec<u8>)>, String> {
    let mut v = vec![];
    let t = trace(m.cfg.signing_keypair())?;
    for a in t.atoms.iter().filter(|a| a.fpath.starts_with("pk/") && matches!(a.kind, Kind::G1 | Kind::G2)) {
        v.push(("key".to_string(), a.fpath.clone(), a.kind, t.atom_bytes(a).to_vec()));
    }
    let t = trace(m.cfg.range_constraint_parameters())?;
    for (i, a) in t.atoms.iter().filter(|a| matches!(a.kind, Kind::G1 | Kind::G2)).enumerate() {
        if i % range_stride == 0 || a.fpath.starts_with("public_key") {
            v.push(("range".to_string(), a.fpath.clone(), a.kind, t.atom_bytes(a).to_vec()));
        }
    }
    Ok(v)
}

fn abacus_pay(c: &mut Ctx, m: &'static Merchant, inst: usize) {
    // fixture shared by all chunks of this instance
    let build = |seed: u64| -> Result<(Trace, Vec<String>, Vec<u8>, i64, Vec<u8>), String> {
        let mut rng = Ctx::fixture_rng(seed, &format!("c12/pay/{}/{}", m.label, inst));
        let (cust, merch, amt) = [(100u64, 5u64, 7i64), (5, 100, -7), (1 << 40, 0, 0)][inst % 3];
        let s = Sess::open(m, &mut rng, cust, merch, b"c12")?;
        let Stage::Ready(r) = &s.stage else { return Err("not ready".into()) };
        let mut seedb = [0u8; 32];
        rng.fill_bytes(&mut seedb);
        let ctx1 = b"pay-context-one".to_vec();
        let ctx2 = b"pay-context-two".to_vec();
        let mk = |ctx: &[u8]| -> Result<(Trace, Vec<u8>), String> {
            let r2 = copy(r)?;
            match r2.start(&mut ScriptRng::new(seedb), amount(amt)?, &Context::new(ctx), &m.ccfg) {
                Ok((_st, msg)) => Ok((trace(&msg.pay_proof)?, enc(&msg.nonce))),
                Err((_, e)) => Err(format!("{:?}", e)),
            }
        };
        let (t1, nonce) = mk(&ctx1)?;
        let (t2, _) = mk(&ctx2)?;
        let responses = differing(&t1, &t2)?;
        Ok((t1, responses, nonce, amt, ctx1))
    };
    let fx = build(c.seed);
    let (t1, responses, nonce, amt, ctx1) = match fx {
        Ok(x) => x,
        Err(e) => return c.inconclusive(&e),
    };
    let responses: Vec<String> = {
        let mut out = responses.clone();
        for a in &t1.atoms {
            if a.fpath.contains("response_scalar") && a.kind == Kind::B32 && !out.iter().any(|r| r == &a.fpath) {
                out.push(a.fpath.clone());
            }
        }
        out
    };
    let chunk = 12usize;
    let mut lo = 0usize;
    while lo < t1.atoms.len() {
        let name = format!("abacus/pay/{}/atoms/{}", inst, lo);
        c.case(&name, |c| {
            let mut rng = c.rng(&name);
            let (base, acc) = match pay_challenge(m, amt, &nonce, &t1.bytes, &ctx1, &mut rng) {
                Ok(x) => x,
                Err(e) => return c.inconclusive(&e),
            };
            if !acc {
                return c.inconclusive("C12: honest pay proof not accepted");
            }
            if lo == 0 {
                for a in &t1.atoms {
                    let named = a.fpath.contains("response_scalar") && a.kind == Kind::B32;
                    if !named && responses.iter().any(|r| r == &a.fpath) {
                        c.inconclusive(&format!("C12: PayProof: atom {} moved with the challenge but is not named a response scalar", a.fpath));
                    }
                }
                c.note("pay_response_atoms", json!(responses.len()));
                c.sample(json!({"proof": "PayProof", "atoms": t1.atoms.len(), "response_atoms": responses.len(), "challenge": hex(&base.to_bytes())}));
                // public values
                let mut variants: Vec<(&str, Result<(Scalar, bool), String>)> = vec![];
                let other_nonce = enc(&zk::internal::test_new_nonce(&mut rng));
                variants.push(("nonce", pay_challenge(m, amt, &other_nonce, &t1.bytes, &ctx1, &mut rng)));
                let mut cx = ctx1.clone();
                cx[0] ^= 1;
                variants.push(("context-byte", pay_challenge(m, amt, &nonce, &t1.bytes, &cx, &mut rng)));
                if let Ok(m2) = fixtures::merchant(c.seed, "m9") {
                    variants.push(("merchant-key-and-range-parameters", pay_challenge(m2, amt, &nonce, &t1.bytes, &ctx1, &mut rng)));
                    // same signing key, other range parameters
                    let mixed = zk::merchant::Config::from_parts(
                        dec(&enc(m.cfg.signing_keypair())).unwrap(),
                        dec(&enc(m.cfg.revocation_commitment_parameters())).unwrap(),
                        dec(&enc(m2.cfg.range_constraint_parameters())).unwrap(),
                    );
                    if let Ok(mx) = fixtures::from_config("mixed-range", mixed) {
                        let mx: &'static Merchant = Box::leak(Box::new(mx));
                        variants.push(("range-parameters", pay_challenge(mx, amt, &nonce, &t1.bytes, &ctx1, &mut rng)));
                    }
                }
                for (what, r) in variants {
                    c.eval();
                    c.distinct(&format!("abacus/PayProof/public/{}", what));
                    match r {
                        Ok((ch, _)) if ch == base => c.violation(&format!("C12 challenge-unchanged level=zkabacus proof=PayProof public={}", what), json!({})),
                        Ok(_) => {}
                        Err(e) => c.inconclusive(&e),
                    }
                }
            }
            for (ai, a) in t1.atoms.iter().enumerate().skip(lo).take(chunk) {
                if a.kind == Kind::Len || responses.iter().any(|r| r == &a.fpath) {
                    continue;
                }
                let Some(mut alt) = alt_valid(a.kind, t1.atom_bytes(a), &mut rng) else { continue };
                // every other point atom is replaced by its negation instead of an unrelated point
                let mut negated = false;
                if matches!(a.kind, Kind::G1 | Kind::G2) && ai % 2 == 0 && t1.atom_bytes(a)[0] & 0x40 == 0 {
                    alt = t1.atom_bytes(a).to_vec();
                    alt[0] ^= 0x20;
                    negated = true;
                    c.count("abacus_atoms_negated", 1);
                }
                let _ = negated;
                let bytes = t1.with_replaced(a, &alt);
                c.eval();
                c.distinct(&format!("abacus/PayProof/{}", a.fpath));
                c.count("abacus_atoms_replaced", 1);
                match pay_challenge(m, amt, &nonce, &bytes, &ctx1, &mut rng) {
                    Ok((ch, _)) => {
                        if ch == base {
                            c.violation(
                                &format!("C12 challenge-unchanged level=zkabacus proof=PayProof atom={}", a.fpath),
                                json!({"atom": a.path, "original": hex(t1.atom_bytes(a)), "replacement": hex(&alt)}),
                            );
                        }
                    }
                    Err(e) => c.inconclusive(&e),
                }
            }
        });
        lo += chunk;
    }
    // every element of the merchant key and (quick: every 8th, thorough: every) element of the range
    // parameters: a configuration differing in that one element must derive another challenge
    let stride = c.tier.pick(8usize, 1);
    let patoms = match parameter_atoms(m, stride) {
        Ok(v) => v,
        Err(e) => return c.inconclusive(&e),
    };
    if inst == 0 {
        let pchunk = 6usize;
        let mut lo = 0usize;
        while lo < patoms.len() {
            let name = format!("abacus/pay/{}/parameter-atoms/{}", inst, lo);
            c.case(&name, |c| {
                let mut rng = c.rng(&name);
                let (base, _) = match pay_challenge(m, amt, &nonce, &t1.bytes, &ctx1, &mut rng) {
                    Ok(x) => x,
                    Err(e) => return c.inconclusive(&e),
                };
                for (which, fpath, kind, orig) in patoms.iter().skip(lo).take(pchunk) {
                    let Some(alt) = alt_valid(*kind, orig, &mut rng) else { continue };
                    let mx = match config_with_atom(m, which, fpath, &alt) {
                        Ok(x) => x,
                        Err(e) => {
                            c.inconclusive(&e);
                            continue;
                        }
                    };
                    c.eval();
                    c.distinct(&format!("abacus/PayProof/parameter/{}/{}", which, fpath));
                    c.count("abacus_parameter_atoms_replaced", 1);
                    match pay_challenge(mx, amt, &nonce, &t1.bytes, &ctx1, &mut rng) {
                        Ok((ch, _)) if ch == base => c.violation(
                            &format!("C12 challenge-unchanged level=zkabacus proof=PayProof parameter={}:{}", which, fpath),
                            json!({"which": which, "atom": fpath}),
                        ),
                        Ok(_) => {}
                        Err(e) => c.inconclusive(&e),
                    }
                }
            });
            lo += pchunk;
        }
    }
}

/// Coverage guard: ChallengeInput implementors found in the source tree vs the ones exercised.
fn implementor_scan(c: &mut Ctx) {
    let Some(repo) = c.params.get("repo").cloned() else { return };
    let covered = [
        "&'a T", "Scalar", "G1Affine", "G2Affine", "G1Projective", "G2Projective", "Commitment<G>", "PedersenParameters<G, N>",
        "PublicKey<N>", "Signature", "BlindedMessage", "BlindedSignature", "CommitmentProof<G, N>", "CommitmentProofBuilder<G, N>",
        "SignatureProofBuilder<N>", "SignatureProof<N>", "SignatureRequestProofBuilder<N>", "SignatureRequestProof<N>",
        "RangeConstraintParameters", "RangeConstraintBuilder", "RangeConstraint",
    ];
    let mut found: Vec<String> = vec![];
    fn walk(dir: &std::path::Path, out: &mut Vec<std::path::PathBuf>) {
        if let Ok(rd) = std::fs::read_dir(dir) {
            for e in rd.flatten() {
                let p = e.path();
                if p.is_dir() {
                    if p.file_name().map(|n| n != "target").unwrap_or(true) {
                        walk(&p, out);
                    }
                } else if p.extension().map(|x| x == "rs").unwrap_or(false) {
                    out.push(p);
                }
            }
        }
    }
    let mut files = vec![];
    for sub in ["zkchannels-crypto/src", "zkabacus-crypto/src"] {
        walk(&std::path::Path::new(&repo).join(sub), &mut files);
    }
    for f in files {
        let Ok(text) = std::fs::read_to_string(&f) else { continue };
        let flat: String = text.split_whitespace().collect::<Vec<_>>().join(" ");
        let mut rest = flat.as_str();
        while let Some(p) = rest.find("ChallengeInput for ") {
            let tail = &rest[p + "ChallengeInput for ".len()..];
            let end = tail.find(" {").unwrap_or(tail.len().min(60));
            found.push(tail[..end].trim().to_string());
            rest = &tail[end..];
        }
    }
    found.sort();
    found.dedup();
    let uncovered: Vec<&String> = found.iter().filter(|f| !covered.iter().any(|k| k == &f.as_str())).collect();
    c.note("challenge_input_implementors_found", json!(found));
    c.note("uncovered_implementors", json!(uncovered));
}

pub fn run(c: &mut Ctx) {
    c.note("rule", json!("library level: every proof type x N x group, builder challenge = proof challenge, every non-response atom (identified behaviourally, cross-checked against field names) and every atom of every other ChallengeInput type replaced by a different valid encoding; arbitrary byte strings and Context inputs of length 0..64 with every byte position flipped. zkAbacus level: every non-response atom of an EstablishProof / PayProof (prover run twice with identical randomness and different contexts), every public value, the key, the range parameters and context bytes, with the merchant's challenge read through the hook. Distinct = distinct (type, atom path). Added later: every parameter atom, related-context corpus, constructors. Negated points, small scalar sequences, call-history independence of the challenge."));
    let m = match fixtures::merchant(c.seed, "m0") {
        Ok(m) => m,
        Err(e) => return c.inconclusive(&e),
    };
    verif_hooks::clear();
    implementor_scan(c);
    let inst = c.tier.pick(1usize, 6);
    library_n::<1>(c, inst);
    library_n::<2>(c, inst);
    library_n::<3>(c, inst);
    library_n::<5>(c, inst);
    if c.tier == crate::ctx::Tier::Thorough {
        library_n::<8>(c, inst);
        library_n::<13>(c, inst);
    }
    library_misc(c, m);
    context_cases(c);
    for i in 0..c.tier.pick(3usize, 12) {
        abacus_establish(c, m, i);
    }
    for i in 0..c.tier.pick(1usize, 6) {
        abacus_pay(c, m, i);
    }
}
