//! C19 — generated keys and parameters are well-formed for every randomness stream.
//!
//! Each generator is first run dry under a logging RNG; then an all-zero window is placed over
//! every single draw and over runs of 2-3 consecutive draws (scalar samples, field samples, sign
//! words alike), plus uniformly random streams. The outputs are checked through their wire form:
//! decode-time validators, no zero secret scalar / identity element, G1/G2 halves sharing their
//! discrete logarithms (pairings), Y_i = g^{y_i}, signatures verify, range parameters validate.

use crate::ctx::{guard, hex, Ctx};
use crate::props::util::*;
use crate::refs::*;
use crate::srng::ScriptRng;
use crate::tracer::{trace, Kind};
use crate::wire::{dec, enc};
use bls12_381::{pairing, G1Affine, G1Projective, G2Affine, G2Projective, Scalar};
use group::Curve;
use ff::Field;
use rand_core::RngCore;
use serde_json::json;
use zkabacus_crypto::merchant;
use zkchannels_crypto::{
    pedersen::PedersenParameters,
    pointcheval_sanders::KeyPair,
    proofs::RangeConstraintParameters,
    Message,
};

fn seed_of(rng: &mut impl RngCore) -> [u8; 32] {
    let mut s = [0u8; 32];
    rng.fill_bytes(&mut s);
    s
}

/// checks on a key pair through its wire form; returns a description of the first defect
fn keypair_defect<const N: usize>(kp: &KeyPair<N>, rng: &mut (impl RngCore + rand_core::CryptoRng)) -> Result<Option<String>, String> {
    let t = trace(kp)?;
    // own validators
    if dec::<KeyPair<N>>(&t.bytes).is_err() {
        return Ok(Some("generated key pair fails its own decode-time validation".into()));
    }
    let pk = PkAtoms::from_trace(&t, "pk")?;
    let x = sc(&t.fget("sk/x")?).ok_or("sk/x")?;
    let x1 = g1(&t.fget("sk/x1")?).ok_or("sk/x1")?;
    let mut ys = vec![];
    for i in 0..N {
        ys.push(sc(&t.fget(&format!("sk/ys/[{}]", i))?).ok_or("sk/ys")?);
    }
    if x == Scalar::zero() || ys.iter().any(|y| *y == Scalar::zero()) {
        return Ok(Some("zero secret scalar".into()));
    }
    for a in t.atoms.iter().filter(|a| matches!(a.kind, Kind::G1 | Kind::G2)) {
        let b = t.atom_bytes(a);
        if (a.kind == Kind::G1 && b == crate::wire::g1_identity_bytes()) || (a.kind == Kind::G2 && b == crate::wire::g2_identity_bytes()) {
            return Ok(Some(format!("identity element at {}", a.fpath)));
        }
    }
    // discrete logarithms
    let g = G1Projective::from(pk.g1);
    let gt = G2Projective::from(pk.g2);
    if (g * x).to_affine() != x1 {
        return Ok(Some("X1 != g^x".into()));
    }
    if (gt * x).to_affine() != pk.x2 {
        return Ok(Some("X~ != g~^x".into()));
    }
    if pairing(&x1, &pk.g2) != pairing(&pk.g1, &pk.x2) {
        return Ok(Some("e(X1, g~) != e(g, X~)".into()));
    }
    for i in 0..N {
        if (g * ys[i]).to_affine() != pk.y1s[i] || (gt * ys[i]).to_affine() != pk.y2s[i] {
            return Ok(Some(format!("Y_{} / Y~_{} not g^y / g~^y", i, i)));
        }
        if pairing(&pk.y1s[i], &pk.g2) != pairing(&pk.g1, &pk.y2s[i]) {
            return Ok(Some(format!("e(Y_{}, g~) != e(g, Y~_{})", i, i)));
        }
    }
    // a signature made with the key verifies (library and reference)
    let msg = Message::<N>::random(rng);
    let sig = msg.sign(rng, kp);
    let m: Vec<Scalar> = msg.iter().copied().collect();
    if !sig.verify(kp.public_key(), &msg) || !ps_verify_ref(&pk, &sig.sigma1(), &sig.sigma2(), &m) {
        return Ok(Some("signature made with the generated key does not verify".into()));
    }
    Ok(None)
}

fn windows(ndraws: usize, tier: crate::ctx::Tier, cap: usize, rng: &mut impl RngCore) -> Vec<(usize, usize)> {
    let mut w = vec![];
    for d in 0..ndraws {
        for width in 1..=3usize {
            if d + width <= ndraws {
                w.push((d, width));
            }
        }
    }
    if tier == crate::ctx::Tier::Quick && w.len() > cap {
        // keep all width-1 windows up to the cap, then a random sample of the wider ones
        let mut keep: Vec<(usize, usize)> = w.iter().copied().filter(|x| x.1 == 1).take(cap).collect();
        let rest: Vec<(usize, usize)> = w.iter().copied().filter(|x| x.1 != 1).collect();
        while keep.len() < cap && !rest.is_empty() {
            keep.push(rest[(rng.next_u32() as usize) % rest.len()]);
        }
        keep.sort();
        keep.dedup();
        return keep;
    }
    w
}

fn inject_zeros(r: &mut ScriptRng, dry: &ScriptRng, start: usize, width: usize) {
    for d in start..start + width {
        let len = dry.log[d].len;
        r.inject(d, vec![0u8; len]);
    }
}

fn keygen_n<const N: usize>(c: &mut Ctx) {
    let name = format!("KeyPair<{}>", N);
    c.case(&name, |c| {
        let mut rng = c.rng(&name);
        let seed = seed_of(&mut rng);
        let mut dry = ScriptRng::new(seed);
        let _ = KeyPair::<N>::new(&mut dry);
        let nd = dry.draws();
        c.note(&format!("draws[KeyPair<{}>]", N), json!({"total": nd, "scalar": dry.draws_of_len(64).len(), "field": dry.draws_of_len(96).len()}));
        let ws = windows(nd, c.tier, 60, &mut rng);
        let mut retried = 0;
        for (start, width) in ws {
            let mut r = ScriptRng::new(seed);
            inject_zeros(&mut r, &dry, start, width);
            c.eval();
            c.distinct(&format!("{}/zero@{}x{}", name, start, width));
            match guard(|| KeyPair::<N>::new(&mut r)) {
                Err(p) => c.violation(&format!("C19 generator-panicked type={} loc={}", name, repo_rel(&p.location)), json!({"window": [start, width], "panic": p.message})),
                Ok(kp) => {
                    if r.consumed == 0 {
                        c.inconclusive("C19: zero window not consumed");
                        continue;
                    }
                    if r.draws() > nd {
                        retried += 1;
                    }
                    match keypair_defect(&kp, &mut rng) {
                        Ok(None) => c.count("keypairs_well_formed", 1),
                        Ok(Some(d)) => c.violation(
                            &format!("C19 malformed-output type={} defect={}", name, d.split(" at ").next().unwrap_or("")),
                            json!({"window": [start, width], "draw_lengths": dry.log[start..start + width].iter().map(|x| x.len).collect::<Vec<_>>(), "defect": d, "key_head": hex(&enc(&kp)[..48])}),
                        ),
                        Err(e) => c.inconclusive(&e),
                    }
                }
            }
        }
        c.count(&format!("runs_that_drew_again[{}]", name), retried);
        if retried == 0 {
            c.inconclusive(&format!("C19: no zero window made {} draw again (retry loops not reached)", name));
        }
        // samples that are not zero bytes but reduce to the zero scalar: q, 2q, q*256 as 512-bit integers
        let mut patterns: Vec<(&str, Vec<u8>)> = vec![];
        {
            let q = crate::wire::Q_LE;
            let mut p1 = q.to_vec();
            p1.extend_from_slice(&[0u8; 32]);
            let mut p2 = vec![0u8; 64];
            let mut carry = 0u16;
            for i in 0..32 {
                let x = 2 * q[i] as u16 + carry;
                p2[i] = x as u8;
                carry = x >> 8;
            }
            p2[32] = carry as u8;
            let mut p3 = vec![0u8];
            p3.extend_from_slice(&q);
            p3.extend_from_slice(&[0u8; 31]);
            patterns.push(("q", p1));
            patterns.push(("2q", p2));
            patterns.push(("256q", p3));
        }
        for d in dry.draws_of_len(64) {
            for (pn, pat) in &patterns {
                let mut r = ScriptRng::new(seed);
                r.inject(d, pat.clone());
                c.eval();
                c.distinct(&format!("{}/{}@{}", name, pn, d));
                match guard(|| KeyPair::<N>::new(&mut r)) {
                    Err(p) => c.violation(&format!("C19 generator-panicked type={} loc={}", name, repo_rel(&p.location)), json!({"pattern": pn, "draw": d, "panic": p.message})),
                    Ok(kp) => {
                        if r.consumed == 0 {
                            continue;
                        }
                        match keypair_defect(&kp, &mut rng) {
                            Ok(None) => c.count("keypairs_well_formed(multiple-of-q sample)", 1),
                            Ok(Some(df)) => c.violation(
                                &format!("C19 malformed-output type={} defect={}", name, df.split(" at ").next().unwrap_or("")),
                                json!({"sample": format!("{} (reduces to the zero scalar)", pn), "draw": d, "defect": df}),
                            ),
                            Err(e) => c.inconclusive(&e),
                        }
                    }
                }
            }
        }
        // samples that are individually ordinary but algebraically related: x = -(sum y_i m_i) for a
        // message m, so that the signature on m has sigma2 = identity (a legitimate signature)
        {
            let mut effective = 0;
            for k in 0..c.tier.pick(2usize, 6) {
                let mut m = [Scalar::zero(); N];
                for (i, x) in m.iter_mut().enumerate() {
                    *x = if k == 0 { Scalar::from(1 + i as u64) } else { Scalar::random(&mut rng) };
                }
                // the secret scalars of the dry run
                let mut d0 = ScriptRng::new(seed);
                let kp0 = KeyPair::<N>::new(&mut d0);
                let Ok(t0) = trace(&kp0) else { continue };
                let mut acc = Scalar::zero();
                for i in 0..N {
                    let Some(y) = t0.fget(&format!("sk/ys/[{}]", i)).ok().and_then(|b| sc(&b)) else { continue };
                    acc += y * m[i];
                }
                let want = Scalar::zero() - acc;
                let mut pat = want.to_bytes().to_vec();
                pat.extend_from_slice(&[0u8; 32]);
                for d in dry.draws_of_len(64) {
                    let mut r = ScriptRng::new(seed);
                    r.inject(d, pat.clone());
                    let Ok(kp) = guard(|| KeyPair::<N>::new(&mut r)) else { continue };
                    let Ok(t) = trace(&kp) else { continue };
                    if t.fget("sk/x").ok().and_then(|b| sc(&b)) != Some(want) || (0..N).any(|i| t.fget(&format!("sk/ys/[{}]", i)).ok() != t0.fget(&format!("sk/ys/[{}]", i)).ok()) {
                        continue;
                    }
                    effective += 1;
                    c.eval();
                    c.distinct(&format!("{}/related-samples/{}", name, k));
                    let msg = Message::<N>::new(m);
                    let sig = msg.sign(&mut rng, &kp);
                    let pk = match PkAtoms::from_trace(&t, "pk") {
                        Ok(p) => p,
                        Err(e) => {
                            c.inconclusive(&e);
                            break;
                        }
                    };
                    let degenerate = sig.sigma2().to_compressed() == crate::wire::g1_identity_bytes();
                    c.count(if degenerate { "related_samples_signature_has_identity_sigma2" } else { "related_samples_signature_ordinary" }, 1);
                    let defect = if !sig.verify(kp.public_key(), &msg) || !ps_verify_ref(&pk, &sig.sigma1(), &sig.sigma2(), &m) {
                        Some("signature made with the generated key does not verify")
                    } else if dec::<zkchannels_crypto::pointcheval_sanders::Signature>(&enc(&sig)).is_err() {
                        Some("signature made with the generated key fails decode-time validation")
                    } else {
                        None
                    };
                    match (defect, keypair_defect(&kp, &mut rng)) {
                        (None, Ok(None)) => c.count("keypairs_well_formed(related samples)", 1),
                        (Some(df), _) => c.violation(&format!("C19 malformed-output type={} defect={}", name, df), json!({"samples": "x = -(sum y_i m_i)", "message": m.iter().map(|s| hex(&s.to_bytes())).collect::<Vec<_>>(), "defect": df})),
                        (None, Ok(Some(df))) => c.violation(&format!("C19 malformed-output type={} defect={}", name, df.split(" at ").next().unwrap_or("")), json!({"samples": "x = -(sum y_i m_i)", "defect": df})),
                        (None, Err(e)) => c.inconclusive(&e),
                    }
                    break;
                }
            }
            if effective == 0 {
                c.inconclusive(&format!("C19: no scalar draw of {} could be aimed at the secret x", name));
            }
        }
        // uniformly random streams
        for k in 0..c.tier.pick(4, 60) {
            c.eval();
            c.distinct(&format!("{}/random{}", name, k));
            let kp = KeyPair::<N>::new(&mut rng);
            match keypair_defect(&kp, &mut rng) {
                Ok(None) => c.count("keypairs_well_formed", 1),
                Ok(Some(d)) => c.violation(&format!("C19 malformed-output type={} defect={}", name, d), json!({"stream": "random", "defect": d})),
                Err(e) => c.inconclusive(&e),
            }
        }
        if N == 2 {
            c.sample(json!({"generator": name, "draws": dry.log.iter().map(|d| d.len).collect::<Vec<_>>()}));
        }
    });
}

fn pedersen_defect(bytes: &[u8], g2: bool) -> Result<Option<String>, String> {
    let id1 = crate::wire::g1_identity_bytes();
    let id2 = crate::wire::g2_identity_bytes();
    let step = if g2 { 96 } else { 48 };
    // layout: h, LEN, gs...
    let mut pos = 0;
    let mut k = 0;
    while pos + step <= bytes.len() {
        let chunk = &bytes[pos..pos + step];
        if (g2 && chunk == id2) || (!g2 && chunk == id1) {
            return Ok(Some(format!("identity generator #{}", k)));
        }
        pos += step;
        if k == 0 {
            pos += 8;
        }
        k += 1;
    }
    Ok(None)
}

fn pedersen_n<const N: usize>(c: &mut Ctx) {
    for g2 in [false, true] {
        let name = format!("PedersenParameters<{},{}>", if g2 { "G2" } else { "G1" }, N);
        c.case(&name, |c| {
            let mut rng = c.rng(&name);
            let seed = seed_of(&mut rng);
            let gen = |r: &mut ScriptRng| -> Vec<u8> {
                if g2 {
                    enc(&PedersenParameters::<G2Projective, N>::new(r))
                } else {
                    enc(&PedersenParameters::<G1Projective, N>::new(r))
                }
            };
            let valid = |b: &[u8]| -> bool {
                if g2 {
                    dec::<PedersenParameters<G2Projective, N>>(b).is_ok()
                } else {
                    dec::<PedersenParameters<G1Projective, N>>(b).is_ok()
                }
            };
            let mut dry = ScriptRng::new(seed);
            let _ = gen(&mut dry);
            let nd = dry.draws();
            let ws = windows(nd, c.tier, 40, &mut rng);
            let mut retried = 0;
            for (start, width) in ws {
                let mut r = ScriptRng::new(seed);
                inject_zeros(&mut r, &dry, start, width);
                c.eval();
                c.distinct(&format!("{}/zero@{}x{}", name, start, width));
                match guard(|| gen(&mut r)) {
                    Err(p) => c.violation(&format!("C19 generator-panicked type={} loc={}", name, repo_rel(&p.location)), json!({"window": [start, width], "panic": p.message})),
                    Ok(b) => {
                        if r.draws() > nd {
                            retried += 1;
                        }
                        let defect = if !valid(&b) { Some("fails its own decode-time validation".to_string()) } else { pedersen_defect(&b, g2).unwrap_or(None) };
                        match defect {
                            None => c.count("pedersen_parameters_well_formed", 1),
                            Some(d) => c.violation(&format!("C19 malformed-output type={} defect={}", name, d), json!({"window": [start, width], "defect": d})),
                        }
                    }
                }
            }
            c.count(&format!("runs_that_drew_again[{}]", name), retried);
            if retried == 0 {
                c.inconclusive(&format!("C19: no zero window made {} draw again", name));
            }
        });
    }
}

fn range_defect(rp: &RangeConstraintParameters) -> Result<Option<String>, String> {
    let t = trace(rp)?;
    if dec::<RangeConstraintParameters>(&t.bytes).is_err() {
        return Ok(Some("fails its own decode-time validation".into()));
    }
    if rp.validate().is_err() {
        return Ok(Some("validate() fails".into()));
    }
    let pk = PkAtoms::from_trace(&t, "public_key")?;
    let mut i = 0u64;
    loop {
        let a = t.by_fpath(&format!("digit_signatures/[{}]/sigma1", i));
        let b = t.by_fpath(&format!("digit_signatures/[{}]/sigma2", i));
        if a.len() != 1 || b.len() != 1 {
            break;
        }
        let (Some(s1), Some(s2)): (Option<G1Affine>, Option<G1Affine>) = (g1(t.atom_bytes(a[0])), g1(t.atom_bytes(b[0]))) else {
            return Ok(Some(format!("digit signature {} does not decode", i)));
        };
        if !ps_verify_ref(&pk, &s1, &s2, &[Scalar::from(i)]) {
            return Ok(Some(format!("digit signature {} invalid by reference", i)));
        }
        i += 1;
    }
    if i != 128 {
        return Ok(Some(format!("{} digit signatures", i)));
    }
    if pairing(&pk.y1s[0], &pk.g2) != pairing(&pk.g1, &pk.y2s[0]) {
        return Ok(Some("range key halves inconsistent".into()));
    }
    let _: Option<G2Affine> = None;
    Ok(None)
}

fn range_params(c: &mut Ctx) {
    // one dry run shared by all cases of this seed
    let seed = seed_of(&mut c.rng("range/seed"));
    let mut dry = ScriptRng::new(seed);
    let _ = RangeConstraintParameters::new(&mut dry);
    let nd = dry.draws();
    c.note("draws[RangeConstraintParameters]", json!({"total": nd, "scalar": dry.draws_of_len(64).len(), "field": dry.draws_of_len(96).len()}));
    let ws = windows(nd, c.tier, 48, &mut c.rng("range/windows"));
    for (start, width) in ws {
        let name = format!("RangeConstraintParameters/zero@{}x{}", start, width);
        c.case(&name, |c| {
            let mut r = ScriptRng::new(seed);
            inject_zeros(&mut r, &dry, start, width);
            c.eval();
            c.distinct(&name);
            match guard(|| RangeConstraintParameters::new(&mut r)) {
                Err(p) => c.violation(&format!("C19 generator-panicked type=RangeConstraintParameters loc={}", repo_rel(&p.location)), json!({"window": [start, width], "panic": p.message})),
                Ok(rp) => {
                    if r.draws() > nd {
                        c.count("runs_that_drew_again[RangeConstraintParameters]", 1);
                    }
                    match range_defect(&rp) {
                        Ok(None) => c.count("range_parameters_well_formed", 1),
                        Ok(Some(d)) => c.violation(
                            &format!("C19 malformed-output type=RangeConstraintParameters defect={}", d.trim_end_matches(|ch: char| ch.is_ascii_digit() || ch == ' ')),
                            json!({"window": [start, width], "draw_lengths": dry.log[start..start + width].iter().map(|x| x.len).collect::<Vec<_>>(), "defect": d}),
                        ),
                        Err(e) => c.inconclusive(&e),
                    }
                }
            }
        });
    }
}

/// range key samples related by x = -d*y: the published signature on digit d then has sigma2 = identity,
/// which is a valid signature; the parameter set must still validate, decode and verify digit by digit
fn range_params_related(c: &mut Ctx) {
    let seed = seed_of(&mut c.rng("range/seed"));
    let mut dry = ScriptRng::new(seed);
    let _ = RangeConstraintParameters::new(&mut dry);
    let d64 = dry.draws_of_len(64);
    if d64.len() < 2 {
        return c.inconclusive("C19: range parameter generation shows fewer than two scalar draws");
    }
    let digits: Vec<u64> = if c.tier == crate::ctx::Tier::Quick { vec![1, 127] } else { vec![1, 2, 63, 64, 100, 127] };
    for d in digits {
        let name = format!("RangeConstraintParameters/related-samples/x=-{}y", d);
        c.case(&name, |c| {
            let mut rng = c.rng(&name);
            let y = Scalar::random(&mut rng);
            let x = Scalar::zero() - Scalar::from(d) * y;
            let pat = |s: &Scalar| {
                let mut p = s.to_bytes().to_vec();
                p.extend_from_slice(&[0u8; 32]);
                p
            };
            let id = crate::wire::g1_identity_bytes();
            let mut effective = false;
            // the two secret scalars are among the first scalar draws, in either order
            'outer: for i in 0..d64.len().min(3) {
                for j in 0..d64.len().min(3) {
                    if i == j {
                        continue;
                    }
                    let mut r = ScriptRng::new(seed);
                    r.inject(d64[i], pat(&x));
                    r.inject(d64[j], pat(&y));
                    let rp = match guard(|| RangeConstraintParameters::new(&mut r)) {
                        Ok(rp) => rp,
                        Err(p) => {
                            c.violation(&format!("C19 generator-panicked type=RangeConstraintParameters loc={}", repo_rel(&p.location)), json!({"samples": format!("x = -{}*y", d), "panic": p.message}));
                            break 'outer;
                        }
                    };
                    let Ok(t) = trace(&rp) else { continue };
                    let hit = t.fget(&format!("digit_signatures/[{}]/sigma2", d)).map(|b| b == id).unwrap_or(false);
                    if !hit {
                        continue;
                    }
                    effective = true;
                    c.eval();
                    c.distinct(&name);
                    c.count("range_parameters_with_identity_sigma2_digit", 1);
                    match range_defect(&rp) {
                        Ok(None) => c.count("range_parameters_well_formed(related samples)", 1),
                        Ok(Some(df)) => c.violation(
                            &format!("C19 malformed-output type=RangeConstraintParameters defect={}", df.trim_end_matches(|ch: char| ch.is_ascii_digit() || ch == ' ')),
                            json!({"samples": format!("x = -{}*y (both non-zero)", d), "defect": df}),
                        ),
                        Err(e) => c.inconclusive(&e),
                    }
                    break 'outer;
                }
            }
            if !effective {
                c.inconclusive("C19: related samples did not reach the range key's secret scalars");
            }
        });
    }
}

fn merchant_config(c: &mut Ctx) {
    for k in 0..c.tier.pick(4usize, 32) {
        let name = format!("merchant::Config/{}", k);
        c.case(&name, |c| {
            let mut rng = c.rng(&name);
            let seed = seed_of(&mut rng);
            let mut dry = ScriptRng::new(seed);
            let _ = merchant::Config::new(&mut dry);
            let nd = dry.draws();
            // zero window somewhere in the key / Pedersen part (the first draws)
            let start = (rng.next_u32() as usize) % 40.min(nd);
            let width = 1 + (rng.next_u32() as usize) % 3;
            let mut r = ScriptRng::new(seed);
            inject_zeros(&mut r, &dry, start, width.min(nd - start));
            c.eval();
            c.distinct(&name);
            match guard(|| merchant::Config::new(&mut r)) {
                Err(p) => c.violation(&format!("C19 generator-panicked type=merchant::Config loc={}", repo_rel(&p.location)), json!({"panic": p.message})),
                Ok(cfg) => {
                    let kd = keypair_defect(cfg.signing_keypair(), &mut rng);
                    let rd = range_defect(cfg.range_constraint_parameters());
                    let pd = pedersen_defect(&enc(cfg.revocation_commitment_parameters()), false);
                    let pv = dec::<PedersenParameters<G1Projective, 1>>(&enc(cfg.revocation_commitment_parameters())).is_ok();
                    match (kd, rd, pd) {
                        (Ok(None), Ok(None), Ok(None)) if pv => {
                            // the configuration works end to end
                            match crate::fixtures::from_config(&name, cfg) {
                                Ok(f) => {
                                    let f: &'static crate::fixtures::Merchant = Box::leak(Box::new(f));
                                    let ok = crate::session::Sess::open(f, &mut rng, 9, 9, b"c19").and_then(|mut s| s.pay(&mut rng, crate::session::amount(4).unwrap(), b"c19").map(|r| r.is_ok()));
                                    if ok == Ok(true) {
                                        c.count("merchant_configs_well_formed_and_working", 1);
                                    } else {
                                        c.violation("C19 malformed-output type=merchant::Config defect=honest payment fails", json!({"window": [start, width], "error": format!("{:?}", ok)}));
                                    }
                                }
                                Err(e) => c.inconclusive(&e),
                            }
                        }
                        (k, r, p) => c.violation(
                            "C19 malformed-output type=merchant::Config defect=part",
                            json!({"window": [start, width], "keypair": format!("{:?}", k), "range": format!("{:?}", r), "pedersen": format!("{:?}", p), "pedersen_validates": pv}),
                        ),
                    }
                }
            }
        });
    }
}

pub fn run(c: &mut Ctx) {
    c.note("rule", json!("for KeyPair<N> and PedersenParameters<G,N> (N in 1,2,3,5 quick; +8,13 thorough), RangeConstraintParameters and merchant::Config: dry run to log the draws, then an all-zero window over every single draw and every run of 2-3 consecutive draws (quick: capped sample), plus uniformly random streams; outputs checked through their wire form. Distinct = distinct (generator, window start, width) whose injection was consumed. Added later: samples q, 2q, 256q (reduce to zero), and algebraically related samples (x = -sum y_i m_i; range key x = -d*y) that make a legitimate signature with sigma2 = identity."));
    keygen_n::<1>(c);
    keygen_n::<2>(c);
    keygen_n::<3>(c);
    keygen_n::<5>(c);
    pedersen_n::<1>(c);
    pedersen_n::<2>(c);
    pedersen_n::<5>(c);
    if c.tier == crate::ctx::Tier::Thorough {
        keygen_n::<8>(c);
        keygen_n::<13>(c);
        pedersen_n::<3>(c);
        pedersen_n::<8>(c);
        pedersen_n::<13>(c);
    }
    range_params(c);
    range_params_related(c);
    merchant_config(c);
}
