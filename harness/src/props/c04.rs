//! C04 — honest runs always complete and track the ideal ledger exactly.
//!
//! Real customer stages against a real merchant, step by step; the oracle is the i128 ledger.
//! Amounts are drawn relative to the *current* balances so that 0 and 2^63-1 are reached through
//! payments, and out-of-range amounts are mixed in to observe the refusal path.

use crate::ctx::{guard, Ctx};
use crate::fixtures::{self, Merchant};
use crate::props::util::*;
use crate::refs::{ledger_apply, LedgerErr};
use crate::session::{amount, new_channel_id, Sess, Stage};
use rand_core::RngCore;
use serde_json::json;
use zkabacus_crypto::{Error, Verification};

const MAXB: u64 = i64::MAX as u64;

pub fn initial_lattice() -> Vec<u64> {
    vec![0, 1, 2, 1 << 31, 1 << 32, 1 << 62, MAXB - 1, MAXB]
}

/// amount candidates relative to the current balances
pub fn candidate_amounts(cust: u64, merch: u64, rng: &mut impl RngCore) -> Vec<i64> {
    let mut v: Vec<i128> = vec![
        0,
        1,
        -1,
        cust as i128,
        -(merch as i128),
        cust as i128 + 1,
        -(merch as i128) - 1,
        MAXB as i128,
        -(MAXB as i128),
        cust as i128 - 1,
        -(merch as i128) + 1,
        (MAXB - merch) as i128,      // makes the merchant balance exactly 2^63-1 (if the customer can afford it)
        -((MAXB - cust) as i128),    // makes the customer balance exactly 2^63-1
        (MAXB - merch) as i128 + 1,  // one too many
        -((MAXB - cust) as i128) - 1,
    ];
    v.push((rng.next_u64() % (cust.saturating_add(1).max(1))) as i128);
    v.push(-((rng.next_u64() % (merch.saturating_add(1).max(1))) as i128));
    v.push((rng.next_u64() >> 1) as i128);
    v.push(-((rng.next_u64() >> 1) as i128));
    v.into_iter().filter(|a| a.unsigned_abs() <= MAXB as u128).map(|a| a as i64).collect()
}

pub fn check_close(c: &mut Ctx, s: &Sess, m: &Merchant, rng: &mut (impl RngCore + rand_core::CryptoRng), expect: (u64, u64), whence: &str) {
    match s.stage.close_from_copy(rng) {
        Err(e) => c.violation(&format!("C04 close-failed stage={}", s.stage.name()), json!({"error": e, "whence": whence})),
        Ok(None) => {}
        Ok(Some(cm)) => {
            c.eval();
            let got = (cm.customer_balance().into_inner(), cm.merchant_balance().into_inner());
            let cid_ok = cm.channel_id().to_bytes() == s.cid.to_bytes();
            let (sig, st) = cm.into_parts();
            let ver = matches!(m.cfg.check_close_signature(sig, &st), Verification::Verified);
            if got != expect || !cid_ok || !ver {
                c.violation(
                    &format!("C04 closing-message-wrong stage={}", s.stage.name()),
                    json!({"whence": whence, "balances": [got.0.to_string(), got.1.to_string()], "ledger": [expect.0.to_string(), expect.1.to_string()],
                           "channel_id_matches": cid_ok, "merchant_accepts": ver}),
                );
            } else {
                c.count("closing_messages_checked", 1);
            }
        }
    }
}

fn stage_balances_ok(c: &mut Ctx, s: &Sess, expect: (u64, u64), whence: &str) {
    c.eval();
    // the stage names the channel it was opened for
    if s.stage.channel_id() != Some(s.cid.to_bytes()) {
        c.violation(
            &format!("C04 stage-reports-another-channel-id stage={}", s.stage.name()),
            json!({"whence": whence}),
        );
    }
    if s.stage.balances() != Some(expect) {
        c.violation(
            &format!("C04 balance-differs-from-ledger stage={}", s.stage.name()),
            json!({"whence": whence, "reported": format!("{:?}", s.stage.balances()), "ledger": [expect.0.to_string(), expect.1.to_string()]}),
        );
    }
}

fn fail(c: &mut Ctx, step: &str, detail: String, ctxj: serde_json::Value) {
    c.violation(&format!("C04 honest-step-failed step={}", step), json!({"error": detail, "context": ctxj}));
}

fn run_channel(c: &mut Ctx, m: &'static Merchant, name: &str, cust0: u64, merch0: u64, steps: usize) {
    let mut rng = c.rng(name);
    let ctxb = name.as_bytes().to_vec();
    let info = json!({"initial": [cust0.to_string(), merch0.to_string()], "merchant": m.label});
    let cid = new_channel_id(m, &mut rng, b"merchant-account", b"customer-account");
    // establishment
    let (mut s, proof) = match Sess::request(m, &mut rng, cid, cust0, merch0, &ctxb) {
        Ok(x) => x,
        Err(e) => return fail(c, "request", e, info),
    };
    stage_balances_ok(c, &s, (cust0, merch0), "requested");
    let sig = match s.m_initialize(&mut rng, cust0, merch0, &proof, &ctxb) {
        Ok(Some(x)) => x,
        Ok(None) => return fail(c, "initialize", "merchant refused an honest establish proof".into(), info),
        Err(e) => return fail(c, "initialize", e, info),
    };
    match s.c_complete(&sig) {
        Ok(true) => {}
        Ok(false) => return fail(c, "complete", "customer refused the honest closing signature".into(), info),
        Err(e) => return fail(c, "complete", e, info),
    }
    stage_balances_ok(c, &s, (cust0, merch0), "inactive");
    check_close(c, &s, m, &mut rng, (cust0, merch0), "inactive");
    let tok = match s.m_activate(&mut rng) {
        Ok(x) => x,
        Err(e) => return fail(c, "activate", e, info),
    };
    match s.c_activate(&tok) {
        Ok(true) => {}
        Ok(false) => return fail(c, "activate", "customer refused the honest pay token".into(), info),
        Err(e) => return fail(c, "activate", e, info),
    }
    stage_balances_ok(c, &s, (cust0, merch0), "ready");
    check_close(c, &s, m, &mut rng, (cust0, merch0), "ready");
    c.count("channels_established", 1);
    let total = cust0 as u128 + merch0 as u128;
    let mut hist: Vec<String> = vec![];
    for step in 0..steps {
        let (cust, merch) = s.ledger;
        let cands = candidate_amounts(cust, merch, &mut rng);
        let a = cands[(rng.next_u32() as usize) % cands.len()];
        let pa = match amount(a) {
            Ok(p) => p,
            Err(_) => continue,
        };
        let expect = ledger_apply(cust, merch, a);
        c.distinct(&format!("pay/{}/{}/{}", cust, merch, a));
        let j = json!({"initial": [cust0.to_string(), merch0.to_string()], "step": step, "balances": [cust.to_string(), merch.to_string()], "amount": a.to_string(), "history": hist});
        let before = s.stage.bytes();
        let started = match s.c_start(&mut rng, pa, &ctxb) {
            Ok(x) => x,
            Err(e) => return fail(c, "start", e, j),
        };
        c.eval();
        match (started, expect) {
            (Err(e), Err(le)) => {
                c.count("out_of_range_refused", 1);
                let ok = match e {
                    Error::InsufficientFunds => le.neg,
                    Error::AmountTooLarge(_) => le.big,
                };
                if !ok {
                    c.violation(
                        &format!("C04 wrong-error class={}", crate::session::ledger_err_name(&le)),
                        json!({"error": format!("{:?}", e), "context": j}),
                    );
                }
                if s.stage.bytes() != before || s.stage.name() != "ready" {
                    c.violation("C04 refusal-changed-state", json!({"context": j}));
                }
                hist.push(format!("{} refused", a));
                continue;
            }
            (Err(e), Ok(_)) => {
                return c.violation("C04 in-range-payment-refused", json!({"error": format!("{:?}", e), "context": j}));
            }
            (Ok(_), Err(le)) => {
                return c.violation(
                    &format!("C04 out-of-range-payment-started class={}", crate::session::ledger_err_name(&le)),
                    json!({"context": j}),
                );
            }
            (Ok((nonce, proof)), Ok((nc, nm))) => {
                hist.push(a.to_string());
                // while only started: pre-payment balances
                stage_balances_ok(c, &s, (cust, merch), "started");
                check_close(c, &s, m, &mut rng, (cust, merch), "started");
                let sig = match s.m_allow(&mut rng, pa, &nonce, &proof, &ctxb) {
                    Ok(Some(x)) => x,
                    Ok(None) => return fail(c, "allow_payment", "merchant refused an honest pay proof".into(), j),
                    Err(e) => return fail(c, "allow_payment", e, j),
                };
                let (pair, bf) = match s.c_lock(&sig) {
                    Ok(Some(x)) => x,
                    Ok(None) => return fail(c, "lock", "customer refused the honest closing signature".into(), j),
                    Err(e) => return fail(c, "lock", e, j),
                };
                stage_balances_ok(c, &s, (nc, nm), "locked");
                check_close(c, &s, m, &mut rng, (nc, nm), "locked");
                let tok = match s.m_complete(&mut rng, &pair, &bf) {
                    Ok(Some(x)) => x,
                    Ok(None) => return fail(c, "complete_payment", "merchant refused the honest revocation pair".into(), j),
                    Err(e) => return fail(c, "complete_payment", e, j),
                };
                match s.c_unlock(&tok) {
                    Ok(true) => {}
                    Ok(false) => return fail(c, "unlock", "customer refused the honest pay token".into(), j),
                    Err(e) => return fail(c, "unlock", e, j),
                }
                stage_balances_ok(c, &s, (nc, nm), "ready");
                check_close(c, &s, m, &mut rng, (nc, nm), "ready");
                if nc as u128 + nm as u128 != total {
                    c.violation("C04 total-not-conserved", json!({"context": j}));
                }
                c.count("payments_completed", 1);
                if nc == 0 || nm == 0 {
                    c.count("reached_zero_balance", 1);
                }
                if nc == MAXB || nm == MAXB {
                    c.count("reached_2^63-1", 1);
                }
            }
        }
    }
    c.sample(json!({"initial": [cust0.to_string(), merch0.to_string()], "steps": hist, "final": [s.ledger.0.to_string(), s.ledger.1.to_string()]}));
}

pub fn run(c: &mut Ctx) {
    c.note("rule", json!("channels with initial balances from the lattice {0,1,2,2^31,2^32,2^62,2^63-2,2^63-1}^2 and random pairs; per channel a sequence of amounts drawn from boundary values relative to the current balances (0, +-1, +-balance, +-(balance+1), +-(2^63-1), exact fill-ups to 2^63-1 and one beyond, random); every step of establish and pay is executed and every stage's balances and closing message are compared with the i128 ledger. Distinct = distinct (balances-before, amount) pairs executed or refused. Added later: every stage names the channel it was opened for (accessor against the session's id)."));
    let lat = initial_lattice();
    let mut pairs: Vec<(u64, u64)> = vec![];
    for &a in &lat {
        for &b in &lat {
            pairs.push((a, b));
        }
    }
    let nm = c.tier.pick(1usize, 3);
    let steps = c.tier.pick(10usize, 30);
    let nrand = c.tier.pick(24usize, 160);
    for mi in 0..nm {
        let m = match fixtures::merchant(c.seed, &format!("m{}", mi)) {
            Ok(m) => m,
            Err(e) => return c.inconclusive(&e),
        };
        let mut all = pairs.clone();
        let mut rng = c.rng(&format!("pairs/{}", mi));
        for _ in 0..nrand {
            all.push((shaped_u64(&mut rng) & MAXB, shaped_u64(&mut rng) & MAXB));
        }
        for (i, (cust, merch)) in all.into_iter().enumerate() {
            let name = format!("m{}/channel{}/{}-{}", mi, i, cust, merch);
            c.case(&name, |c| {
                let r = guard(|| run_channel(c, m, &name, cust, merch, steps));
                if let Err(p) = r {
                    c.violation(
                        &format!("C04 panic-in-honest-run loc={}", repo_rel(&p.location)),
                        json!({"panic": p.message, "initial": [cust.to_string(), merch.to_string()]}),
                    );
                }
            });
        }
    }
    let _ = LedgerErr { neg: false, big: false };
    let _ = Stage::None;
}
