//! zkmon — runtime monitors for libzkchannels-crypto (see /verif/DESIGN.md).
//!
//! usage: zkmon <PROPERTY> [--tier quick|thorough] [--seed N] [--shard i/n] [--out FILE]
//!              [--progress FILE] [--only CASE] [--skip K1,K2] [--param k=v]... [--verbose]

#![allow(clippy::too_many_arguments, clippy::type_complexity, clippy::needless_range_loop)]

pub mod alloc;
pub mod ctx;
pub mod refs;
pub mod srng;
pub mod tracer;
pub mod wire;
pub mod fixtures;
pub mod shadow;
pub mod session;
pub mod types;
pub mod props;

#[cfg(feature = "track-alloc")]
#[global_allocator]
static GLOBAL: alloc::Tracking = alloc::Tracking;

use ctx::{Ctx, Tier};
use std::time::Instant;

fn main() {
    let args: Vec<String> = std::env::args().collect();
    if args.len() < 2 {
        eprintln!("usage: zkmon <PROPERTY> [options]");
        std::process::exit(64);
    }
    let prop = args[1].clone();
    let mut tier = Tier::Quick;
    let mut seed = 0u64;
    let mut shard = 0usize;
    let mut nshards = 1usize;
    let mut out: Option<String> = None;
    let mut progress: Option<String> = None;
    let mut only: Option<String> = None;
    let mut skip = std::collections::BTreeSet::new();
    let mut params = std::collections::BTreeMap::new();
    let mut verbose = false;
    let mut i = 2;
    while i < args.len() {
        let a = args[i].as_str();
        let mut val = || {
            i += 1;
            args.get(i).cloned().unwrap_or_else(|| {
                eprintln!("missing value for option");
                std::process::exit(64)
            })
        };
        match a {
            "--tier" => {
                tier = match val().as_str() {
                    "quick" => Tier::Quick,
                    "thorough" => Tier::Thorough,
                    x => {
                        eprintln!("bad tier {}", x);
                        std::process::exit(64)
                    }
                }
            }
            "--seed" => seed = val().parse().expect("seed"),
            "--shard" => {
                let v = val();
                let (a, b) = v.split_once('/').expect("shard i/n");
                shard = a.parse().expect("shard i");
                nshards = b.parse().expect("shard n");
            }
            "--out" => out = Some(val()),
            "--progress" => progress = Some(val()),
            "--only" => only = Some(val()),
            "--skip" => {
                for x in val().split(',') {
                    if !x.is_empty() {
                        let _ = skip.insert(x.parse::<u64>().expect("skip index"));
                    }
                }
            }
            "--param" => {
                let v = val();
                let (k, x) = v.split_once('=').expect("param k=v");
                let _ = params.insert(k.to_string(), x.to_string());
            }
            "--verbose" => verbose = true,
            x => {
                eprintln!("unknown option {}", x);
                std::process::exit(64)
            }
        }
        i += 1;
    }
    ctx::install_panic_hook();
    let mut c = Ctx::new(&prop, tier, seed, shard, nshards, only, progress.as_deref());
    c.params = params;
    c.verbose = verbose;
    c.skip = skip;
    let t0 = Instant::now();
    let known = props::run(&mut c);
    if !known {
        eprintln!("unknown property {}", prop);
        std::process::exit(64);
    }
    let summary = c.summary(t0.elapsed().as_secs_f64());
    let text = serde_json::to_string(&summary).expect("summary json");
    match out {
        Some(p) => std::fs::write(&p, text).expect("write summary"),
        None => println!("{}", text),
    }
}
